#!/usr/bin/env python3-vt
import json, glob, jsonschema, sys
m = json.load(open('/verif/MANIFEST.json')); s = json.load(open('/root/.vp/MANIFEST.schema.json')); jsonschema.validate(m, s); print('manifest valid,', len(m['checks']), 'checks')
es = json.load(open('/root/.vp/EVIDENCE.schema.json'))
bad = 0
for c in m['checks']:
    f = c['evidence_file']
    try:
        e = json.load(open(f)); jsonschema.validate(e, es)
        assert e['level'] == c['level_claimed']['category'], 'level mismatch'
    except Exception as ex:
        print('INVALID', f, str(ex)[:200]); bad += 1
print('evidence files valid' if not bad else '%d invalid' % bad)
sys.exit(1 if bad else 0)
