#!/usr/bin/env python3
"""Positive / negative controls: apply semantic patches to a scratch copy of the *current* /repo tree and run
the checks on it.   selftest.py [--jobs N] [--only ID[,ID]] [mutant.json ...]
A mutant file: {"id":..., "property": "C03" | ["C03","C04"], "expect": "R03.1" (substring of a violation key),
                "kind": "break" | "preserve", "edits":[{"file":..., "find":..., "replace":...}], "why":...}
break    -> every listed property's check must exit 1 with a violation key containing `expect`
preserve -> every listed property's check must exit 0 (behaviour-preserving refactoring: no false alarm)
A patch that no longer applies is reported as SKIPPED."""
import argparse, concurrent.futures, glob, json, os, re, shutil, subprocess, sys, tempfile

V = os.path.dirname(os.path.dirname(os.path.abspath(__file__)))


def load(path):
    """a control: a semantic patch (selftest/mutants/*.json) or an independently seeded change (seeded/<dir>/meta.json +
    patch.diff), which must be caught by the check of its own property"""
    m = json.load(open(path))
    if os.path.basename(path) == "meta.json" and "edits" not in m:
        d = os.path.dirname(os.path.abspath(path))
        return {"id": "seeded:" + os.path.basename(d), "property": [m["property"]], "kind": "break", "expect": "", "patch": os.path.join(d, "patch.diff"), "why": m.get("needs_to_manifest", "")}
    if m.get("patch") and not os.path.isabs(m["patch"]):
        m["patch"] = os.path.join(V, m["patch"])
    return m


def all_controls():
    seeded = [p for p in sorted(glob.glob(os.path.join(V, "seeded", "*", "meta.json"))) if "retired" not in json.load(open(p))]
    return sorted(glob.glob(os.path.join(V, "selftest", "mutants", "*.json"))) + seeded


def run_one(path, repo, tier):
    m = load(path)
    props = m["property"] if isinstance(m["property"], list) else [m["property"]]
    d = tempfile.mkdtemp(prefix="hm-")
    try:
        subprocess.run(["rsync", "-a", "--exclude", "target", "--exclude", ".git", repo + "/", d + "/"], check=True)
        if m.get("patch"):
            pr = subprocess.run(["patch", "-p1", "-s", "--no-backup-if-mismatch", "-i", m["patch"]], cwd=d, capture_output=True, text=True)
            if pr.returncode != 0:
                return (m["id"], "SKIPPED", "patch does not apply: %s" % (pr.stdout + pr.stderr)[-120:], props)
        for e in m.get("edits", []):
            p = os.path.join(d, e["file"])
            s = open(p).read()
            if e.get("regex"):
                new, n = re.subn(e["find"], e["replace"], s, count=e.get("count", 1), flags=re.S)
            else:
                n = s.count(e["find"])
                new = s.replace(e["find"], e["replace"], e.get("count", 1))
            if n == 0:
                return (m["id"], "SKIPPED", "edit does not apply: %s" % e["find"][:60], props)
            open(p, "w").write(new)
        res = []
        for prop in props:
            pr = subprocess.run([os.path.join(V, "check"), prop, "--repo", d, "--tier", tier], capture_output=True, text=True, env=dict(os.environ, VERIF_SELFTEST="1"))
            out = pr.stdout + pr.stderr
            if m.get("kind", "break") == "break":
                if pr.returncode == 3:
                    res.append((prop, "ERROR", out[-600:]))
                elif pr.returncode == 1 and (m.get("expect", "") in out):
                    res.append((prop, "CAUGHT", [l for l in out.splitlines() if l.strip().startswith("rule ")][:3]))
                elif pr.returncode == 1:
                    res.append((prop, "CAUGHT-OTHER", [l for l in out.splitlines() if l.strip().startswith("rule ")][:3]))
                else:
                    res.append((prop, "MISSED", out[-300:]))
            else:
                if pr.returncode == 0:
                    res.append((prop, "QUIET", ""))
                else:
                    if pr.returncode == 1 and prop in m.get("alarms_by_design", []):
                        # a documented encoding limit (DESIGN.md section 10): the alarm is expected and is not counted as quiet
                        res.append((prop, "ALARMS-BY-DESIGN", [l for l in out.splitlines() if l.strip().startswith("rule ")][:2]))
                    else:
                        res.append((prop, "FALSE-ALARM" if pr.returncode == 1 else "ERROR", out[-800:]))
        return (m["id"], res, m.get("why", ""), props)
    finally:
        shutil.rmtree(d, ignore_errors=True)
        # drop the scratch copy's fact cache entry lazily: extract.sh prunes old entries


def main():
    ap = argparse.ArgumentParser()
    ap.add_argument("files", nargs="*")
    ap.add_argument("--jobs", type=int, default=8)
    ap.add_argument("--repo", default="/repo")
    ap.add_argument("--tier", default="quick")
    ap.add_argument("--only")
    a = ap.parse_args()
    files = a.files or all_controls()
    if a.only:
        want = set(a.only.split(","))
        keep = []
        for f in files:
            m = load(f)
            props = m["property"] if isinstance(m["property"], list) else [m["property"]]
            if want & set(props):
                keep.append(f)
        files = keep
    bad = 0
    with concurrent.futures.ThreadPoolExecutor(a.jobs) as ex:
        for r in ex.map(lambda f: run_one(f, a.repo, a.tier), files):
            mid, res, why, props = r
            if res == "SKIPPED":
                print("%-44s SKIPPED  %s" % (mid, why))
                continue
            for (prop, status, detail) in res:
                print("%-44s %-4s %-12s %s" % (mid, prop, status, detail if status not in ("QUIET",) else ""))
                if status in ("MISSED", "FALSE-ALARM", "ERROR"):
                    bad += 1
    return 1 if bad else 0


if __name__ == "__main__":
    sys.exit(main())
