#!/usr/bin/env bash
# usage: mutant.sh <patch.diff> <ID> [<ID>...]    apply a patch to a scratch copy of /repo and run checks on it
set -uo pipefail
PATCH="$(readlink -f "$1")"; shift
D=$(mktemp -d /tmp/hm-XXXXXX)
trap 'rm -rf "$D"' EXIT
rsync -a --exclude target --exclude .git /repo/ "$D/"
( cd "$D" && patch -p1 -s < "$PATCH" ) || { echo "PATCH-DOES-NOT-APPLY $PATCH"; exit 2; }
rc=0
for id in "$@"; do
  /verif/check "$id" --repo "$D" ${TIER:+--tier $TIER} || rc=$?
done
# facts of scratch copies are not worth caching
exit $rc
