#!/usr/bin/env bash
# usage: extract.sh <cfg> [repo]      cfg in tokio|smol|asyncstd|bare
# Runs the hfacts driver over the hannibal library of <repo> (default /repo) in the given feature
# configuration and prints the path of the fact file. Facts are cached by a content hash of the
# sources; the cargo target dir (dependency metadata only) is shared per configuration.
set -euo pipefail
CFG="$1"; REPO="${2:-/repo}"
V=/verif
DRV="$V/hfacts/target/release/hfacts"
[ -x "$DRV" ] || { echo "CHECKER-ERROR hfacts driver not built (run setup)" >&2; exit 3; }
case "$CFG" in
  tokio)    FLAGS=() ;;
  smol)     FLAGS=(--no-default-features --features smol_runtime) ;;
  asyncstd) FLAGS=(--no-default-features --features async_runtime) ;;
  bare)     FLAGS=(--no-default-features) ;;
  *) echo "unknown cfg $CFG" >&2; exit 3 ;;
esac
HASH=$( { cd "$REPO" && find Cargo.toml Cargo.lock src hannibal-derive/src hannibal-derive/Cargo.toml -type f 2>/dev/null | LC_ALL=C sort | xargs sha256sum; sha256sum "$DRV"; } | sha256sum | cut -c1-20)
OUT="$V/.cache/facts/$HASH/$CFG"
# a hit refreshes the entry's age: the pruning below is least-recently-used, not oldest-created
if [ -s "$OUT/hannibal.json" ]; then touch "$V/.cache/facts/$HASH" 2>/dev/null || true; echo "$OUT/hannibal.json"; exit 0; fi
mkdir -p "$OUT"
TD="$V/.cache/target-nightly/$CFG"
mkdir -p "$TD"
(
  flock 9
  if [ -s "$OUT/hannibal.json" ]; then exit 0; fi
  # cargo's freshness cache must never replay an old extraction: forget the workspace members
  rm -rf "$TD"/debug/.fingerprint/hannibal-* "$TD"/debug/deps/libhannibal-* "$TD"/debug/deps/hannibal-* 2>/dev/null || true
  NONCE="$HASH-$CFG-$$"
  SYSROOT=$(rustc +nightly --print sysroot)
  cd "$REPO"
  if ! env LD_LIBRARY_PATH="$SYSROOT/lib" RUSTFLAGS="-Zmir-opt-level=0 -Awarnings" \
      RUSTC_WORKSPACE_WRAPPER="$DRV" CARGO_TARGET_DIR="$TD" CARGO_NET_OFFLINE=true \
      HFACTS_OUT="$OUT" HFACTS_NONCE="$NONCE" HFACTS_CRATES=hannibal \
      cargo +nightly check --offline --lib "${FLAGS[@]}" >"$OUT/cargo.log" 2>&1; then
    echo "BUILD-FAILED cfg=$CFG (see $OUT/cargo.log)" >&2
    tail -30 "$OUT/cargo.log" >&2
    rm -f "$OUT/hannibal.json"
    exit 4
  fi
  [ -s "$OUT/hannibal.json" ] || { echo "CHECKER-ERROR no fact file written for cfg=$CFG" >&2; exit 3; }
  grep -q "\"nonce\":\"$NONCE\"" "$OUT/hannibal.json" || { echo "CHECKER-ERROR stale fact file for cfg=$CFG" >&2; rm -f "$OUT/hannibal.json"; exit 3; }
) 9>"$TD/.lock"

# keep the fact cache small: drop all but the 80 most recently used trees
# (best effort: several extractions may prune at the same time — a directory vanishing under `ls` must not fail this one)
{ ls -1dt "$V"/.cache/facts/*/ 2>/dev/null | tail -n +81 | xargs -r rm -rf; } 2>/dev/null || true
echo "$OUT/hannibal.json"
