import json,sys
d=json.load(open(sys.argv[1]))
want=sys.argv[2:]
for o in d['owns']:
    if any(w in o['def'] for w in want):
        print('OWNS',o['kind'],o['root'])
        for a in o['atoms']:
            if a['cat'] in ('alias',): continue
            print('    ',a['cat'],a['ty'][:120],'  via ',a['paths'][0][:200])
