#!/usr/bin/env python3
"""matrix.py <selftest log> : markdown for DESIGN §14 from the selftest log and seeded/*/meta.json"""
import glob, json, os, re, sys
V = os.path.dirname(os.path.dirname(os.path.abspath(__file__)))
log = open(sys.argv[1]).read().splitlines()
rows = {}
for ln in log:
    m = re.match(r"^(\S+)\s+(C\d\d)\s+(CAUGHT-OTHER|CAUGHT|QUIET|MISSED|FALSE-ALARM|ALARMS-BY-DESIGN|ERROR)\s*(.*)$", ln)
    if m:
        rules = re.findall(r"rule (R\d\d\.?\w*)", m.group(4))
        rows.setdefault(m.group(1), []).append((m.group(2), m.group(3), sorted(set(rules))))
why = {}
for f in glob.glob(os.path.join(V, "selftest", "mutants", "*.json")):
    d = json.load(open(f))
    why[d["id"]] = (d.get("kind", "break"), d.get("why", ""))
print("### 14.1 Independently produced changes (`seeded/`)\n")
print("Each was written by a fresh sub-agent that saw only the property text and a scratch worktree, confirmed here (demo fails with the change, passes without; pinned suite 41 passed) and then run through all 19 quick checks (`tools/seeded_run.sh`).\n")
print("| seeded change | needs, to manifest | caught by |")
print("|---|---|---|")
for d in sorted(glob.glob(os.path.join(V, "seeded", "*", "meta.json"))):
    m = json.load(open(d))
    caught = "; ".join(m["caught_by"]).replace("|", "/")
    if "retired" in m:
        caught = "*retired (predates fix 2ad16a0, its mechanism no longer exists; not counted)* — was: " + caught
    print("| `%s` | %s | %s |" % (os.path.basename(os.path.dirname(d)), m["needs_to_manifest"].replace("|", "/"), caught))
print("\n### 14.2 Seeded-mutant controls (`selftest/mutants/`, kind = break)\n")
print("| control | what it does | property → rule that fires |")
print("|---|---|---|")
for mid in sorted(rows):
    kind, w = why.get(mid, ("?", ""))
    if kind != "break":
        continue
    cell = "; ".join("%s → %s%s" % (p, ",".join(r) if r else "", "" if st.startswith("CAUGHT") else " **%s**" % st) for p, st, r in rows[mid])
    print("| `%s` | %s | %s |" % (mid, w.replace("|", "/"), cell))
print("\n### 14.3 Behaviour-preserving controls (kind = preserve): every listed check stays quiet\n")
print("| control | edit | checks run (all quiet) |")
print("|---|---|---|")
for mid in sorted(rows):
    kind, w = why.get(mid, ("?", ""))
    if kind != "preserve":
        continue
    bad = [p for p, st, r in rows[mid] if st not in ("QUIET", "ALARMS-BY-DESIGN")]
    design = [p for p, st, r in rows[mid] if st == "ALARMS-BY-DESIGN"]
    print("| `%s` | %s | %s%s |" % (mid, w.replace("|", "/"), ", ".join(p for p, st, r in rows[mid]), ((" **NOT QUIET: %s**" % bad) if bad else "") + ((" *(alarms by design, §10: %s)*" % ", ".join(design)) if design else "")))
nb = sum(1 for k, (kind, _) in why.items() if kind == "break")
npv = sum(1 for k, (kind, _) in why.items() if kind == "preserve")
print("\nTotals: %d breaking controls, %d behaviour-preserving controls, %d independently seeded changes." % (nb, npv, sum(1 for d in glob.glob(os.path.join(V, "seeded", "*", "meta.json")) if "retired" not in json.load(open(d)))))
