#!/usr/bin/env bash
# usage: refactor_run.sh <patch.diff>...   apply each (presumed behaviour-preserving) patch to its own scratch copy of /repo and
# run all 19 quick checks: every line printed is a candidate false alarm
for P in "$@"; do
  PATCH="$(readlink -f "$P")"
  D=$(mktemp -d /tmp/hm-XXXXXX)
  rsync -a --exclude target --exclude .git /repo/ "$D/"
  if ! ( cd "$D" && patch -p1 -s --no-backup-if-mismatch < "$PATCH" ); then echo "$(basename $P): PATCH-DOES-NOT-APPLY"; rm -rf "$D"; continue; fi
  alarms=""
  for id in C01 C02 C03 C04 C05 C06 C07 C08 C09 C10 C11 C12 C13 C14 C15 C16 C17 C18 C19; do
    out=$(timeout 900 /verif/check "$id" --repo "$D" 2>&1); rc=$?
    if [ $rc -ne 0 ]; then alarms="$alarms $id"; echo "$(basename $P): $id rc=$rc"; echo "$out" | grep -E "^  rule|^    [a-zA-Z]|CHECKER" | head -6; fi
  done
  [ -z "$alarms" ] && echo "$(basename $P): all quiet"
  rm -rf "$D"
done
