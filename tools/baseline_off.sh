#!/usr/bin/env bash
# The repository's pinned suite with no verification hooks (there are none: static analysis reads the
# unmodified source). Expected: 41 passed, 1 failed (builder::invalid_builder_configurations — always-fail in BASELINE.json).
cd /repo && CARGO_NET_OFFLINE=true cargo nextest run --workspace --no-fail-fast --tool-config-file pb:/w/lib/nextest.toml --profile pb --test-threads 8 --offline 2>&1 | tail -5 \
 || true
cd /repo && CARGO_NET_OFFLINE=true cargo nextest run --workspace --no-fail-fast --tool-config-file pb:/w/lib/nextest.toml --profile pb --test-threads 8 --offline 2>&1 | grep -q "41 passed" && echo "BASELINE-OK 41 passed"
