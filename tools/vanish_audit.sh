#!/usr/bin/env bash
# usage: vanish_audit.sh <patch.diff>   apply a (behaviour-preserving) patch to a scratch copy and report, per property, the
# rules that have instances on /repo but none on the patched tree (a rule that silently drops out judges nothing there)
P="$1"; PATCH="$(readlink -f "$P")"
D=$(mktemp -d /tmp/hm-XXXXXX)
rsync -a --exclude target --exclude .git /repo/ "$D/"
if ! ( cd "$D" && patch -p1 -s --no-backup-if-mismatch < "$PATCH" ); then echo "$(basename $P): PATCH-DOES-NOT-APPLY"; rm -rf "$D"; exit; fi
E=$(mktemp -d /tmp/hmev-XXXXXX)
for id in C01 C02 C03 C04 C05 C06 C07 C08 C09 C10 C11 C12 C13 C14 C15 C16 C17 C18; do
  VERIF_SCRATCH_EVID="$E" timeout 900 /verif/check "$id" --repo "$D" >/dev/null 2>&1
  python3 - "$id" "$E" "$(basename $P)" <<'PY'
import json,sys,collections,os
pid,E,name=sys.argv[1:4]
try:
    a=json.load(open('/verif/evidence/%s.json'%pid)); b=json.load(open(os.path.join(E,pid+'.json')))
except Exception as e:
    print(name,pid,"NO-EVIDENCE",e); sys.exit()
def cnt(ev):
    c=collections.Counter()
    for i in ev["coverage"]["instances"]:
        # instances tagged with a configuration other than tokio are not in the quick evidence of every property
        kind=i["instance"].split(":")[0].split("@")[0]
        if kind.startswith(("floor",)): continue
        c[i["rule"]+" "+kind]+=1
    return c
ca,cb=cnt(a),cnt(b)
for r in sorted(ca):
    if cb.get(r,0)==0:
        print("%s %s rule %s: %d instances on /repo, none on the patched tree"%(name,pid,r,ca[r]))
    elif cb[r] < ca[r]*0.5:
        print("%s %s rule %s: %d -> %d instances"%(name,pid,r,ca[r],cb[r]))
PY
done
rm -rf "$D" "$E"
