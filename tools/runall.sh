#!/usr/bin/env bash
# run every claimed check (quick by default) and summarise; exit 1 if any is not OK
cd /verif
TIER="${1:-quick}"
bad=0
for id in $(python3 -c "import json;print(' '.join(c['property_id'] for c in json.load(open('MANIFEST.json'))['checks']))"); do
  out=$(timeout 900 ./check "$id" --tier "$TIER" 2>&1); rc=$?
  echo "$out" | tail -1
  [ $rc -ne 0 ] && { bad=1; echo "$out" | head -20; }
done
exit $bad
