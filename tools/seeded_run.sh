#!/usr/bin/env bash
# usage: seeded_run.sh <patch.diff> [ids...]   run checks (default: all) on a scratch copy with the patch; print per-check verdicts
PATCH="$(readlink -f "$1")"; shift
IDS="$@"; [ -z "$IDS" ] && IDS="C01 C02 C03 C04 C05 C06 C07 C08 C09 C10 C11 C12 C13 C14 C15 C16 C17 C18 C19"
D=$(mktemp -d /tmp/hm-XXXXXX)
trap 'rm -rf "$D"' EXIT
rsync -a --exclude target --exclude .git /repo/ "$D/"
( cd "$D" && git apply --unsafe-paths "$PATCH" 2>/dev/null || patch -p1 -s < "$PATCH" ) || { echo "PATCH-DOES-NOT-APPLY"; exit 2; }
for id in $IDS; do
  out=$(timeout 900 /verif/check "$id" --repo "$D" 2>&1); rc=$?
  if [ $rc -eq 0 ]; then echo "$id quiet"; else echo "$id rc=$rc"; echo "$out" | grep -E "^  rule|CHECKER" | head -4; fi
done
