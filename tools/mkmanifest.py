#!/usr/bin/env python3
"""Generates /verif/MANIFEST.json from the table below (kept next to the code so that it stays current)."""
import json, os, glob
V = os.path.dirname(os.path.dirname(os.path.abspath(__file__)))

TRUST = "Trusted: rustc's MIR construction, type/borrow checker and trait resolution (the analysed MIR is the compiled program); futures-channel (mpsc FIFO, close/wake, oneshot cancel-on-drop), futures-util (Shared, select!, abortable, Next), async-lock, futures-timer, dyn-clone, Arc/Weak, the runtimes' documented task-handle semantics. User callbacks are opaque events. Analyses are path-insensitive over-approximations of the CFG: every real execution is a path."

P = {
 "C01": dict(tech="static analysis: MIR who-may-call census + provenance slicing + CFG trace conformance of submit closures and event loops",
   text="Decides the wiring that makes the mailbox a single FIFO consumed sequentially: one mpsc queue per actor constructed only in the two channel constructors; both submit closures capture senders of that one channel and enqueue before they return (forcing) / before their future completes (waiting); every Payload built by the API flows only into the submit closure of the addressed actor; both loops dequeue at one site, invoke a dequeued task exactly once and drive its future to completion before the next dequeue; the payload is a boxed FnOnce borrowing the actor exclusively; the crate is unsafe-free. Not decided: linearizability of the futures-channel queue itself (trusted primitive).", ref="§6 C01"),
 "C02": dict(tech="static analysis: provenance slicing of response slots, ownership graph of the loop future, error-propagation census",
   text="Decides that each call-like site creates one oneshot per invocation whose sender is moved into the payload and completed only with the result of the handler invocation for that message, that the caller's Ok derives only from that receiver; that the loop future owns receiver, context and stop notifier so every exit releases them; that the notifier fires only on the graceful path; that no leak primitive exists; and that every fallible internal call is propagated or handled by an enumerated idiom. Wake-up correctness of the external primitives is trusted.", ref="§6 C02"),
 "C03": dict(tech="static analysis: trace conformance (language inclusion) of MIR CFGs of the event loops and restart strategies against a protocol monitor",
   text="All CFG paths (hence all schedules, message programs, cancellation and unwind edges) of both event-loop coroutines and the three refresh strategies conform to the incarnation protocol: started once and completed before any dequeue, its error propagated with nothing following, handlers complete before shutdown, finished then stopped exactly once, nothing afterwards.", ref="§6 C03"),
 "C04": dict(tech="static analysis: marker-flow provenance + who-may-call + CFG trace conformance (stop barrier, announce-after-stopped)",
   text="Stop markers travel only through the forcing closure of the addressed actor's single queue; every stop entry point enqueues before its first await; from the Stop / closed-mailbox edge no dequeue or handler is reachable; notify occurs exactly once after the completed stopped() and only on the graceful path; awaiting APIs forward exactly the shared termination future / task result.", ref="§6 C04"),
 "C05": dict(tech="static analysis: ownership/keep-alive graph over types (closure captures, coroutine suspension points, dyn table) + census + CFG conformance",
   text="Weak handle kinds, the context, the loop futures (captures and every suspension point), timers at their sleep and the broker state own no mailbox sender or strong channel Arc of the actor; every strong kind does; strong channel Arcs are created only in the channel constructors; the closed-mailbox edge takes the graceful exit. A fact about types, hence valid for all handle programs.", ref="§6 C05"),
 "C15": dict(tech="static analysis: ownership graph over types + provenance slicing of handle-construction sites",
   text="Every strong handle kind owns a strong Arc of every channel half that any Weak::upgrade in the context operations / weak-handle upgrade closures needs; every handle-building site takes channel halves, id and termination future only from the handle it was derived from; the birth site wires address and context to the same channel and id.", ref="§6 C15"),
 "C16": dict(tech="static analysis: resolved field-access census + dyn-table / generic-argument agreement + CFG conformance of the broadcast",
   text="The child table is touched only by add_child / register_child / send_to_children and the constructor, never emptied, and owned by the loop future through the Context; what is stored is a strong Sender<M> under TypeId::of::<M>, looked up and downcast alike; one force_send(clone) per matching child, failures do not end the broadcast.", ref="§6 C16"),
}

NA_PENDING = {}

def main():
    props = [json.loads(l) for l in open(os.path.join(V, "properties.jsonl"))]
    impl = {os.path.basename(p)[:-3].upper() for p in glob.glob(os.path.join(V, "rules", "props", "c*.py"))}
    checks = []
    na = []
    for p in props:
        pid = p["id"]
        if pid in P and pid in impl:
            d = P[pid]
            checks.append({
                "property_id": pid,
                "quick_cmd": "./check %s --tier quick" % pid,
                "thorough_cmd": "./check %s --tier thorough" % pid,
                "evidence_file": "/verif/evidence/%s.json" % pid,
                "replay_cmd_template": "./check --replay {path}",
                "engine": d.get("engine", "rules"),
                "level_claimed": {"category": d.get("cat", "other"), "text": d["text"], "design_ref": "DESIGN.md " + d["ref"]},
                "level_note": d.get("note", TRUST),
                "technique": d["tech"],
            })
        else:
            na.append({"property_id": pid, "reason": NA_PENDING.get(pid, "static rules for this property are not armed yet in this revision (planned in DESIGN.md §6); no claim is made")})
    m = {
        "version": 1,
        "setup_cmd": "tools/setup.sh",
        "hooks": {
            "guard": "none",
            "enable": "no source hooks: the checks read the unmodified source through a rustc_private driver (RUSTC_WORKSPACE_WRAPPER under cargo +nightly check)",
            "baseline_off_cmd": "tools/baseline_off.sh",
            "source_commits": [],
            "add_only": True,
        },
        "engines": [
            {"name": "hfacts", "path": "hfacts/", "serves_properties": [c["property_id"] for c in checks], "kind_free_text": "rustc_private fact extractor: pre/post MIR, dyn table, ownership closure, coroutine layouts"},
            {"name": "rules", "path": "rules/", "serves_properties": [c["property_id"] for c in checks if c["engine"] == "rules"], "kind_free_text": "Python rule kernel: trace conformance, ownership, provenance, census, lock scope, must-consume, sibling cross-check"},
        ],
        "checks": checks,
        "not_applicable": na,
        "notes": "Static analysis only: no check runs hannibal code. Five genuine defects were repaired with fix: commits in /repo (be6a7a3 C18, 73218fd C08, ec49b89 C14, 69d279d C07, 670d14c C15), recorded in known_findings.txt; the rules that found them stay armed.",
    }
    if os.path.isdir(os.path.join(V, "witness")):
        m["engines"].append({"name": "witness", "path": "witness/", "serves_properties": ["C19"], "kind_free_text": "compile-fail witnesses with compiling twins, judged by rustc's JSON diagnostics"})
    json.dump(m, open(os.path.join(V, "MANIFEST.json"), "w"), indent=1)
    print("MANIFEST.json: %d checks, %d not claimed" % (len(checks), len(na)))

if __name__ == "__main__":
    main()
