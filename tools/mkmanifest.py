#!/usr/bin/env python3
"""Generates /verif/MANIFEST.json from the table below (kept next to the code so that it stays current)."""
import json, os, glob
V = os.path.dirname(os.path.dirname(os.path.abspath(__file__)))

TRUST = "Trusted: rustc's MIR construction, type/borrow checker and trait resolution (the analysed MIR is the compiled program); futures-channel (mpsc FIFO, close/wake, oneshot cancel-on-drop), futures-util (Shared, select!, abortable, Next), async-lock, futures-timer, dyn-clone, Arc/Weak, the runtimes' documented task-handle semantics. User callbacks are opaque events. Analyses are path-insensitive over-approximations of the CFG: every real execution is a path."

P = {
 "C01": dict(tech="static analysis: MIR who-may-call census + provenance slicing + CFG trace conformance of submit closures and event loops",
   text="Decides the wiring that makes the mailbox a single FIFO consumed sequentially: one mpsc queue per actor constructed only in the two channel constructors; both submit closures capture senders of that one channel and enqueue before they return (forcing) / before their future completes (waiting); every Payload built by the API flows only into the submit closure of the addressed actor; both loops dequeue at one site, invoke a dequeued task exactly once and drive its future to completion before the next dequeue; the payload is a boxed FnOnce borrowing the actor exclusively; the crate is unsafe-free. Not decided: linearizability of the futures-channel queue itself (trusted primitive).", ref="§6 C01"),
 "C02": dict(tech="static analysis: provenance slicing of response slots, ownership graph of the loop future, error-propagation census",
   text="Decides that each call-like site creates one oneshot per invocation whose sender is moved into the payload and completed only with the result of the handler invocation for that message, that the caller's Ok derives only from that receiver; that the loop future owns receiver, context and stop notifier so every exit releases them; that the notifier fires only on the graceful path; that no leak primitive exists; and that every fallible internal call is propagated or handled by an enumerated idiom. A handle awaited in place keeps a share of the termination future on every completed outcome, and a join releases the slot lock before it waits, so later operations still resolve. Wake-up correctness of the external primitives is trusted.", ref="§6 C02"),
 "C03": dict(tech="static analysis: trace conformance (language inclusion) of MIR CFGs of the event loops and restart strategies against a protocol monitor",
   text="All CFG paths (hence all schedules, message programs, cancellation and unwind edges) of both event-loop coroutines and the three refresh strategies conform to the incarnation protocol: started once and completed before any dequeue, its error propagated with nothing following, handlers complete before shutdown, finished then stopped exactly once, nothing afterwards.", ref="§6 C03"),
 "C04": dict(tech="static analysis: marker-flow provenance + who-may-call + CFG trace conformance (stop barrier, announce-after-stopped)",
   text="Stop markers travel only through the forcing closure of the addressed actor's single queue; every stop entry point enqueues before its first await; from the Stop / closed-mailbox edge no dequeue or handler is reachable; notify occurs exactly once after the completed stopped() and only on the graceful path; awaiting APIs forward exactly the shared termination future / task result.", ref="§6 C04"),
 "C05": dict(tech="static analysis: ownership/keep-alive graph over types (closure captures, coroutine suspension points, dyn table) + census + CFG conformance",
   text="Weak handle kinds, the context, the loop futures (captures and every suspension point), timers at their sleep and the broker state own no mailbox sender or strong channel Arc of the actor; every strong kind does; strong channel Arcs are created only in the channel constructors; the closed-mailbox edge takes the graceful exit. A fact about types, hence valid for all handle programs.", ref="§6 C05"),
 "C15": dict(tech="static analysis: ownership graph over types + provenance slicing of handle-construction sites",
   text="Every strong handle kind owns a strong Arc of every channel half that any Weak::upgrade in the context operations / weak-handle upgrade closures needs; every handle-building site takes channel halves, id and termination future only from the handle it was derived from; the birth site wires address and context to the same channel and id. Self-stop / self-restart answer Ok only for a submitted request, and the bounded forcing closure enqueues through a fresh Sender clone so it is refused only by a closed mailbox.", ref="§6 C15"),
 "C16": dict(tech="static analysis: resolved field-access census + dyn-table / generic-argument agreement + CFG conformance of the broadcast",
   text="The child table is touched only by add_child / register_child / send_to_children and the constructor, never emptied, and owned by the loop future through the Context; what is stored is a strong Sender<M> under TypeId::of::<M>, looked up and downcast alike; one force_send(clone) per matching child, failures do not end the broadcast.", ref="§6 C16"),
}


P.update({
 "C06": dict(tech="static analysis: ownership of the loop future + CFG trace conformance over return/unwind/cancel edges + who-may-call census of timer registration and abort",
   text="Everything others may wait on (receiver, context with timers and children, stop notifier) is owned by the loop future, so every exit releases it; failure paths run no further callback and never announce graceful termination; Context::drop aborts every timer handle and all timers are registered abortable through one function; the child table lives in the Context only; joins map failures to None without panicking extractors; the crate's only statics are the id counter and the registry. What a runtime does with a panicking task beyond its documented join result is not decided.", ref="§6 C06"),
 "C07": dict(tech="static analysis: marker-flow provenance + CFG trace conformance of the loop and of the three refresh strategies + builder type-state (signatures and generic-argument agreement)",
   text="Restart markers go through the forcing closure of the one queue; the loop hands the current actor and its own context to RestartStrategy::refresh, assigns the result to its actor place, fails on its error and otherwise continues with the same receiver, context and notifier; the strategies follow stopped → (Default) → started and abort the previous incarnation's timers in between on all paths; the builder's type-state selects the strategy that the terminals instantiate. 'Behaves like a freshly started actor' beyond callbacks, value and timers is not decided.", ref="§6 C07"),
 "C08": dict(tech="static analysis: static-reference census + lock-scope conformance on all CFG paths (with a must-moved analysis for guard drops) + polarity of liveness decisions",
   text="The registry static is referenced only by the registry operations; each holds one guard across all its map operations, its liveness decision and (spawn-on-demand) spawn, detach and insert, mutating ones a write guard; register inserts only when no live instance is registered and otherwise fails without touching the map; replace/unregister return what the map returned; lookups hand out entries only behind the running filter; the spawned instance returned is the one inserted; already_running has running polarity. ServiceStillRunning is decided only under the lock and the builder's register reaches Addr::register on every path. Linearizability as such is not decided (follows from these scopes plus the trusted RwLock).", ref="§6 C08"),
 "C09": dict(tech="static analysis: ownership graph of the broker state + key/value provenance of the subscriber table + CFG trace conformance of the fan-out + call-graph census of publish/subscribe entry points",
   text="The table holds weak senders keyed by the carried sender's own id (ids minted only by the atomic counter); per publication the live entries are upgraded once and each receives exactly one awaited send of a clone of the publication, failures do not end the fan-out; every entry point ends in Addr::send to the registry's broker actor, so its single mailbox orders everything. Each entry point answers only after the call it forwards to has completed, on every path. Progress against a full bounded subscriber mailbox is not decided.", ref="§6 C09"),
 "C10": dict(tech="static analysis: CFG trace conformance of the four timer coroutines + duration provenance into each runtime's sleep (3 configurations) + ownership at sleep suspension points",
   text="interval/interval_with fire only after a completed sleep since the previous firing and end on a failed submit; delayed_* sleep once and fire once; the Duration reaches the runtime's sleep unmodified on tokio, smol and async-std; timers are registered abortable, aborted with the context, submit through a weak sender of their own context and hold nothing strong while sleeping. A forced tick is refused only by a closed mailbox (fresh Sender clone per forced payload). Measured tick counts and spacing are not decided (no clock is run; they follow from these rules plus the trusted sleep).", ref="§6 C10"),
 "C11": dict(tech="static analysis: configuration-flow provenance (setters, terminals, loop captures) + CFG trace conformance of the timeout wrapper and of the loop's reaction",
   text="Setters store the limit / flag unmodified on all paths; terminals run the loop of the environment configured with the builder's config; every Task's future goes to the wrapper with config.timeout; the wrapper arms Delay with exactly that limit only on the Some edge, races exactly the handler future against it, maps the timer arm to Err(Timeout) and the other to the handler's completion, and awaits the future alone when no timeout is configured; on Err the loop fails without stopped()/announcement iff fail_on_timeout, else continues with the next message. The timing boundary itself is not decided.", ref="§6 C11"),
 "C12": dict(tech="static analysis: call-graph classification of submit paths through the dyn table + provenance of the capacity + shape of the waiting/forcing closures",
   text="Decides the wiring necessary for the bound: send-style APIs reach only the waiting closure, non-waiting ones only the forcing closure; the bounded waiting path awaits SinkExt::send (feed+flush) on a fresh clone of the Sender of mpsc::channel(capacity) with the capacity unmodified from builder to channel; forcing closures are synchronous non-waiting enqueues without blocking primitives; stop/restart entry points are synchronous. The counting inequality and eventual return of a parked send live inside futures-channel and are not decided.", ref="§6 C12"),
 "C13": dict(tech="static analysis: CFG trace conformance of the stream loop + provenance of selected items + structure of the select (which futures are raced, fairness)",
   text="All paths of the stream loop follow the incarnation protocol with finished→stopped exactly once on Stop, closed mailbox, exhausted stream and `complete`; every selected item / task is dispatched exactly once and completed before the next select; handlers are call sites of the loop itself while the select races only the two next() futures; the select is fair (shuffled) or mailbox-first; stream and mailbox are owned by the loop future. One queue per mailbox, so messages keep their own order. Cancel-safety of Next is trusted.", ref="§6 C13"),
 "C14": dict(tech="static analysis: polarity abstract interpretation of the liveness queries + who-may-call census of Shared::peek / polls of the termination future",
   text="Each liveness query polls a clone of its own handle's shared termination future (not peek) and reports the right polarity; nobody else turns that future into a boolean; the registry operations consult the queries. A thread race inside Shared::poll is primitive behaviour and not decided.", ref="§6 C14"),
 "C17": dict(tech="static analysis: CFG trace conformance + provenance of the loops' result and of each runtime's join closure (3 configurations) + forwarding checks of the OwningAddr API",
   text="The loop returns its own actor place only after the completed stopped() and the announcement; on tokio, smol and async-std the join takes the runtime handle out of its slot under the lock, awaits exactly that handle and flattens failures to None without panicking; join/consume/consume_sync/detach/to_addr forward to the handle / address they own, consume* stop first.", ref="§6 C17"),
 "C18": dict(tech="static analysis: must-consume rule on elaborated-drop MIR + per-runtime sibling cross-check from a table of task-handle drop semantics + MIR digest equality of runtime-independent code across configurations",
   text="No spawn entry point (nor any other function) drops a freshly obtained ActorHandle/OwningAddr on a normal path; where dropping the runtime's handle cancels (smol) a detach function is registered that takes and detaches it, ActorHandle::detach invokes it and spawn_future detaches; the default spawner resolves per configuration; all runtime-independent functions are the same program in the three configurations. A join in progress never holds the slot lock while waiting (smol's detach takes it synchronously). Behavioural equivalence of the three external executors themselves is not decided.", ref="§6 C18"),
 "C19": dict(tech="static analysis: compile-fail witnesses with compiling twins judged by rustc's JSON diagnostics (type-level encoding)", cat="proof", engine="witness",
   text="Each (rule, entry point) cell of the catalogue is an obligation discharged by the compiler: the ill-typed program is rejected with the expected error code on the marked line and no other error, and its twin — identical but for that line — compiles. 56 cells, 112 programs.", ref="§6 C19",
   note="Trusted: rustc's type checker and trait solver on the repository's stable toolchain; cargo resolving the path dependency on /repo with /repo's Cargo.lock."),
})

NA_PENDING = {}

def main():
    props = [json.loads(l) for l in open(os.path.join(V, "properties.jsonl"))]
    impl = {os.path.basename(p)[:-3].upper() for p in glob.glob(os.path.join(V, "rules", "props", "c*.py"))}
    checks = []
    na = []
    for p in props:
        pid = p["id"]
        if pid in P and pid in impl:
            d = P[pid]
            checks.append({
                "property_id": pid,
                "quick_cmd": "./check %s --tier quick" % pid,
                "thorough_cmd": "./check %s --tier thorough" % pid,
                "evidence_file": "/verif/evidence/%s.json" % pid,
                "replay_cmd_template": "./check --replay {path}",
                "engine": d.get("engine", "rules"),
                "level_claimed": {"category": d.get("cat", "other"), "text": d["text"], "design_ref": "DESIGN.md " + d["ref"]},
                "level_note": d.get("note", TRUST),
                "technique": d["tech"],
            })
        else:
            na.append({"property_id": pid, "reason": NA_PENDING.get(pid, "static rules for this property are not armed yet in this revision (planned in DESIGN.md §6); no claim is made")})
    m = {
        "version": 1,
        "setup_cmd": "tools/setup.sh",
        "hooks": {
            "guard": "none",
            "enable": "no source hooks: the checks read the unmodified source through a rustc_private driver (RUSTC_WORKSPACE_WRAPPER under cargo +nightly check)",
            "baseline_off_cmd": "tools/baseline_off.sh",
            "source_commits": [],
            "add_only": True,
        },
        "engines": [
            {"name": "hfacts", "path": "hfacts/", "serves_properties": [c["property_id"] for c in checks if c["engine"] == "rules"], "kind_free_text": "rustc_private fact extractor: pre/post MIR, dyn table, ownership closure, coroutine layouts"},
            {"name": "rules", "path": "rules/", "serves_properties": [c["property_id"] for c in checks if c["engine"] == "rules"], "kind_free_text": "Python rule kernel: trace conformance, ownership, provenance, census, lock scope, must-consume, sibling cross-check"},
        ],
        "checks": checks,
        "not_applicable": na,
        "notes": "Static analysis only: no check runs hannibal code. Eight genuine defects were repaired with seven fix: commits in /repo (be6a7a3 C18, 73218fd C08, ec49b89 C14, 69d279d C07, 670d14c C15, f7b3f78 C14/C04, 2ad16a0 C17/C18), recorded in known_findings.txt; the rules that found them stay armed. Clauses that quantify over runtime quantities are listed as not decided per property in DESIGN.md section 6 / 11.",
    }
    if os.path.isdir(os.path.join(V, "witness")):
        m["engines"].append({"name": "witness", "path": "witness/", "serves_properties": ["C19"], "kind_free_text": "compile-fail witnesses with compiling twins, judged by rustc's JSON diagnostics"})
    json.dump(m, open(os.path.join(V, "MANIFEST.json"), "w"), indent=1)
    print("MANIFEST.json: %d checks, %d not claimed" % (len(checks), len(na)))

if __name__ == "__main__":
    main()
