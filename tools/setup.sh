#!/usr/bin/env bash
# Build the framework from files on disk only (offline): the hfacts driver, the dependency metadata of the
# feature configurations, and the witness package's dependencies.
set -euo pipefail
cd /verif
export CARGO_NET_OFFLINE=true
( cd hfacts && cargo build --release --offline 2>&1 | tail -2 )
mkdir -p .cache evidence/violations
for cfg in tokio smol asyncstd bare; do
  tools/extract.sh "$cfg" >/dev/null || { echo "setup: configuration $cfg failed to extract" >&2; [ "$cfg" = tokio ] && exit 1; }
  echo "setup: facts for $cfg ready"
done
if [ -d witness ]; then
  ( cd witness && ./run.sh --warm ) || true
fi
echo "setup done"
