#!/usr/bin/env python3
"""keep_seeded.py <PROP> <slug> <needs> <caught_by comma list> : store a confirmed seeded change under /verif/seeded/"""
import json, os, shutil, subprocess, sys
prop, slug, needs, caught = sys.argv[1:5]
src = "/tmp/out-%s" % prop if len(sys.argv) < 6 else sys.argv[5]
dst = "/verif/seeded/%s-%s" % (prop, slug)
os.makedirs(dst, exist_ok=True)
for f in ("patch.diff", "demo.rs", "notes.md"):
    if os.path.exists(os.path.join(src, f)):
        shutil.copy(os.path.join(src, f), os.path.join(dst, f))
lc = prop.lower()
meta = {
    "property": prop,
    "source": "independent sub-agent given only the property text and a scratch worktree of /repo (nothing from /verif)",
    "needs_to_manifest": needs,
    "confirmed": {
        "how": "in the scratch worktree: (1) cargo test --offline --test demo_%s with the change -> FAILS; (2) cargo nextest run --workspace --no-fail-fast --offline (demo moved aside) -> 41 passed, 1 failed (the baseline's always-fail builder::invalid_builder_configurations); (3) git stash -- src; cargo test --offline --test demo_%s -> passes" % (lc, lc),
        "demo_with_change": "fails", "demo_without_change": "passes", "pinned_suite_with_change": "41 passed, 1 failed (same as baseline)",
    },
    "checks_run": "tools/seeded_run.sh seeded/%s-%s/patch.diff  (all 19 quick checks on a scratch copy of /repo with the patch applied)" % (prop, slug),
    "caught_by": caught.split(","),
    "demo_command": "copy demo.rs to tests/demo_%s.rs in a worktree with patch.diff applied; cargo test --offline --test demo_%s" % (lc, lc),
}
json.dump(meta, open(os.path.join(dst, "meta.json"), "w"), indent=1)
print("kept", dst)
