#!/usr/bin/env bash
# usage: mkvariant.sh <base.diff> <python-edit-script> <out.diff>
# apply base.diff to a scratch copy of /repo, run the edit script in it (cwd = copy), write the combined diff against /repo
set -euo pipefail
BASE="$(readlink -f "$1")"; EDIT="$(readlink -f "$2")"; OUT="$(readlink -f "$3")"
D=$(mktemp -d /tmp/hmv-XXXXXX); trap 'rm -rf "$D"' EXIT
mkdir "$D/a" "$D/b"
rsync -a --exclude target --exclude .git /repo/src /repo/hannibal-derive "$D/a/"
rsync -a "$D/a/" "$D/b/"
( cd "$D/b" && patch -p1 -s --no-backup-if-mismatch < "$BASE" && python3 "$EDIT" )
( cd "$D" && diff -ruN a b > "$OUT" || true )
grep -c "^@@" "$OUT"
