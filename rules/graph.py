"""Call-graph helpers over the fact base (A4)."""
from mir import Body


def family(fx, name):
    """a function together with the closures / coroutines nested in it (an async fn's code lives in its child)"""
    f = fx.fn(name)
    if f is None:
        return []
    return [f] + fx.descendants(name)


def local_callees(fx, f):
    out = []
    b = Body(f)
    for bi, t in b.normal_calls():
        for key in ("resolved", "callee"):
            c = t.get(key)
            if c and c in fx.fns:
                out.append((c, bi, t))
                break
    return out


def reach(fx, start, depth=3):
    """defs reachable from `start` through crate-local calls, nested closures included"""
    seen = {}
    work = [(start, 0)]
    while work:
        name, d = work.pop()
        if name in seen and seen[name] <= d:
            continue
        seen[name] = d
        for f in family(fx, name):
            seen.setdefault(f["def"], d)
            if d >= depth:
                continue
            for (c, _bi, _t) in local_callees(fx, f):
                work.append((c, d + 1))
    return seen


def all_calls(fx, pred, include_cleanup=False):
    """every call terminator in the crate satisfying pred: yields (fn, bb, term)"""
    for f in fx.d["fns"]:
        b = Body(f)
        it = b.calls() if include_cleanup else b.normal_calls()
        for bi, t in it:
            if pred(t):
                yield f, bi, t
