"""Call-graph helpers over the fact base (A4)."""
from mir import Body


def family(fx, name):
    """a function together with the closures / coroutines nested in it (an async fn's code lives in its child)"""
    f = fx.fn(name)
    if f is None:
        return []
    return [f] + fx.descendants(name)


def stored_closures(fx):
    """closures / coroutines that are erased into a trait object (stored, invoked later through the dyn)"""
    s = getattr(fx, "_stored", None)
    if s is None:
        s = set()
        for key, ent in fx.dyn.items():
            for src in ent["sources"]:
                if src.get("def"):
                    s.add(src["def"])
        fx._stored = s
    return s


def invoked_family(fx, name):
    """a function with the nested closures it runs itself; closures stored behind a `dyn` are not entered here
    (they are reached through the dyn call that invokes them)"""
    f = fx.fn(name)
    if f is None:
        return []
    st = stored_closures(fx)
    out = [f]
    for c in fx.children_of(name):
        if c["def"] in st:
            continue
        out.extend(invoked_family(fx, c["def"]))
    return out


def dyn_targets(fx, t):
    """closure bodies behind a call through one of the crate's private closure traits (dyn table)"""
    st = t.get("self_ty") or ""
    tr = t.get("trait")
    if tr == "core::future::future::Future" and "dyn core::future::future::Future" in st:
        # awaiting a boxed future: the coroutines erased into exactly that dyn type
        import re
        m = re.search(r"Box<(dyn core::future::future::Future.*), alloc::alloc::Global>", st)
        if not m:
            return []
        ent = fx.dyn.get(m.group(1))
        return [s["def"] for s in ent["sources"] if s.get("def") in fx.fns] if ent else []
    if not (st.startswith("dyn ") and tr):
        return []
    method = (t.get("callee") or "").split("::")[-1]

    def target_of(s):
        """a closure erased into the trait object: its body; a named type (`struct Mailbox<A>` implementing `Target<M>`): its
        implementation of the very method that is called"""
        if s.get("def") and s["def"] in fx.fns:
            return [s["def"]]
        if s.get("kind") == "adt" and s.get("def"):
            return [g["def"] for g in fx.d["fns"] if g.get("impl_trait_def") == tr and (g.get("impl_self") or "").split("<")[0] == s["def"] and g["def"].endswith("::" + method) and g["kind"] == "assoc_fn"]
        return []
    if st in fx.dyn:
        # the very dyn type of the receiver (generic arguments included: `dyn SubmitFn<M, SendFuture>` and
        # `dyn SubmitFn<M, Result<()>>` are different tables)
        return [d_ for s in fx.dyn[st]["sources"] for d_ in target_of(s)]
    out = []
    for key, ent in fx.dyn.items():
        if key.startswith("dyn " + tr + "<") or key == "dyn " + tr:
            for s in ent["sources"]:
                out.extend(target_of(s))
    return out


def local_callees(fx, f, through_dyn=True):
    out = []
    b = Body(f)
    for bi, t in b.normal_calls():
        hit = False
        for key in ("resolved", "callee"):
            c = t.get(key)
            if c and c in fx.fns:
                out.append((c, bi, t))
                hit = True
                break
        if not hit and through_dyn:
            for c in dyn_targets(fx, t):
                out.append((c, bi, t))
        # function items passed as arguments (combinators): Option::map(x, Addr::running)
        for a in t["args"]:
            if a.get("k") == "const" and a.get("fn") in fx.fns:
                out.append((a["fn"], bi, t))
    return out


def reach(fx, start, depth=3):
    """defs reachable from `start` through crate-local calls, nested closures included"""
    seen = {}
    work = [(start, 0)]
    while work:
        name, d = work.pop()
        if name in seen and seen[name] <= d:
            continue
        seen[name] = d
        for f in family(fx, name):
            seen.setdefault(f["def"], d)
            if d >= depth:
                continue
            for (c, _bi, _t) in local_callees(fx, f):
                work.append((c, d + 1))
    return seen


def all_calls(fx, pred, include_cleanup=False):
    """every call terminator in the crate satisfying pred: yields (fn, bb, term)"""
    for f in fx.d["fns"]:
        b = Body(f)
        it = b.calls() if include_cleanup else b.normal_calls()
        for bi, t in it:
            if pred(t):
                yield f, bi, t


def callers_of(fx, name):
    """definitions containing a direct call (callee or resolved) to `name`"""
    out = set()
    for f in fx.d["fns"]:
        b = Body(f)
        for _bi, t in b.normal_calls():
            if t.get("callee") == name or t.get("resolved") == name:
                out.add(f["def"])
    return out


_CALLERS = {}


def caller_roots(fx):
    """callee (declared or resolved) -> set of root functions of the definitions calling it"""
    key = id(fx)
    if key not in _CALLERS:
        m = {}
        for f in fx.d["fns"]:
            b = Body(f)
            r = f.get("root", f["def"])
            for _bi, t in b.normal_calls():
                for c in {t.get("callee"), t.get("resolved")}:
                    if c:
                        m.setdefault(c, set()).add(r)
            # a function used as a value (fn item passed on) counts as a use from there
            for blk in b.blocks:
                for st in blk["s"]:
                    if st["k"] == "assign":
                        for o in st["r"].get("ops", []) if isinstance(st["r"].get("ops"), list) else []:
                            if o.get("k") == "const" and o.get("fn"):
                                m.setdefault(o["fn"], set()).add(r)
                t = blk["t"]
                for o in t.get("args", []) if t.get("k") == "call" else []:
                    if o.get("k") == "const" and o.get("fn"):
                        m.setdefault(o["fn"], set()).add(r)
        _CALLERS[key] = m
    return _CALLERS[key]


def private_helpers(fx, owners):
    """crate-private free / inherent functions all of whose uses are inside `owners` (a set of root function names) or
    inside other such helpers — extracting part of an owner into one does not change who runs the code"""
    cr = caller_roots(fx)
    helpers = set()
    cand = [f for f in fx.d["fns"] if f["kind"] in ("fn", "assoc_fn") and f.get("vis") != "pub" and not f.get("impl_trait") and f["def"] not in owners]
    changed = True
    while changed:
        changed = False
        for f in cand:
            d = f["def"]
            if d in helpers:
                continue
            users = cr.get(d, set()) - {d}
            if users and users <= (owners | helpers):
                helpers.add(d)
                changed = True
    return helpers


def param_sinks(fx, fn_def, arg_index, depth=2):
    """where the value passed as argument `arg_index` (1-based local) of a crate-local function ends up, looking into
    the coroutine of an async fn and through further local helpers (bounded)"""
    from mir import sinks, upvar_sinks, agg_sites
    f = fx.fn(fn_def)
    if f is None:
        return [{"k": "unknown", "fn": fn_def}]
    b = Body(f)
    out = []
    for s in sinks(b, arg_index, into_closures=False):
        if s["k"] == "agg" and s.get("ak") in ("coroutine", "closure") and fx.fn(s.get("def") or ""):
            cb = Body(fx.fn(s["def"]))
            for s2 in upvar_sinks(cb, s["idx"], into_closures=False):
                out.append(dict(s2, fn=s["def"]))
        else:
            out.append(dict(s, fn=fn_def))
    res = []
    for s in out:
        if s["k"] == "call" and depth > 0:
            c = s["t"].get("resolved") or s["t"].get("callee")
            if c in fx.fns and fx.fns[c]["kind"] in ("fn", "assoc_fn") and c != "context::StopNotifier::notify":
                res.extend(param_sinks(fx, c, s["idx"] + 1, depth - 1))
                continue
        res.append(s)
    return res


def value_sinks(fx, b, local, depth=2):
    """sinks of a local of body b, looking through calls to crate-local functions that merely pass the value on (a
    private helper between the construction of a value and the call that consumes it). Each sink carries `fn`, the
    definition whose body contains it, and `via`, the helpers passed through."""
    from mir import sinks
    res = []
    for s in sinks(b, local):
        if s["k"] == "call" and depth > 0:
            c = s["t"].get("resolved") or s["t"].get("callee")
            g = fx.fns.get(c) if c else None
            if g is not None and g["kind"] in ("fn", "assoc_fn") and not s["t"].get("trait_dyn"):
                for s2 in param_sinks(fx, c, s["idx"] + 1, depth - 1):
                    res.append(dict(s2, via=[c] + list(s2.get("via", []))))
                continue
        res.append(dict(s, fn=b.name, via=[]))
    return res


def wiring_fn(fx, name, pred, depth=2):
    """the function that does the work of entry point `name`: `name` itself if its body contains a call matching pred,
    otherwise the crate-local synchronous function it hands its own `self` to (spawn = self.spawn_owning().detach(),
    spawn_owning = self.into_event_loop() ...), followed up to `depth` steps. None if not found."""
    f = fx.fn(name)
    for _ in range(depth + 1):
        if f is None:
            return None
        b = Body(f)
        if any(pred(t) for _, t in b.normal_calls()):
            return f
        nxt = None
        for _bi, t in b.normal_calls():
            g = fx.callee_fn(t)
            if g is None or g["kind"] not in ("fn", "assoc_fn") or g.get("is_async") or not t["args"]:
                continue
            os_ = b.origins(t["args"][0])
            if os_ and all(o.kind == "arg" and o.site == 1 and not o.proj for o in os_):
                nxt = g
                break
        f = nxt
    return None


def with_forwarded(fx, f, depth=1):
    """f plus the crate-local synchronous functions it calls (a closure whose body was moved into a named function):
    [fn records], f first"""
    out = [f]
    if depth <= 0:
        return out
    for _bi, t in Body(f).normal_calls():
        g = fx.callee_fn(t)
        if g is not None and g["kind"] in ("fn", "assoc_fn") and not g.get("is_async") and g not in out:
            out.extend(x for x in with_forwarded(fx, g, depth - 1) if x not in out)
    return out


def maker_operand(t, makers):
    """the operand of call `t` that carries the value of interest of the maker it calls (argument + field path)"""
    idx, proj = makers[t["callee"]] if t.get("callee") in makers else makers[t.get("resolved")]
    if idx >= len(t["args"]):
        return None
    a = t["args"][idx]
    if proj and a.get("k") in ("copy", "move"):
        a = dict(a, p=list(a["p"]) + list(proj))
    elif proj:
        return None
    return a


def forwarding_closure(fx, makers, roots_fn, body_fn):
    """makers: {callee name: (index of the argument of interest, field path inside it)} (a bare index means the whole
    argument).  A crate-local function that hands one of its own parameters (or a field of it), unmodified, to a maker at
    that place is itself a maker for that parameter (a shared helper such as `Environment::launch(self, actor)` between the
    entry points and the loop constructor, or `create_loop` in front of `EventLoop::run(self)`).  Returns the closed table."""
    out = {k: (v if isinstance(v, tuple) else (v, ())) for k, v in makers.items()}
    changed = True
    while changed:
        changed = False
        for g, _bi, t in all_calls(fx, lambda x: (x.get("callee") in out) or (x.get("resolved") in out)):
            if g["kind"] not in ("fn", "assoc_fn") or g["def"] in out:
                continue
            a = maker_operand(t, out)
            if a is None:
                continue
            rs = roots_fn(body_fn(g), a)
            if rs and all(r.kind == "arg" for r in rs) and len({(r.site, tuple(r.proj)) for r in rs}) == 1:
                r = next(iter(rs))
                out[g["def"]] = (r.site - 1, tuple(e for e in r.proj if not str(e).startswith("<part:")))
                changed = True
    return out


def capture_operand(fx, f, idx):
    """(parent fn record, operand in the parent's body) of capture `idx` of closure / coroutine f, or None"""
    from mir import agg_sites
    parent = fx.fn(f.get("parent") or "")
    if parent is None:
        return None
    pb = Body(parent)
    for ak in ("closure", "coroutine"):
        for _bi, _si, st in agg_sites(pb, ak=ak):
            if st["r"].get("def") == f["def"] and idx < len(st["r"]["ops"]):
                return parent, st["r"]["ops"][idx]
    return None


CALLABLE_CALLS = ("::FnOnce::call_once", "::FnMut::call_mut", "::Fn::call")


def supplied_maker(fx, b, f, r, roots, body_of, depth=0):
    """`r` is a root of kind call:..FnOnce::call_once in body `b` of function `f`: the value is what a callable returns.
    Returns the set of things that callable can be, followed from a capture / parameter to the crate-local callers of the
    function that was given it: {"fn:<path>"} for a function item, {"closure:<def>"} for a closure literal, {"arg"} when it
    comes from a parameter of a public function (supplied by the user), {"?"} otherwise."""
    if not r.kind.startswith("call:") or not r.kind.endswith(CALLABLE_CALLS):
        return {"?"}
    t = b.blocks[r.site[0]]["t"]
    return _callable_of(fx, b, f, t["args"][0], roots, body_of, depth)


def _callable_of(fx, b, f, operand, roots, body_of, depth):
    out = set()
    if isinstance(operand, dict) and operand.get("k") == "const":
        return {"fn:" + operand["fn"]} if operand.get("fn") else {"?"}
    # a closure literal (possibly capturing nothing, which `roots` would see through to nothing at all)
    direct = b.origins(operand)
    lits = [o for o in direct if o.kind == "agg" and not o.proj and b.blocks[o.site[0]]["s"][o.site[1]]["r"].get("ak") == "closure"]
    if lits and len(lits) == len(direct):
        return {"closure:" + (b.blocks[o.site[0]]["s"][o.site[1]]["r"].get("def") or "?") for o in lits}
    for o in roots(b, operand):
        if o.kind == "agg":
            st = b.blocks[o.site[0]]["s"][o.site[1]]
            out.add("closure:" + (st["r"].get("def") or "?") if st["r"].get("ak") == "closure" else "?")
        elif o.kind == "const":
            out.add("?")
        elif o.kind == "upvar" and depth < 3:
            # a capture of this closure / coroutine: what the creating function put there
            parent = fx.fn(f.get("parent") or "")
            if parent is None:
                out.add("?")
                continue
            pb = body_of(parent)
            from mir import agg_sites
            hit = False
            for _bi, _si, st in agg_sites(pb, ak=f["kind"] if f["kind"] in ("closure", "coroutine") else "closure"):
                if st["r"].get("def") == f["def"] and o.site < len(st["r"]["ops"]):
                    hit = True
                    out |= _callable_of(fx, pb, parent, st["r"]["ops"][o.site], roots, body_of, depth + 1)
            if not hit:
                out.add("?")
        elif o.kind == "arg" and depth < 3:
            callers = [(g, t) for g, _bi, t in all_calls(fx, lambda t, _n=f["def"]: (t.get("resolved") or t.get("callee")) == _n)]
            if f.get("vis") == "pub" and f["kind"] == "fn" or not callers:
                out.add("arg")
                continue
            for g, t in callers:
                if o.site - 1 < len(t["args"]):
                    out |= _callable_of(fx, body_of(g), g, t["args"][o.site - 1], roots, body_of, depth + 1)
                else:
                    out.add("?")
        else:
            out.add("?")
    return out or {"?"}


def maker_is_default(fx, m, roots, body_of):
    """one element of supplied_maker(): is it `Default::default` — the function item, or a closure that returns it"""
    if m == "fn:core::default::Default::default":
        return True
    if m.startswith("closure:"):
        c = fx.fn(m[len("closure:"):])
        if c is None:
            return False
        cb = body_of(c)
        rs = roots(cb, {"k": "move", "p": [0]})
        return bool(rs) and all(r.kind == "call:core::default::Default::default" for r in rs)
    return False
