"""MIR access layer: def-use, provenance slicing (A3), CFG helpers."""
from collections import defaultdict

PASS_THROUGH_PREFIX = (
    "core::future::into_future::IntoFuture::into_future",
    "core::pin::",
    "core::ops::deref::Deref::deref",
    "core::ops::deref::DerefMut::deref_mut",
    "core::clone::Clone::clone",
    "alloc::borrow::ToOwned::to_owned",
    "core::borrow::Borrow::borrow",
    "core::borrow::BorrowMut::borrow_mut",
    "core::convert::AsRef::as_ref",
    "core::convert::AsMut::as_mut",
    "alloc::boxed::{impl",  # Box::new / Box::pin
    "alloc::sync::{impl",  # Arc::new / Arc::clone (but not downgrade, handled by name below)
    "core::mem::replace",
    "core::mem::take",
    "core::convert::Into::into",
    "core::convert::From::from",
    "futures_util::future::future::FutureExt::map",
    "futures_util::future::future::FutureExt::fuse",
    "futures_util::future::future::FutureExt::boxed",
    "futures_util::stream::stream::StreamExt::fuse",
    "core::option::{impl#0}::as_ref",
    "core::option::{impl#0}::as_mut",
)
# calls under the Arc impl prefix that are *not* identity on their first argument
NOT_PASS = ("::downgrade", "::upgrade", "::strong_count", "::weak_count", "::ptr_eq", "::into_raw", "::as_ptr")


PLUMBING_PREFIX = ("core::future::into_future::IntoFuture::into_future", "core::pin::")


def is_plumbing(callee):
    return callee is not None and any(callee.startswith(p) for p in PLUMBING_PREFIX)


def is_pass_through(callee):
    if callee is None:
        return False
    if any(callee.endswith(n) for n in NOT_PASS):
        return False
    return any(callee.startswith(p) for p in PASS_THROUGH_PREFIX)


class Origin(tuple):
    """(kind, site, proj)   kind in call|await|arg|upvar|const|agg|resume|local|unknown
    site: for call/await/agg: (bb,) or (bb, stmt); for arg/upvar: index; for const: value
    proj: tuple of projection elements applied on top of the source value"""

    __slots__ = ()

    def __new__(cls, kind, site, proj=()):
        return tuple.__new__(cls, (kind, site, tuple(proj)))

    kind = property(lambda s: s[0])
    site = property(lambda s: s[1])
    proj = property(lambda s: s[2])


class Body:
    def __init__(self, f, stage="pre"):
        self.f = f
        self.name = f["def"]
        self.stage = stage
        b = f[stage]
        self.b = b
        self.blocks = b["blocks"]
        self.locals = b["locals"]
        self.arg_count = b["arg_count"]
        self.is_closure_like = f["kind"] in ("closure", "coroutine")
        self.assigns = defaultdict(list)  # local -> [(bb, i, stmt)] whole-local assignments
        self.partial = defaultdict(list)  # local -> [(bb, i, stmt)] assignments to a projection of local
        self.calldef = defaultdict(list)  # local -> [bb] call destinations (whole)
        self.callpartial = defaultdict(list)
        self.resume = defaultdict(list)
        for bi, blk in enumerate(self.blocks):
            for si, st in enumerate(blk["s"]):
                if st["k"] == "assign" and not blk["c"]:
                    p = st["p"]
                    if len(p) == 1:
                        self.assigns[p[0]].append((bi, si, st))
                    else:
                        self.partial[p[0]].append((bi, si, st))
            t = blk["t"]
            if t["k"] == "call":
                d = t["dest"]
                if len(d) == 1:
                    self.calldef[d[0]].append(bi)
                else:
                    self.callpartial[d[0]].append(bi)
            elif t["k"] == "yield":
                ra = t["resume_arg"]
                self.resume[ra[0]].append(bi)
        self._succ = None
        self._pred = None

    # ---- CFG -----------------------------------------------------------------------------------
    def term(self, bb):
        return self.blocks[bb]["t"]

    def succs(self, bb, unwind=True):
        t = self.blocks[bb]["t"]
        k = t["k"]
        out = []
        if k == "call":
            if t["target"] is not None:
                out.append(t["target"])
            if unwind and t["unwind"] is not None:
                out.append(t["unwind"])
        elif k == "switch":
            out.extend(b for _, b in t["targets"])
            out.append(t["otherwise"])
        elif k == "yield":
            out.append(t["resume"])
            if t["drop"] is not None:
                out.append(t["drop"])
        elif k == "drop":
            out.append(t["target"])
            if unwind and t["unwind"] is not None:
                out.append(t["unwind"])
        elif k == "goto":
            out.append(t["target"])
            if unwind and t.get("unwind") is not None:
                out.append(t["unwind"])
        return out

    def is_cleanup(self, bb):
        return self.blocks[bb]["c"]

    def calls(self):
        for bi, blk in enumerate(self.blocks):
            if blk["t"]["k"] == "call":
                yield bi, blk["t"]

    def normal_calls(self):
        for bi, t in self.calls():
            if not self.blocks[bi]["c"]:
                yield bi, t

    def local_ty(self, l):
        return self.locals[l]["ty"]

    def place_ty_hint(self, place):
        return self.locals[place[0]]["ty"]

    # ---- provenance ----------------------------------------------------------------------------
    def origins(self, x, through_calls=True, _seen=None):
        """Backward slice of an operand ({'k':..}) or a place ([local, proj...]) to its sources."""
        if isinstance(x, dict):
            if x["k"] == "const":
                return {Origin("const", x.get("fn") or x.get("v") or x.get("ty"))}
            if x["k"] in ("copy", "move"):
                return self.origins(x["p"], through_calls, _seen)
            return {Origin("unknown", "operand")}
        place = x
        local = place[0]
        proj = tuple(e for e in place[1:])
        return self._origins_local(local, proj, through_calls, _seen if _seen is not None else set())

    def _with_proj(self, origs, proj):
        if not proj:
            return set(origs)
        return {Origin(o.kind, o.site, o.proj + tuple(proj)) for o in origs}

    def _origins_local(self, local, proj, through_calls, seen):
        key = (local, proj)
        if key in seen:
            return set()
        seen = seen | {key}
        out = set()
        # closure environment / arguments
        if 1 <= local <= self.arg_count:
            if self.is_closure_like and local == 1:
                # _1.fN  or (*_1).fN : upvar N
                p = [e for e in proj if e != "*"]
                if p and p[0].startswith("f"):
                    out.add(Origin("upvar", int(p[0][1:]), p[1:]))
                else:
                    out.add(Origin("arg", 1, proj))
            else:
                out.add(Origin("arg", local, proj))
            # arguments may be reassigned (mut params) -> fall through to look at assignments too
        defs = self.assigns.get(local, [])
        for (bi, si, st) in defs:
            out |= self._origins_rvalue(st["r"], (bi, si), proj, through_calls, seen)
        for bi in self.calldef.get(local, []):
            t = self.blocks[bi]["t"]
            out |= self._origins_call(t, bi, proj, through_calls, seen)
        for bi in self.resume.get(local, []):
            out.add(Origin("resume", (bi,), proj))
        # partial assignments  _l.fK = ...  relevant if the projection asked for starts with that field
        for (bi, si, st) in self.partial.get(local, []):
            lhs = tuple(st["p"][1:])
            if proj[: len(lhs)] == lhs:
                out |= self._origins_rvalue(st["r"], (bi, si), proj[len(lhs):], through_calls, seen)
            elif lhs[: len(proj)] == proj:
                # asked for the whole, a part is overwritten: record as composite source
                out |= {Origin(o.kind, o.site, ("<part:%s>" % ".".join(lhs),) + o.proj) for o in self._origins_rvalue(st["r"], (bi, si), (), through_calls, seen)}
        for bi in self.callpartial.get(local, []):
            t = self.blocks[bi]["t"]
            lhs = tuple(t["dest"][1:])
            if proj[: len(lhs)] == lhs:
                out |= self._origins_call(t, bi, proj[len(lhs):], through_calls, seen)
        if not out:
            out.add(Origin("local", local, proj))
        return out

    def _origins_rvalue(self, r, site, proj, through_calls, seen):
        k = r["k"]
        if k == "use":
            o = r["o"]
            if o["k"] == "const":
                return self._with_proj({Origin("const", o.get("fn") or o.get("v") or o.get("ty"))}, proj)
            p = o["p"]
            return self._origins_local(p[0], tuple(p[1:]) + proj, through_calls, seen)
        if k in ("ref", "copyderef", "rawptr"):
            p = r["p"]
            # &x then (*r).f  ==  x.f : drop one leading deref of the requested projection
            pr = proj[1:] if proj and proj[0] == "*" else proj
            return self._origins_local(p[0], tuple(p[1:]) + pr, through_calls, seen)
        if k == "cast":
            return self.origins_operand(r["o"], proj, through_calls, seen)
        if k == "agg":
            # projection into an aggregate picks the operand
            pr = [e for e in proj]
            # skip downcast element
            while pr and pr[0].startswith("d"):
                pr = pr[1:]
            if pr and pr[0].startswith("f") and pr[0][1:].isdigit():
                idx = int(pr[0][1:])
                if idx < len(r["ops"]):
                    return self.origins_operand(r["ops"][idx], tuple(pr[1:]), through_calls, seen)
            return {Origin("agg", site, proj)}
        if k == "discr":
            return {Origin("discr", site, proj)}
        if k in ("un", "bin", "repeat"):
            return {Origin("op", site, proj)}
        return {Origin("unknown", site, proj)}

    def origins_operand(self, o, proj, through_calls, seen):
        if o["k"] == "const":
            return self._with_proj({Origin("const", o.get("fn") or o.get("v") or o.get("ty"))}, proj)
        if o["k"] in ("copy", "move"):
            p = o["p"]
            return self._origins_local(p[0], tuple(p[1:]) + tuple(proj), through_calls, seen)
        return {Origin("unknown", "operand")}

    def _origins_call(self, t, bi, proj, through_calls, seen):
        callee = t.get("callee")
        if through_calls == "plumbing":
            if is_plumbing(callee) and t["args"]:
                return self.origins_operand(t["args"][0], proj, through_calls, seen)
        elif through_calls and is_pass_through(callee) and t["args"]:
            pr = proj
            return self.origins_operand(t["args"][0], pr, through_calls, seen)
        if callee == "core::future::future::Future::poll" or (callee or "").endswith("::poll_unpin") or (callee or "").endswith("Future::poll"):
            # Poll::Ready(x) of an awaited future
            pr = [e for e in proj]
            if pr and pr[0].startswith("d0") and len(pr) > 1 and pr[1] == "f0":
                return {Origin("await", (bi,), tuple(pr[2:]))}
            return {Origin("poll", (bi,), proj)}
        if callee == "core::future::get_context":
            return {Origin("taskctx", (bi,), proj)}
        return {Origin("call", (bi,), proj)}

    # ---- must-moved analysis (which Drop terminators of the un-elaborated MIR are no-ops) -----------
    def _moves_defs(self, blk):
        """sequence of ('move', local, piece) | ('def', local) effects of a block, statements then terminator.
        piece = '*' for a move of the whole local, else the type of the piece moved out of it (the type of the
        destination of `_y = move _x.f1`), so that a partial move is not mistaken for a move of everything"""
        eff = []

        def mv(o, dest_ty):
            if o.get("k") == "move":
                p = o["p"]
                if len(p) == 1:
                    eff.append(("move", p[0], "*"))
                else:
                    eff.append(("move", p[0], dest_ty or "?"))
        for st in blk["s"]:
            if st["k"] != "assign":
                continue
            r = st["r"]
            k = r["k"]
            lhs_ty = self.locals[st["p"][0]]["ty"] if len(st["p"]) == 1 else None
            if k in ("use", "cast", "un", "repeat"):
                mv(r["o"], lhs_ty)
            elif k == "bin":
                mv(r["a"], None)
                mv(r["b"], None)
            elif k == "agg":
                for o in r["ops"]:
                    mv(o, None)
            if len(st["p"]) == 1:
                eff.append(("def", st["p"][0]))
        t = blk["t"]
        if t["k"] in ("call", "tailcall"):
            for o, aty in zip(t["args"], t.get("argtys", [None] * len(t["args"]))):
                mv(o, aty)
        elif t["k"] == "yield":
            mv(t["v"], None)
        return eff

    def must_moved_at_term(self):
        """bb -> {local: set(pieces)} of what is definitely moved out when the terminator of bb executes;
        piece '*' = the whole local"""
        if getattr(self, "_mm", None) is not None:
            return self._mm
        n = len(self.blocks)
        ALL = None  # top
        entry = [ALL] * n
        entry[0] = frozenset()
        effs = [self._moves_defs(b) for b in self.blocks]

        def transfer(s, bi):
            s = set(s)
            for e in effs[bi]:
                if e[0] == "move":
                    s.add((e[1], e[2]))
                else:
                    s = {x for x in s if x[0] != e[1]}
            return s
        work = [0]
        while work:
            bi = work.pop()
            if entry[bi] is ALL:
                continue
            out = transfer(entry[bi], bi)
            t = self.blocks[bi]["t"]
            for s in self.succs(bi, unwind=False):
                if self.blocks[s]["c"]:
                    continue
                o2 = set(out)
                if t["k"] == "call" and len(t["dest"]) == 1 and s == t.get("target"):
                    o2 = {x for x in o2 if x[0] != t["dest"][0]}
                if t["k"] == "yield" and len(t["resume_arg"]) == 1 and s == t.get("resume"):
                    o2 = {x for x in o2 if x[0] != t["resume_arg"][0]}
                if t["k"] == "switch":
                    # on the edge on which an `Option` local was found to be `None` there is nothing left in it to drop
                    # (`match R.try_write() { Some(g) => g, None => R.write().await }`: the temporary is empty on the None arm)
                    nl = self._none_edge_local(bi, s)
                    if nl is not None:
                        o2.add((nl, "*"))
                if entry[s] is ALL:
                    new = frozenset(o2)
                else:
                    # meet: moved on both paths — where one path moved the whole local, the pieces the other one moved stay
                    a_, b_ = entry[s], o2
                    wa, wb = {x[0] for x in a_ if x[1] == "*"}, {x[0] for x in b_ if x[1] == "*"}
                    new = frozenset((a_ & b_) | {x for x in a_ if x[0] in wb} | {x for x in b_ if x[0] in wa})
                if entry[s] is ALL or new != entry[s]:
                    entry[s] = new
                    work.append(s)
        res = {}
        for bi in range(n):
            d = {}
            if entry[bi] is not ALL:
                for (l, piece) in transfer(entry[bi], bi):
                    d.setdefault(l, set()).add(piece)
            res[bi] = d
        self._mm = res
        return res

    def _none_edge_local(self, bi, succ):
        """if block bi ends in a switch on the discriminant of a plain `Option` local and `succ` is where it goes for `None`:
        that local"""
        blk = self.blocks[bi]
        t = blk["t"]
        if not blk["s"] or t.get("o", {}).get("k") not in ("move", "copy"):
            return None
        last = blk["s"][-1]
        r = last.get("r") or {}
        if not (last.get("k") == "assign" and r.get("k") == "discr" and r.get("adt") == "core::option::Option" and last.get("p") == t["o"]["p"] and len(r.get("p", [])) == 1):
            return None
        variants = r.get("variants", {})
        named = {val: variants.get(val) for val, _tg in t["targets"]}
        for val, tg in t["targets"]:
            if tg == succ and named.get(val) == "None" and [x for x in t["targets"] if x[1] == succ] == [[val, tg]] and t.get("otherwise") != succ:
                return r["p"][0]
        if t.get("otherwise") == succ and all(tg != succ for _v, tg in t["targets"]):
            rest = [n for v, n in variants.items() if v not in named]
            if rest == ["None"]:
                return r["p"][0]
        return None

    def return_aliases(self):
        """locals through which the returned value is handed to the return place: `_0 = move r` with `r` assigned once from another
        local, or taken out of the `Poll::Ready(h)` an inlined awaited helper ends in — [0, r, h, ..]"""
        def defs(loc):
            return [st for bl in self.blocks if not bl["c"] for st in bl["s"] if st["k"] == "assign" and st["p"] == [loc]]
        out = [0]
        work = [0]
        while work and len(out) < 8:
            l = work.pop()
            for st in defs(l):
                r = st["r"]
                if r["k"] != "use" or r["o"].get("k") not in ("move", "copy"):
                    continue
                p = r["o"]["p"]
                nxt = None
                if len(p) == 1:
                    nxt = p[0]
                elif len(p) == 3 and str(p[1]).endswith(":Ready") and p[2] == "f0":
                    pd = defs(p[0])
                    if len(pd) == 1 and pd[0]["r"].get("k") == "agg" and pd[0]["r"].get("variant") == "Ready" and len(pd[0]["r"].get("ops", [])) == 1 and pd[0]["r"]["ops"][0].get("k") in ("move", "copy") and len(pd[0]["r"]["ops"][0]["p"]) == 1:
                        nxt = pd[0]["r"]["ops"][0]["p"][0]
                if nxt is not None and nxt not in out and nxt > self.b.get("arg_count", 0):
                    out.append(nxt)
                    work.append(nxt)
        return out

    def drop_is_noop_for(self, bi, local, holds):
        """Is the Drop of `local` at block bi certainly not dropping a value for which holds(type) is true?
        True if the whole local was moved out, or a piece whose type satisfies `holds` was moved out of it."""
        pieces = self.must_moved_at_term().get(bi, {}).get(local)
        if not pieces:
            return False
        if "*" in pieces:
            return True
        return any(holds(p) for p in pieces if p)

    # ---- helpers -------------------------------------------------------------------------------
    def call_at(self, o):
        return self.blocks[o.site[0]]["t"]

    def polled_future_origins(self, poll_bb, plumbing=False):
        t = self.blocks[poll_bb]["t"]
        return self.origins(t["args"][0], through_calls=("plumbing" if plumbing else True))

    def awaited_calls(self, poll_bb):
        """terminators of the calls that produced the future polled at poll_bb"""
        out = []
        seen = set()
        # the call that made the awaited future: first the outermost one (e.g. fut.map(..)), then what it wraps
        for o in list(self.polled_future_origins(poll_bb, plumbing=True)) + list(self.polled_future_origins(poll_bb)):
            if o.kind == "call" and o.site[0] not in seen:
                seen.add(o.site[0])
                out.append((o.site[0], self.call_at(o)))
        return out

    def uses_of_local(self, local):
        """all (bb, where, detail) mentioning local as an operand base / place base"""
        out = []
        for bi, blk in enumerate(self.blocks):
            for si, st in enumerate(blk["s"]):
                if st["k"] != "assign":
                    continue
                for p in rvalue_places(st["r"]):
                    if p[0] == local:
                        out.append((bi, si, "stmt", st))
            t = blk["t"]
            for p in term_places(t):
                if p[0] == local:
                    out.append((bi, None, "term", t))
        return out

    def on_all_paths_to_return(self, bb):
        """True iff every normal path from the entry to a Return passes through block bb"""
        seen = set()
        st = [0]
        while st:
            x = st.pop()
            if x in seen or x == bb or self.is_cleanup(x):
                continue
            seen.add(x)
            if self.blocks[x]["t"]["k"] == "return":
                return False
            for s in self.succs(x, unwind=False):
                st.append(s)
        return True

    def reachable_from(self, bb, unwind=False, stop=None):
        seen = set()
        st = [bb]
        while st:
            x = st.pop()
            if x in seen:
                continue
            seen.add(x)
            if stop and x in stop and x != bb:
                continue
            for s in self.succs(x, unwind=unwind):
                if not unwind and self.is_cleanup(s):
                    continue
                st.append(s)
        return seen


def operand_place(o):
    return o["p"] if o["k"] in ("copy", "move") else None


def rvalue_places(r):
    k = r["k"]
    out = []
    if k in ("use", "cast", "un", "repeat"):
        p = operand_place(r["o"])
        if p:
            out.append(p)
    elif k in ("ref", "copyderef", "rawptr", "discr"):
        out.append(r["p"])
    elif k == "bin":
        for o in (r["a"], r["b"]):
            p = operand_place(o)
            if p:
                out.append(p)
    elif k == "agg":
        for o in r["ops"]:
            p = operand_place(o)
            if p:
                out.append(p)
    return out


def term_places(t):
    out = []
    k = t["k"]
    if k in ("call", "tailcall"):
        for o in t["args"]:
            p = operand_place(o)
            if p:
                out.append(p)
        if "fnplace" in t:
            out.append(t["fnplace"])
    elif k == "switch":
        p = operand_place(t["o"])
        if p:
            out.append(p)
    elif k == "drop":
        out.append(t["p"])
    elif k == "yield":
        p = operand_place(t["v"])
        if p:
            out.append(p)
    return out


def short(callee):
    """last two path segments of a def path, generics stripped — for labels"""
    if callee is None:
        return "<indirect>"
    s = callee
    # strip generic argument lists
    out = []
    depth = 0
    for ch in s:
        if ch == "<":
            depth += 1
        elif ch == ">":
            depth -= 1
        elif depth == 0:
            out.append(ch)
    s = "".join(out).replace("::::", "::")
    parts = [p for p in s.split("::") if p]
    return "::".join(parts[-2:])


# ---- forward flow (where does a value end up) ------------------------------------------------------

def sinks(body, start_local, follow_pass_through=True, follow_refs=True, max_steps=400, into_closures=True):
    """Forward slice: the places a value that lives in `start_local` can flow to.
    Returns a list of sinks: dicts with k in
       call  (bb, arg index, term)         passed to a call (not a pass-through)
       agg   (kind, def, field index, bb)  stored into an aggregate (closure capture, struct field, enum payload)
       store (place)                       written into a field of another local
       ret                                  reaches the return place
       drop  (bb)                          explicit Drop terminator (pre-MIR: scope end, conditional)
       inspect (bb)                        only looked at (discriminant / switch / comparison)
       yield
    """
    out = []
    seen = set()
    work = [start_local]
    steps = 0
    while work and steps < max_steps:
        l = work.pop()
        if l in seen:
            continue
        seen.add(l)
        steps += 1
        if l == 0:
            out.append({"k": "ret"})
        for bi, blk in enumerate(body.blocks):
            if blk["c"]:
                continue
            for si, st in enumerate(blk["s"]):
                if st["k"] != "assign":
                    continue
                r = st["r"]
                lhs = st["p"]
                k = r["k"]
                hit = False
                if k in ("use", "cast", "repeat"):
                    p = operand_place(r["o"])
                    hit = p is not None and p[0] == l
                    if hit:
                        if len(lhs) == 1:
                            work.append(lhs[0])
                        else:
                            out.append({"k": "store", "place": lhs, "bb": bi, "l": st.get("l")})
                            work.append(lhs[0])
                elif k in ("ref", "copyderef", "rawptr"):
                    if r["p"][0] == l and follow_refs:
                        if len(lhs) == 1:
                            work.append(lhs[0])
                elif k == "agg":
                    for idx, o in enumerate(r["ops"]):
                        p = operand_place(o)
                        if p is not None and p[0] == l:
                            out.append({"k": "agg", "ak": r.get("ak"), "def": r.get("def"), "variant": r.get("variant"), "idx": idx, "bb": bi, "l": st.get("l")})
                            if into_closures or r.get("ak") not in ("closure", "coroutine"):
                                work.append(lhs[0])
                elif k == "discr":
                    if r["p"][0] == l:
                        out.append({"k": "inspect", "bb": bi})
                elif k in ("un", "bin"):
                    for p in rvalue_places(r):
                        if p[0] == l:
                            out.append({"k": "inspect", "bb": bi})
            t = blk["t"]
            tk = t["k"]
            if tk == "call":
                for idx, o in enumerate(t["args"]):
                    p = operand_place(o)
                    if p is not None and p[0] == l:
                        if follow_pass_through and is_pass_through(t.get("callee")) and idx == 0:
                            d = t["dest"]
                            work.append(d[0])
                        else:
                            out.append({"k": "call", "bb": bi, "idx": idx, "t": t})
                if "fnplace" in t and t["fnplace"][0] == l:
                    out.append({"k": "invoke", "bb": bi, "t": t})
            elif tk == "drop":
                if t["p"][0] == l and len(t["p"]) == 1:
                    out.append({"k": "drop", "bb": bi})
            elif tk == "switch":
                p = operand_place(t["o"])
                if p is not None and p[0] == l:
                    out.append({"k": "inspect", "bb": bi})
            elif tk == "yield":
                p = operand_place(t["v"])
                if p is not None and p[0] == l:
                    out.append({"k": "yield", "bb": bi})
    return out


def agg_sites(body, adt=None, variant=None, ak="adt"):
    """statements constructing an aggregate: yields (bb, si, stmt)"""
    for bi, blk in enumerate(body.blocks):
        if blk["c"]:
            continue
        for si, st in enumerate(blk["s"]):
            if st["k"] == "assign" and st["r"]["k"] == "agg" and st["r"].get("ak") == ak:
                r = st["r"]
                if adt is not None and r.get("def") != adt:
                    continue
                if variant is not None and r.get("variant") != variant:
                    continue
                yield bi, si, st


def upvar_sinks(body, idx, into_closures=True):
    """forward flow of the captured variable `idx` of a closure / coroutine body (place _1.f<idx> or (*_1).f<idx>)"""
    out = []

    def is_up(p):
        q = [e for e in p[1:] if e != "*"]
        return p[0] == 1 and q and q[0] == "f%d" % idx

    for bi, blk in enumerate(body.blocks):
        if blk["c"]:
            continue
        for si, st in enumerate(blk["s"]):
            if st["k"] != "assign":
                continue
            r = st["r"]
            k = r["k"]
            lhs = st["p"]
            if k in ("use", "cast"):
                p = operand_place(r["o"])
                if p is not None and is_up(p):
                    out.append({"k": "moved", "to": lhs[0], "bb": bi})
                    out.extend(sinks(body, lhs[0], into_closures=into_closures))
            elif k in ("ref", "copyderef", "rawptr"):
                if is_up(r["p"]):
                    out.extend(sinks(body, lhs[0], into_closures=into_closures))
            elif k == "agg":
                for i, o in enumerate(r["ops"]):
                    p = operand_place(o)
                    if p is not None and is_up(p):
                        out.append({"k": "agg", "ak": r.get("ak"), "def": r.get("def"), "variant": r.get("variant"), "idx": i, "bb": bi, "l": st.get("l")})
                        if into_closures or r.get("ak") not in ("closure", "coroutine"):
                            out.extend(sinks(body, lhs[0], into_closures=into_closures))
        t = blk["t"]
        if t["k"] == "call":
            for i, o in enumerate(t["args"]):
                p = operand_place(o)
                if p is not None and is_up(p):
                    if is_pass_through(t.get("callee")) and i == 0:
                        out.extend(sinks(body, t["dest"][0], into_closures=into_closures))
                    else:
                        out.append({"k": "call", "bb": bi, "idx": i, "t": t})
        elif t["k"] == "drop":
            if is_up(t["p"]):
                out.append({"k": "drop", "bb": bi})
    return out
