"""Loading and pretty-printing of hfacts fact files."""
import json, os, subprocess, sys

V = os.path.dirname(os.path.dirname(os.path.abspath(__file__)))


class CheckerError(Exception):
    pass


class BuildFailed(Exception):
    pass


def extract(cfg, repo="/repo"):
    p = subprocess.run([os.path.join(V, "tools", "extract.sh"), cfg, repo], capture_output=True, text=True)
    if p.returncode == 4:
        raise BuildFailed(p.stderr)
    if p.returncode != 0:
        raise CheckerError("extract %s failed: %s" % (cfg, p.stderr[-2000:]))
    path = p.stdout.strip().splitlines()[-1]
    return path


_cache = {}


def _canon_impl_paths(text):
    """`module::<impl some::Type<Args>>::method` -> `some::Type::<Args>::method`: an inherent method is named by its type,
    wherever the impl block is written (rustc prints the short form only for impl blocks in the type's own module)"""
    import re
    out = []
    pos = 0
    pat = re.compile(r"[A-Za-z_][A-Za-z0-9_]*(?:::[A-Za-z_][A-Za-z0-9_]*)*::<impl ")
    while True:
        m = pat.search(text, pos)
        if not m:
            out.append(text[pos:])
            break
        i = m.end() - len("<impl ")
        depth = 0
        j = i
        while j < len(text):
            c = text[j]
            if c == "<":
                depth += 1
            elif c == ">":
                depth -= 1
                if depth == 0:
                    break
            elif c == '"':
                j = len(text)
                break
            j += 1
        if j >= len(text) or text[j + 1:j + 3] != "::":
            out.append(text[pos:m.end()])
            pos = m.end()
            continue
        inner = text[i + len("<impl "):j]
        if " for " in inner and not inner.startswith(("&", "(", "[", "dyn ")):
            # `module::<impl Trait<..> for Type<..>>::method` -> `<Type<..> as Trait<..>>::method` (what rustc prints when
            # the impl sits in the type's own module)
            tr, ty_ = inner.split(" for ", 1)
            out.append(text[pos:m.start()])
            out.append("<%s as %s>" % (ty_, tr))
            pos = j + 1
            continue
        if inner.startswith(("&", "(", "[", "dyn ")):
            out.append(text[pos:m.end()])
            pos = m.end()
            continue
        k = inner.find("<")
        canon = inner if k < 0 else inner[:k] + "::" + inner[k:]
        out.append(text[pos:m.start()])
        out.append(canon)
        pos = j + 1
    return "".join(out)


def _normalise(text):
    """make the facts independent of *where* crate items are written: (1) inherent methods are named by their type;
    (2) a type / trait / static that was moved to another module of the crate (its simple name still unique) is given
    the path it has in the pinned tree (rules/homes.json), everywhere it occurs"""
    import re
    text = _canon_impl_paths(text)
    try:
        homes = json.load(open(os.path.join(V, "rules", "homes.json")))
    except OSError:
        return text
    d = json.loads(text)
    have = {"adt": [a["def"] for a in d.get("adts", [])], "trait": [t_["def"] for t_ in d.get("traits", [])], "static": [s["def"] for s in d.get("statics", [])]}
    moves = {}
    for kind, table in homes.items():
        present = set(have.get(kind, []))
        for name, home in table.items():
            if home in present:
                continue
            cands = [p for p in present if p.split("::")[-1] == name]
            if len(cands) == 1:
                moves[cands[0]] = home
    # the two statics are recognised by what they are, whatever they are called and wherever they sit
    STATIC_SHAPES = {"actor::service::REGISTRY": "async_lock::rwlock::RwLock<std::collections::hash::map::HashMap<core::any::TypeId", "context::id::CONTEXT_ID": "core::sync::atomic::Atomic<u64>"}
    for home, shape in STATIC_SHAPES.items():
        if home not in have["static"]:
            cands = [s["def"] for s in d.get("statics", []) if shape in s.get("ty", "") and s["def"] not in STATIC_SHAPES]
            if len(cands) == 1:
                moves[cands[0]] = home
    for src in sorted(moves, key=len, reverse=True):
        text = re.sub(r"(?<![A-Za-z0-9_:])" + re.escape(src) + r"(?![A-Za-z0-9_])", moves[src], text)
    # (4) the two submission paths of a mailbox are trait objects `dyn TxFn<A>` / `dyn ForceTxFn<A>` in the pinned tree; when the
    # shim traits are dropped in favour of plain `dyn Fn(Payload<A>) -> ..` aliases, the two closure types are told apart by
    # their output (a boxed future: the waiting path; a plain Result: the forcing path) and given the pinned names
    if "channel::TxFn" not in have["trait"] and "channel::ForceTxFn" not in have["trait"]:
        FN_ = r"dyn core::ops::function::Fn<\(environment::payload::Payload<([^<>]*)>,\)> \+ \[Output="
        RES_ = r"core::result::Result<\(\), error::ActorError>"
        AUTO_ = r"(?: \+ core::marker::Send)?(?: \+ core::marker::Sync)?"
        text = re.sub(FN_ + r"core::pin::Pin<alloc::boxed::Box<dyn core::future::future::Future \+ \[Output=" + RES_ + r"\]" + AUTO_ + r", alloc::alloc::Global>>\]" + AUTO_, r"dyn channel::TxFn<\1>", text)
        text = re.sub(FN_ + RES_ + r"\]" + AUTO_, r"dyn channel::ForceTxFn<\1>", text)
    # (3) the body of a provided trait method that was moved into the trait's only (blanket) implementation
    # (`impl<A, S> SpawnableService<S> for A { fn from_registry_and_spawn() { .. } }`) keeps the name it has in the pinned tree
    provided = set(homes.get("provided", {}))
    fn_defs = {f["def"] for f in d.get("fns", [])}
    for fd in sorted(fn_defs, key=len, reverse=True):
        m = re.match(r"^<([A-Z][A-Za-z0-9]?) as ([a-z_][A-Za-z0-9_:]*[A-Za-z0-9_])(<.*>)?>::([a-z_][A-Za-z0-9_]*)$", fd)
        if not m:
            continue
        target = "%s::%s" % (moves.get(m.group(2), m.group(2)), m.group(4))
        if target in provided and target not in fn_defs:
            text = text.replace(json.dumps(fd)[1:-1], target)
    return text


def _normalise_calls(d):
    """calls of the submission closures through `Fn::call` (after (4) above their receiver is `dyn channel::TxFn<A>` /
    `dyn channel::ForceTxFn<A>`) are presented as the trait-method calls `TxFn::send(&tx, payload)` they replace: the
    payload, tupled by the Fn ABI, becomes the plain second argument again"""
    for f in d.get("fns", []):
        for stage in ("pre", "post"):
            body = f.get(stage)
            if not body:
                continue
            for blk in body["blocks"]:
                t = blk["t"]
                if t.get("k") != "call" or t.get("callee") != "core::ops::function::Fn::call":
                    continue
                st = t.get("self_ty") or ""
                tr = "channel::TxFn" if st.startswith("dyn channel::TxFn<") else ("channel::ForceTxFn" if st.startswith("dyn channel::ForceTxFn<") else None)
                if tr is None or len(t.get("args", [])) != 2:
                    continue
                tup = t["args"][1]
                inner = None
                if tup.get("k") in ("move", "copy") and len(tup["p"]) == 1:
                    defs = [s for b2 in body["blocks"] for s in b2["s"] if s.get("k") == "assign" and s.get("p") == tup["p"] and s["r"].get("k") == "agg" and s["r"].get("ak") == "tuple" and len(s["r"].get("ops", [])) == 1]
                    if len(defs) == 1:
                        inner = defs[0]["r"]["ops"][0]
                if inner is None:
                    continue
                for b2 in body["blocks"]:
                    b2["s"] = [s for s in b2["s"] if s is not defs[0]]  # the argument tuple is gone with the Fn ABI
                t["trait"] = tr
                t["callee"] = tr + "::send"
                t["callee_local"] = True
                t["args"] = [t["args"][0], inner]
                aty = (t.get("argtys") or ["", ""])[1]
                if aty.startswith("(") and aty.endswith(",)"):
                    t["argtys"] = [t["argtys"][0], aty[1:-2]]
                t["gargs"] = [st]
    return d


def _normalise_spawn(d):
    """(6) `tokio::runtime::Handle::current().spawn(fut)` is `tokio::spawn(fut)`: a spawn through the handle of the runtime
    that is current *at the call*. Presented as the ambient spawn function the rules know. (A handle obtained anywhere else —
    stored, cached, passed in — is not rewritten and is reported by R18.5.)"""
    CUR, SPAWN = "tokio::runtime::handle::{impl#0}::current", "tokio::runtime::handle::{impl#0}::spawn"
    for f in d.get("fns", []):
        for stage in ("pre", "post"):
            body = f.get(stage)
            if not body:
                continue
            blocks = body["blocks"]
            cur_dests = {tuple(b_["t"]["dest"]) for b_ in blocks if b_["t"].get("k") == "call" and b_["t"].get("callee") == CUR and len(b_["t"].get("dest", [])) == 1}
            if not cur_dests:
                continue

            def defs_of(local):
                out = []
                for b_ in blocks:
                    for st in b_["s"]:
                        if st.get("k") == "assign" and st.get("p") == [local]:
                            out.append(st)
                    if b_["t"].get("k") == "call" and b_["t"].get("dest") == [local]:
                        out.append(b_["t"])
                return out
            for b_ in blocks:
                t = b_["t"]
                if t.get("k") != "call" or t.get("callee") != SPAWN or len(t.get("args", [])) != 2:
                    continue
                recv = t["args"][0]
                if recv.get("k") not in ("move", "copy") or len(recv["p"]) != 1:
                    continue
                ds = defs_of(recv["p"][0])
                ok = False
                if len(ds) == 1 and ds[0].get("k") == "assign" and ds[0]["r"].get("k") == "ref" and len(ds[0]["r"].get("p", [])) == 1:
                    ds2 = defs_of(ds[0]["r"]["p"][0])
                    ok = len(ds2) == 1 and ds2[0].get("k") == "call" and ds2[0].get("callee") == CUR
                elif len(ds) == 1 and ds[0].get("k") == "call" and ds[0].get("callee") == CUR:
                    ok = True
                if not ok:
                    continue
                t["callee"] = "tokio::task::spawn::spawn"
                t["args"] = [t["args"][1]]
                if len(t.get("argtys") or []) == 2:
                    t["argtys"] = [t["argtys"][1]]
                t.pop("self_ty", None)
    return d


PAYLOAD_ADT = "environment::payload::Payload"


def _normalise_payload(d):
    """(5) the control requests are variants of `Payload` itself in the pinned tree (`Payload::Stop`, `Payload::Restart`).
    When they are grouped in a fieldless enum of their own that one variant carries (`Payload::Signal(Signal::Stop)`), the
    facts are presented in the pinned vocabulary: the carrier variant is replaced by the variants of the carried enum in the
    type table; building `Payload::Signal(<literal Signal::X>)` is building `Payload::X`; a match that looks at the carrier
    variant and then, first thing, at the carried enum is one match on the flattened variants; a nullary crate function that
    returns such a literal (`const fn Payload::stop()`) is that literal at its call sites."""
    adts = {a["def"]: a for a in d.get("adts", [])}
    pay = adts.get(PAYLOAD_ADT)
    if not pay:
        return d
    carriers = {}
    for v in pay["variants"]:
        if len(v["fields"]) == 1:
            e = adts.get(v["fields"][0]["ty"])
            if e and len(e["variants"]) >= 2 and all(not ev["fields"] for ev in e["variants"]) and not ({ev["name"] for ev in e["variants"]} & {pv["name"] for pv in pay["variants"]}):
                carriers[v["name"]] = e
    if not carriers:
        return d
    pay["variants"] = [v for v in pay["variants"] if v["name"] not in carriers] + [dict(ev) for e in carriers.values() for ev in e["variants"]]
    carried = {e["def"]: vn for vn, e in carriers.items()}
    ctor_fns = {}
    for f in d.get("fns", []):
        for stage in ("pre", "post"):
            body = f.get(stage)
            if not body:
                continue
            blocks = body["blocks"]
            # literals
            for blk in blocks:
                for st in blk["s"]:
                    r = st.get("r") or {}
                    if st.get("k") == "assign" and r.get("k") == "agg" and r.get("def") == PAYLOAD_ADT and r.get("variant") in carriers and len(r.get("ops", [])) == 1:
                        op = r["ops"][0]
                        lit = None
                        if op.get("k") in ("move", "copy") and len(op["p"]) == 1:
                            defs = [s2 for b2 in blocks for s2 in b2["s"] if s2.get("k") == "assign" and s2.get("p") == op["p"]]
                            if len(defs) == 1 and defs[0]["r"].get("k") == "agg" and defs[0]["r"].get("def") in carried and not defs[0]["r"].get("ops"):
                                lit = defs[0]["r"]["variant"]
                        if lit is not None:
                            r["variant"] = lit
                            r["fields"] = []
                            r["ops"] = []
            # matches: carrier arm -> block that does nothing but look at the carried enum
            for blk in blocks:
                t = blk["t"]
                if t.get("k") != "switch" or not blk["s"]:
                    continue
                last = blk["s"][-1]
                r = last.get("r") or {}
                if not (last.get("k") == "assign" and r.get("k") == "discr" and r.get("adt") == PAYLOAD_ADT and t.get("o", {}).get("p") == last.get("p")):
                    continue
                new_targets = []
                variants = dict(r.get("variants", {}))
                changed = False
                for val, tgt in t["targets"]:
                    vn = variants.get(val)
                    inner = blocks[tgt] if vn in carriers and tgt < len(blocks) else None
                    ok = False
                    if inner is not None and len(inner["s"]) == 1 and inner["t"].get("k") == "switch":
                        s0 = inner["s"][0]
                        r0 = s0.get("r") or {}
                        if s0.get("k") == "assign" and r0.get("k") == "discr" and r0.get("adt") in carried and inner["t"].get("o", {}).get("p") == s0.get("p") \
                                and list(r0.get("p", [])[:len(r["p"])]) == list(r["p"]) and len(r0["p"]) == len(r["p"]) + 2:
                            ok = True
                            for ival, itgt in inner["t"]["targets"]:
                                key = "%s%s" % (1000 + int(val), ival)
                                variants[key] = r0["variants"].get(ival)
                                new_targets.append([key, itgt])
                            # the carried enum's remaining variants (its `otherwise`) when they are a single one
                            rest = [k for k in r0["variants"] if k not in {iv for iv, _ in inner["t"]["targets"]}]
                            if len(rest) == 1 and inner["t"].get("otherwise") is not None:
                                key = "%s%s" % (1000 + int(val), rest[0])
                                variants[key] = r0["variants"][rest[0]]
                                new_targets.append([key, inner["t"]["otherwise"]])
                            variants.pop(val, None)
                            changed = True
                    if not ok:
                        new_targets.append([val, tgt])
                if changed:
                    t["targets"] = new_targets
                    r["variants"] = variants
            # a remaining look at the carried enum alone (not flattened above): named in the pinned vocabulary all the same
            for blk in blocks:
                for st in blk["s"]:
                    r = st.get("r") or {}
                    if st.get("k") == "assign" and r.get("k") == "discr" and r.get("adt") in carried:
                        r["adt"] = PAYLOAD_ADT
            if stage == "pre" and body.get("arg_count") == 0 and len(blocks) == 1 and blocks[0]["t"].get("k") == "return" and f.get("kind") in ("fn", "assoc_fn"):
                ss = [st for st in blocks[0]["s"] if st.get("k") == "assign"]
                fin = [st for st in ss if st.get("p") == [0]]
                if len(fin) == 1 and fin[0]["r"].get("k") == "agg" and fin[0]["r"].get("def") == PAYLOAD_ADT and not fin[0]["r"].get("ops") and all(st["r"].get("k") == "agg" and not st["r"].get("ops") for st in ss):
                    ctor_fns[f["def"]] = fin[0]["r"]
    if ctor_fns:
        for f in d.get("fns", []):
            for stage in ("pre", "post"):
                body = f.get(stage)
                if not body:
                    continue
                for blk in body["blocks"]:
                    t = blk["t"]
                    if t.get("k") == "call" and (t.get("resolved") or t.get("callee")) in ctor_fns and not t.get("args") and t.get("target") is not None and t.get("dest"):
                        lit = ctor_fns[t.get("resolved") or t.get("callee")]
                        blk["s"].append({"k": "assign", "p": list(t["dest"]), "r": dict(lit, gargs=list(t.get("gargs") or lit.get("gargs") or [])), "l": t.get("l")})
                        blk["t"] = {"k": "goto", "target": t["target"], "l": t.get("l")}
        # a constructor all of whose uses were replaced by the literal it returns is gone from the picture (one that is still
        # called somewhere, or passed on as a function value, stays and is judged like any function that builds a payload)
        text = json.dumps([f.get("pre") for f in d.get("fns", []) if f["def"] not in ctor_fns] + [f.get("post") for f in d.get("fns", []) if f["def"] not in ctor_fns])
        unused = {c for c in ctor_fns if json.dumps(c) not in text}
        d["fns"] = [f for f in d["fns"] if f["def"] not in unused]
    return d


def load(cfg, repo="/repo"):
    key = (cfg, repo)
    if key not in _cache:
        path = extract(cfg, repo)
        with open(path) as f:
            _cache[key] = Facts(_normalise_spawn(_normalise_payload(_normalise_calls(json.loads(_normalise(f.read()))))), cfg, path)
    return _cache[key]


class Facts:
    def __init__(self, d, cfg, path):
        self.d = d
        self.cfg = cfg
        self.path = path
        self.fns = {f["def"]: f for f in d["fns"]}
        self.adts = {a["def"]: a for a in d["adts"]}
        self.owns = d["owns"]
        self.coroutines = {c["def"]: c for c in d["coroutines"]}
        self.dyn = d["dyn_table"]

    def fn(self, name):
        return self.fns.get(name)

    def callee_fn(self, t):
        """the crate-local function a call terminator goes to (resolved instance first, then the declared callee)"""
        for key in ("resolved", "callee"):
            c = t.get(key)
            if c and c in self.fns:
                return self.fns[c]
        return None

    def find_fns(self, pred):
        return [f for f in self.d["fns"] if pred(f)]

    def impl_fn(self, trait_def, self_prefix, method):
        """method of `impl <trait_def> for <self_prefix...>` — by structure, not by printed path"""
        for f in self.d["fns"]:
            if f.get("impl_trait_def") == trait_def and (f.get("impl_self") or "").startswith(self_prefix) and f["def"].endswith("::" + method):
                return f
        return None

    def impl_fns(self, trait_def, self_prefix=""):
        return [f for f in self.d["fns"] if f.get("impl_trait_def") == trait_def and (f.get("impl_self") or "").startswith(self_prefix)]

    def owns_of(self, def_path, kind=None):
        for o in self.owns:
            if o["def"] == def_path and (kind is None or o["kind"] == kind):
                return o
        return None

    def children_of(self, def_path):
        """closures / coroutines syntactically nested in def_path (direct)"""
        return [f for f in self.d["fns"] if f.get("parent") == def_path and f["kind"] in ("closure", "coroutine")]

    def descendants(self, def_path):
        out = []
        for c in self.children_of(def_path):
            out.append(c)
            out.extend(self.descendants(c["def"]))
        return out


# ---- pretty printer (debugging aid) ------------------------------------------------------------

def pplace(p):
    s = "_%d" % p[0]
    for e in p[1:]:
        if e == "*":
            s = "(*%s)" % s
        else:
            s += "." + e
    return s


def pop(o):
    if o["k"] in ("copy", "move"):
        return o["k"] + " " + pplace(o["p"])
    if o["k"] == "const":
        if "fn" in o:
            return "fn " + o["fn"]
        return "const %s" % o.get("v", o["ty"][:40])
    return "?"


def prv(r):
    k = r["k"]
    if k == "use":
        return pop(r["o"])
    if k == "ref":
        return "&%s %s" % (r["m"], pplace(r["p"]))
    if k == "agg":
        return "%s %s%s(%s)" % (r["ak"], r.get("def", ""), ("::" + r["variant"]) if r.get("variant") else "", ", ".join(pop(o) for o in r["ops"]))
    if k == "cast":
        return "cast[%s] %s -> %s" % (r["ck"], pop(r["o"]), r["to"][:80])
    if k == "discr":
        return "discr(%s) of %s" % (pplace(r["p"]), r.get("adt", r["ty"]))
    if k in ("un",):
        return "%s %s" % (r["op"], pop(r["o"]))
    if k == "bin":
        return "%s %s %s" % (pop(r["a"]), r["op"], pop(r["b"]))
    if k in ("copyderef", "rawptr"):
        return "%s %s" % (k, pplace(r["p"]))
    return k + " " + r.get("dbg", "")[:60]


def dump(f, stage="pre", out=sys.stdout):
    b = f[stage]
    out.write("fn %s  [%s] %s\n" % (f["def"], f["kind"], f["loc"]))
    for i, l in enumerate(b["locals"]):
        out.write("   let _%d: %s %s\n" % (i, l["ty"][:140], ("// " + l["name"]) if "name" in l else ""))
    for i, blk in enumerate(b["blocks"]):
        out.write(" bb%d%s:\n" % (i, " (cleanup)" if blk["c"] else ""))
        for st in blk["s"]:
            if st["k"] == "assign":
                out.write("     %s = %s\n" % (pplace(st["p"]), prv(st["r"])))
            else:
                out.write("     %s\n" % st["k"])
        t = blk["t"]
        k = t["k"]
        if k == "call":
            out.write("     %s = CALL %s%s(%s) -> bb%s unwind %s   @%s\n" % (pplace(t["dest"]), t["callee"], (" {" + t["resolved"] + "}") if "resolved" in t else "", ", ".join(pop(a) for a in t["args"]), t["target"], t["unwind"], t["l"]))
        elif k == "switch":
            out.write("     SWITCH %s %s else bb%s\n" % (pop(t["o"]), t["targets"], t["otherwise"]))
        elif k == "yield":
            out.write("     YIELD resume bb%s drop %s\n" % (t["resume"], t["drop"]))
        elif k == "drop":
            out.write("     DROP %s : %s -> bb%s unwind %s\n" % (pplace(t["p"]), t["ty"][:80], t["target"], t["unwind"]))
        elif k == "goto":
            out.write("     GOTO bb%s\n" % t["target"])
        else:
            out.write("     %s\n" % k.upper())


if __name__ == "__main__":
    fx = load(sys.argv[1])
    for name in sys.argv[2:]:
        for f in fx.d["fns"]:
            if name in f["def"]:
                dump(f)
                if "post" in f and os.environ.get("POST"):
                    dump(f, "post")
