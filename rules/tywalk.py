"""Resolve the type along a place's projection far enough to recognise accesses to fields of crate-local ADTs."""
import re


def strip_ref(t):
    for p in ("&mut ", "&"):
        if t.startswith(p):
            return t[len(p):]
    m = re.match(r"^alloc::boxed::Box<(.*), alloc::alloc::Global>$", t)
    if m:
        return m.group(1)
    m = re.match(r"^core::pin::Pin<(.*)>$", t)
    if m:
        return strip_ref(m.group(1))
    return t


def adt_name(t):
    m = re.match(r"^([A-Za-z_][A-Za-z0-9_:]*)(<.*>)?$", t)
    return m.group(1) if m else None


def field_accesses(fx, f, body, adt_def):
    """all places in `body` that project into a field of `adt_def`: yields (bb, where, field_name, place)"""
    adt = fx.adts.get(adt_def)
    if adt is None:
        return
    fields = [fl["name"] for fl in adt["variants"][0]["fields"]]
    upvars = f.get("upvars") or []

    def walk(place):
        cur = body.locals[place[0]]["ty"]
        for i, e in enumerate(place[1:]):
            if e == "*":
                cur = strip_ref(cur)
                continue
            if not e.startswith("f"):
                return
            idx = int(e[1:]) if e[1:].isdigit() else None
            if idx is None:
                return
            base = cur
            # look through references implicitly (MIR always has explicit derefs, but be lenient)
            name = adt_name(base)
            if name == adt_def:
                if idx < len(fields):
                    yield fields[idx]
                fl = adt["variants"][0]["fields"][idx] if idx < len(fields) else None
                cur = fl["ty"] if fl else "?"
                continue
            if base.startswith("{coroutine:") or base.startswith("{closure:"):
                cur = upvars[idx] if (place[0] == 1 and idx < len(upvars)) else "?"
                continue
            a = fx.adts.get(name) if name else None
            if a and len(a["variants"]) == 1 and idx < len(a["variants"][0]["fields"]):
                cur = a["variants"][0]["fields"][idx]["ty"]
                continue
            return

    from mir import rvalue_places, term_places
    for bi, blk in enumerate(body.blocks):
        for st in blk["s"]:
            if st["k"] != "assign":
                continue
            for p in [st["p"]] + rvalue_places(st["r"]):
                for name in walk(p):
                    yield bi, "stmt", name, p
        t = blk["t"]
        ps = term_places(t)
        if t["k"] == "call":
            ps = ps + [t["dest"]]
        for p in ps:
            for name in walk(p):
                yield bi, "term", name, p
