"""Vocabulary of the channel layer: constructors, submit closures, enqueue calls."""
import graph
from mir import Body

MPSC_CTORS = ("futures_channel::mpsc::channel", "futures_channel::mpsc::unbounded")
FORCE_TRAIT = "channel::ForceTxFn"
TX_TRAIT = "channel::TxFn"
PAYLOAD = "environment::payload::Payload"


def is_payload_channel_ctor(t):
    return (t.get("callee") in MPSC_CTORS) and any(PAYLOAD + "<" in g for g in t.get("gargs", []))


def constructors(fx):
    """functions creating the mailbox queue: {fn def: [(bb, term)]}"""
    out = {}
    for f, bi, t in graph.all_calls(fx, is_payload_channel_ctor):
        out.setdefault(f["def"], []).append((bi, t))
    return out


def is_enqueue(t):
    c = t.get("callee") or ""
    if not ("mpsc::" in c or c.startswith("futures_util::sink::SinkExt::") or c.startswith("futures_sink::Sink::")):
        return False
    if not c.endswith(("::start_send", "::try_send", "::unbounded_send", "SinkExt::send", "SinkExt::feed", "::do_send_b", "::do_send_nb")):
        return False
    tys = " ".join(t.get("argtys", []))
    return PAYLOAD + "<" in tys


def submit_closures(fx):
    """(kind, closure fn) for the closures behind dyn TxFn / dyn ForceTxFn / the receive closure"""
    out = []
    for key, ent in fx.dyn.items():
        kind = None
        if key.startswith("dyn channel::TxFn<"):
            kind = "waiting"
        elif key.startswith("dyn channel::ForceTxFn<"):
            kind = "forcing"
        elif key.startswith("dyn core::ops::function::FnMut<(&mut core::task::wake::Context,)>") and "[Output=core::task::poll::Poll<core::option::Option<" + PAYLOAD + "<" in key:
            kind = "receive"
        if kind:
            seen = set()
            for s in ent["sources"]:
                if s["def"] in seen:  # one closure may be listed once per instantiation of its enclosing generic function
                    continue
                seen.add(s["def"])
                f = fx.fn(s["def"])
                if f is None and s.get("kind") == "adt" and kind in ("waiting", "forcing"):
                    # a named type standing in for the closure: `struct BoundedForceTx(Sender); impl ForceTxFn for ..`;
                    # its `send` method is the closure body, its fields are the captures
                    f = adt_submit_object(fx, s["def"], TX_TRAIT if kind == "waiting" else FORCE_TRAIT)
                out.append((kind, f, key))
    return out


def adt_submit_object(fx, adt, trait):
    for g in fx.d["fns"]:
        if g.get("impl_trait_def") == trait and (g.get("impl_self") or "").split("<")[0] == adt and g["def"].endswith("::send") and g["kind"] == "assoc_fn":
            a = fx.adts.get(adt)
            fields = [fl["ty"] for fl in a["variants"][0]["fields"]] if a and len(a["variants"]) == 1 else []
            return dict(g, upvars=fields, _adt=adt)
    return None


def closure_instances(fx, cdef):
    """capture types of each known instantiation of a submit / receive closure: [[type, ...], ...]. A closure written in a
    generic helper (`waiting_tx<A, S: Sink<..>>`) appears once per call site of that helper with its parameters
    instantiated (hfacts), besides the generic form."""
    out = []
    for _key, ent in fx.dyn.items():
        for s in ent["sources"]:
            if s.get("def") == cdef and "|" in (s.get("full") or ""):
                caps = _split_top(s["full"].split("|", 1)[1])
                if caps not in out:
                    out.append(caps)
    return out


def _split_top(s):
    out, depth, cur = [], 0, ""
    for ch in s:
        if ch in "<([{":
            depth += 1
        elif ch in ">)]}":
            depth -= 1
        if ch == "," and depth == 0:
            out.append(cur.strip())
            cur = ""
        else:
            cur += ch
    if cur.strip():
        out.append(cur.strip())
    return out


def concrete_instances(fx, cf):
    """instances whose captures mention no bare type parameter of the enclosing function; falls back to the closure's own
    capture list when it is not generic"""
    gen = set((fx.fn(cf.get("root", cf["def"])) or {}).get("generics") or [])
    if cf.get("_adt"):
        # a generic named submit object (`struct SinkTx<S>(S)`): one instance per type it is erased from, its field types
        # with the parameters replaced by the arguments of that instantiation
        a = fx.adts.get(cf["_adt"]) or {}
        aty = a.get("ty") or ""
        params = _split_top(aty[aty.index("<") + 1:aty.rindex(">")]) if "<" in aty else []
        inst = []
        for _key, ent in fx.dyn.items():
            for s in ent["sources"]:
                if s.get("kind") == "adt" and s.get("def") == cf["_adt"] and "<" in (s.get("full") or s.get("ty") or ""):
                    full = s.get("full") or s["ty"]
                    args = _split_top(full[full.index("<") + 1:full.rindex(">")])
                    fields = list(cf.get("upvars", []))
                    names = params if params else sorted({f_ for f_ in fields if f_ in gen} | {f_ for f_ in fields if len(f_) <= 2 and f_.isupper()})
                    m = {n: args[i] for i, n in enumerate(names) if i < len(args)}
                    caps = [m.get(f_, f_) for f_ in fields]
                    if caps not in inst and not any(c in gen for c in caps):
                        inst.append(caps)
        if inst:
            return inst
    inst = [caps for caps in closure_instances(fx, cf["def"]) if not any(c in gen for c in caps)]
    return inst or [list(cf.get("upvars", []))]


def instance_bodies(ctx, fx, cf):
    """[(capture types, Body)] — one view of a submit / receive closure per instantiation: a closure written in a generic
    helper (`assemble<T: RawTx<A>, R>`) is looked at with its type parameters replaced by what each constructor passes, the
    trait methods it calls on them resolved to the implementation for that type, and crate-private helpers inlined"""
    import inline
    gen = list((fx.fn(cf.get("root", cf["def"])) or {}).get("generics") or [])
    ups = list(cf.get("upvars", []))
    out = []
    for caps in concrete_instances(fx, cf):
        sub = {}
        for u, c in zip(ups, caps):
            if u in gen and u != c:
                sub[u] = c
        out.append((caps, inline.body(ctx, fx, cf, inline.not_public, sub=sub or None) if (sub or not cf.get("_adt")) else ctx.body(fx, cf)))
    return out
