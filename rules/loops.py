"""Vocabulary shared by the path rules: the event-loop coroutines, their alphabet and the lifecycle monitor."""
import nfa
from nfa import Alphabet, Spec, Err, trait_method, callee_is, callee_ends
from mir import Body

T_ACTOR = "actor::Actor"
T_SH = "handler::StreamHandler"
T_H = "handler::Handler"
T_RS = "actor::restart_strategy::RestartStrategy"
PAYLOAD = "environment::payload::Payload"


DEQUEUE_SUFFIX = ("StreamExt::next", "StreamExt::select_next_some", "StreamExt::poll_next_unpin", "Stream::poll_next", "StreamExt::try_next", "::try_next", "::try_recv")


def is_mailbox_next(t):
    c = t.get("callee") or ""
    if not c.endswith(DEQUEUE_SUFFIX):
        return False
    tys = " ".join(t.get("argtys", [])) + " ".join(t.get("gargs", []))
    return PAYLOAD + "<" in tys


def mailbox_rx_captures(fx, f):
    """indices of the captures of closure / coroutine f through which it owns the receiving end of a mailbox queue
    (`mpsc::Receiver<Payload<A>>` / `UnboundedReceiver<..>`), whatever it is wrapped in (a poll_fn closure, a boxed
    `dyn Stream`, a newtype): read off the extractor's ownership closure of the coroutine"""
    import re as _re
    out = set()
    for o in fx.owns:
        if o["def"] != f["def"]:
            continue
        for a in o["atoms"]:
            if _re.match(r"futures_channel::mpsc::(Unbounded)?Receiver<" + _re.escape(PAYLOAD) + "<", a["ty"]):
                for pth in a["paths"]:
                    m = _re.search(r"\]\.cap(\d+)", pth)
                    if m:
                        out.add(int(m.group(1)))
    return sorted(out)


def is_stream_next(t):
    c = t.get("callee") or ""
    return c.endswith(DEQUEUE_SUFFIX) and not is_mailbox_next(t)


_TASK_TRAIT = [None]  # (trait def, method) when Payload::Task holds a boxed crate-local trait object (bound per facts)


def bind(fx):
    """facts of the configuration being checked: lets the pure call predicates know the crate-local vocabulary"""
    _TASK_TRAIT[0] = task_trait(fx)


def task_trait(fx):
    """(trait, method) if the task of a Payload::Task is a `Box<dyn LocalTrait<A>>` whose every implementation does nothing
    but call the closure it is implemented for with the (actor, ctx) it is given — `trait Task<A> { fn run(self: Box<Self>,
    &mut A, &mut Context<A>) -> TaskFuture }` with a blanket impl for the old closure type; None otherwise"""
    cache = fx.__dict__.setdefault("_task_trait", {})
    if "v" in cache:
        return cache["v"]
    cache["v"] = None
    import re as _re
    pa = fx.adts.get(PAYLOAD)
    task = [v for v in (pa or {}).get("variants", []) if v["name"] == "Task"]
    ty = task[0]["fields"][0]["ty"] if task and task[0]["fields"] else ""
    for _ in range(3):
        inner = fx.adts.get(ty.split("<")[0])
        if inner and len(inner["variants"]) == 1 and len(inner["variants"][0]["fields"]) == 1:
            ty = inner["variants"][0]["fields"][0]["ty"]
        else:
            break
    m = _re.match(r"alloc::boxed::Box<dyn ([\w:]+)<", ty)
    if not m or m.group(1) not in {tr["def"] for tr in fx.d["traits"]}:
        return None
    tr = m.group(1)
    impls = [g for g in fx.d["fns"] if g.get("impl_trait_def") == tr and g["kind"] == "assoc_fn"]
    names = {g["def"].split("::")[-1] for g in impls}
    if not impls or len(names) != 1:
        return None
    for g in impls:
        gb = Body(g)
        calls = [(bi, ct) for bi, ct in gb.normal_calls()]
        inv = [(bi, ct) for bi, ct in calls if (ct.get("callee") or "").endswith(("FnOnce::call_once", "FnMut::call_mut", "Fn::call"))]
        if len(inv) != 1 or len(calls) != 1 or len(inv[0][1]["args"]) != 2:
            return None
        bi, ct = inv[0]
        recv = gb.origins(ct["args"][0])
        if not (recv and all(o.kind == "arg" and o.site == 1 for o in recv)):
            return None
        sites = []
        for j in (0, 1):
            a = ct["args"][1]
            if a.get("k") not in ("move", "copy"):
                return None
            os_ = gb.origins(list(a["p"]) + ["f%d" % j])
            if not (os_ and all(o.kind == "arg" and all(e == "*" for e in o.proj) for o in os_) and len({o.site for o in os_}) == 1):
                return None
            sites.append(next(iter(os_)).site)
        if sites != [2, 3]:
            return None
        ret = gb.origins([0])
        if not (ret and all(o.kind == "call" and o.site == (bi,) and not o.proj for o in ret)):
            return None
    cache["v"] = (tr, next(iter(names)))
    return cache["v"]


def is_task_invoke(t):
    """FnOnce::call_once on the boxed task of a Payload::Task (or the forwarding method of the crate-local task trait)"""
    c = t.get("callee") or ""
    tt = _TASK_TRAIT[0]
    if tt and t.get("trait") == tt[0] and c.endswith("::" + tt[1]) and "dyn " + tt[0] in " ".join(t.get("argtys", [])[:1]):
        return True
    if not (c.endswith("FnOnce::call_once") or c.endswith("FnMut::call_mut") or c.endswith("Fn::call")):
        return False
    tys = " ".join(t.get("argtys", []))
    return "<(&mut A, &mut context::Context<A>)>" in tys and "dyn core::ops::function::Fn" in tys


def task_invokes(fx, b):
    """(bb, call, passes the loop's (&mut actor, &mut ctx)) for every invocation of a dequeued task in body b: the boxed
    FnOnce called directly, or through a crate-local forwarding method (`Task::run(self, actor, ctx)`)"""
    out = []
    A = Alphabet(calls=[("task", is_task_invoke)])
    for bi, t in b.normal_calls():
        if is_task_invoke(t):
            out.append((bi, t, t["argtys"][1:] in (["(&mut A, &mut context::Context<A>)"], ["&mut A", "&mut context::Context<A>"])))
        elif t.get("callee_local") and t.get("callee") and A.wrapper_label(fx, t.get("resolved") or t["callee"]) == "task":
            out.append((bi, t, t["argtys"][1:] == ["&mut A", "&mut context::Context<A>"]))
    return out


def local_wrapper(t):
    """crate-local free async fn taking a future (the timeout wrapper) — identified by shape, not by name"""
    # (an argument that *is* a future — not one that merely mentions a future type somewhere, like the boxed task closure)
    def is_future(a):
        return a.startswith("core::pin::Pin<alloc::boxed::Box<dyn core::future::future::Future") or a.startswith("impl Future") or a.startswith("impl core::future::future::Future")
    return bool(t.get("callee_local")) and t.get("callee") and "impl{" in (t.get("destty") or "") and any(is_future(a) for a in t.get("argtys", []))


def lifecycle_alphabet():
    a = _lifecycle_alphabet()
    # select!'s private result enum lives inside the loop coroutine: variants _0, _1, ..., Complete
    a.adt_fn = lambda adt: "Sel" if adt.endswith("::__PrivResult") else None
    return a


def _lifecycle_alphabet():
    return Alphabet(
        calls=[
            ("started", trait_method(T_ACTOR, "started")),
            ("stopped", trait_method(T_ACTOR, "stopped")),
            ("finished", trait_method(T_SH, "finished")),
            ("shandle", trait_method(T_SH, "handle")),
            ("refresh", trait_method(T_RS, "refresh")),
            ("notify", callee_is("context::StopNotifier::notify")),
            ("next", is_mailbox_next),
            ("snext", is_stream_next),
            ("task", is_task_invoke),
            ("wrap", local_wrapper),
            ("default", callee_ends("default::Default::default")),
            ("abort_tasks", lambda t: False),  # filled in by C07
        ],
        adts={
            PAYLOAD: "Payload",
            "core::option::Option": "Option",
            "core::ops::control_flow::ControlFlow": "Res",
            "core::result::Result": "Res",
        },
        retval=True,
        type_tags=[("Option<" + PAYLOAD + "<", "mailbox"), ("as futures_core::stream::Stream>::Item>", "stream")],
    )


def loop_family(fx, f, depth=2):
    """the code of a loop: its coroutine, the closures nested in it, and the crate-local helper functions it calls or awaits
    (with their nested closures) — `next_incoming(&mut mailbox, &mut stream).await` is part of the loop"""
    out = [f] + fx.descendants(f["def"])
    if depth <= 0:
        return out
    for g in list(out):
        for _bi, t in Body(g).normal_calls():
            h = fx.callee_fn(t)
            if h is None or h["kind"] not in ("fn", "assoc_fn") or h.get("impl_trait"):
                continue
            if h.get("is_async"):
                for c in fx.children_of(h["def"]):
                    if c["kind"] == "coroutine" and c not in out:
                        out.extend(x for x in loop_family(fx, c, depth - 1) if x not in out)
            elif h not in out:
                out.extend(x for x in loop_family(fx, h, depth - 1) if x not in out)
    return out


def is_actor_root(fx, b, r, actor_idx, depth=0, _seen=None):
    """does root `r` of loop body `b` denote the loop's own actor value? the captured actor itself, what refresh handed
    back, or what a crate-local async helper handed back that was given the actor (`process_payloads(actor, ..).await?`)"""
    if r.kind == "upvar" and actor_idx and r.site == actor_idx[0]:
        return True
    _seen = _seen or set()
    if r in _seen:
        return True  # `actor = helper(actor, ..).await?`: the value flows round the loop
    if r.kind != "await" or depth > 3:
        return False
    _seen = _seen | {r}
    for _x, ct in b.awaited_calls(r.site[0]):
        if trait_method(T_RS, "refresh")(ct):
            return True
        h = fx.callee_fn(ct)
        hco = [c for c in fx.children_of(h["def"]) if c["kind"] == "coroutine"] if (h is not None and h.get("is_async")) else []
        rty = Body(hco[0]).locals[0]["ty"] if len(hco) == 1 else ""
        if h is not None and h.get("is_async") and ("<A," in rty or rty == "A") and ct.get("args"):
            from props.c15 import roots as _roots
            for a in ct["args"]:
                if a.get("k") in ("move", "copy") and b.locals[a["p"][0]]["ty"] == "A":
                    if all(is_actor_root(fx, b, r2, actor_idx, depth + 1, _seen) for r2 in _roots(b, a)):
                        return True
    return False


def find_loops(fx):
    """loop coroutines: call Actor::started and (themselves, in nested closures or in local helpers) dequeue from the mailbox"""
    cache = fx.__dict__.setdefault("_find_loops", {})
    if "v" in cache:
        return list(cache["v"])
    def running_family(f, depth=2):
        """what runs as part of coroutine f: its nested closures, the bodies of the crate-local async fns it awaits, the
        synchronous helpers it calls — but not coroutines that a synchronous helper merely *creates* (`create_loop` builds
        the loop future, it does not run it)"""
        out_ = [f] + [d for d in fx.descendants(f["def"])]
        if depth <= 0:
            return out_
        for g in list(out_):
            for _bi, t in Body(g).normal_calls():
                h = fx.callee_fn(t)
                if h is None or h["kind"] not in ("fn", "assoc_fn") or h.get("impl_trait"):
                    continue
                if h.get("is_async"):
                    for c in fx.children_of(h["def"]):
                        if c["kind"] == "coroutine" and c not in out_:
                            out_.extend(x for x in running_family(c, depth - 1) if x not in out_)
                elif h not in out_:
                    out_.append(h)
                    out_.extend(d for d in fx.descendants(h["def"]) if d["kind"] == "closure" and d not in out_)
        return out_
    cands = []
    for f in fx.d["fns"]:
        if f["kind"] != "coroutine":
            continue
        bodies = running_family(f)
        calls = [t for g in bodies for _, t in Body(g).normal_calls()]
        # started, the dequeue and (for a stream loop) the item handler may each sit in a helper the loop awaits
        if not any(trait_method(T_ACTOR, "started")(t) for t in calls) or not any(is_mailbox_next(t) for t in calls):
            continue
        is_stream = any(trait_method(T_SH, "handle")(t) for t in calls)
        cands.append((f, "stream" if is_stream else "plain", {g["def"] for g in bodies}))
    # the loop is the outermost such coroutine (a helper that contains both is part of the loop that awaits it)
    out = [(f, k) for f, k, _fam in cands if not any(f["def"] in fam2 and f2 is not f for f2, _k2, fam2 in cands)]
    cache["v"] = out
    return list(out)


def payload_ctors(fx):
    """functions that make a Payload::Task and hand it back: `Payload::task` itself and constructors layered on it
    (`Payload::deliver(msg) = Self::task(..)`); their call sites are where payloads come into being"""
    out = {"environment::payload::Payload::<A>::task"}
    changed = True
    while changed:
        changed = False
        for f in fx.d["fns"]:
            if f["def"] in out or f["kind"] not in ("fn", "assoc_fn") or f.get("is_async") or not (f.get("output") or "").startswith(PAYLOAD + "<"):
                continue
            b = Body(f)
            os_ = b.origins([0])
            if os_ and all(o.kind == "call" and not o.proj and (b.call_at(o).get("resolved") or b.call_at(o).get("callee")) in out for o in os_):
                out.add(f["def"])
                changed = True
    return out


def payload_pair_ctors(fx):
    """{def: field} — crate-local functions that build a payload and hand it back as field k of a tuple, next to something
    else (`fn responding_task(msg) -> (Payload<A>, oneshot::Receiver<R>)`): their call sites are where that payload comes
    into being, in `result.<field>`"""
    pc = payload_ctors(fx)
    out = {}
    for f in fx.d["fns"]:
        if f["kind"] not in ("fn", "assoc_fn") or f.get("is_async") or f["def"] in pc or not (f.get("output") or "").startswith("(") or PAYLOAD + "<" not in (f.get("output") or ""):
            continue
        b = Body(f)
        for blk in b.blocks:
            for st in blk["s"] if not blk["c"] else []:
                if st["k"] == "assign" and st["p"] == [0] and st["r"]["k"] == "agg" and st["r"].get("ak") == "tuple":
                    for k, op in enumerate(st["r"]["ops"]):
                        os_ = b.origins(op) if op.get("k") in ("move", "copy") else set()
                        if os_ and all(o.kind == "call" and not o.proj and (b.call_at(o).get("resolved") or b.call_at(o).get("callee")) in pc for o in os_):
                            out[f["def"]] = "f%d" % k
    return out


def pair_helpers(fx):
    """crate-local synchronous functions that return the (loop future, address) pair of a create_loop* call unchanged
    (a builder's private `into_event_loop`): {def: maker def}"""
    makers = {f["parent"] for f, _k in find_loops(fx)}
    out = {}
    for f in fx.d["fns"]:
        if f["kind"] not in ("fn", "assoc_fn") or f.get("is_async") or f["def"] in makers:
            continue
        b = Body(f)
        os_ = b.origins([0])
        if os_ and all(o.kind == "call" and not o.proj and (b.call_at(o).get("resolved") or b.call_at(o).get("callee")) in makers for o in os_):
            out[f["def"]] = sorted({(b.call_at(o).get("resolved") or b.call_at(o).get("callee")) for o in os_})[0]
    return out


def closed_as_stop_sites(fx):
    """[(fn record, bb, literal statement)]: `dequeued.unwrap_or(Payload::Stop)` / `unwrap_or_else(|| Payload::Stop)` inside an
    event loop — the loop reads a closed mailbox (None from the dequeue) as a stop request. The Stop literal there is the
    receiving side's own default, not a submission."""
    out = []
    for f, _k in find_loops(fx):
        for g in loop_family(fx, f):
            b = Body(g)
            for bi, t in b.normal_calls():
                c = t.get("callee") or ""
                if not (c.startswith("core::option::") and c.endswith(("::unwrap_or", "::unwrap_or_else"))):
                    continue
                if "Option<" + PAYLOAD + "<" not in (t.get("argtys") or [""])[0]:
                    continue
                for o in b.origins(t["args"][1]):
                    if o.kind == "agg" and not o.proj:
                        st = b.blocks[o.site[0]]["s"][o.site[1]]
                        if st["r"].get("def") == PAYLOAD and st["r"].get("variant") == "Stop":
                            out.append((g, bi, st))
                        elif st["r"].get("ak") == "closure":
                            cl = fx.fn(st["r"].get("def") or "")
                            if cl is not None:
                                cb = Body(cl)
                                ro = cb.origins([0])
                                if ro and all(x.kind == "agg" and cb.blocks[x.site[0]]["s"][x.site[1]]["r"].get("variant") == "Stop" for x in ro):
                                    out.append((g, bi, st))
    return out


def maker_params(fx, what="actor", kinds=None):
    """{loop constructor def: (argument index, field path)}: where the constructor of each event loop receives the actor
    (the value `started` is called on in the loop) or the attached stream — read off the loop coroutine's captures, so a
    constructor `EventLoop::run(self)` whose actor is a field of `self` is described as (0, (f0,))"""
    from props.c15 import roots
    out = {}
    for f, k in find_loops(fx):
        if kinds and k not in kinds:
            continue
        import inline
        b = Body(inline.inlined(fx, f, inline.not_public))  # `start_actor(&mut actor, ctx).await` calls started for the loop
        ups = set()
        if what == "actor":
            for _bi, t in b.normal_calls():
                if t.get("trait") == T_ACTOR and (t.get("callee") or "").endswith("::started") and t["args"]:
                    ups |= {(o.site, tuple(o.proj)) for o in roots(b, t["args"][0]) if o.kind == "upvar"}
        else:
            for i, u in enumerate(f.get("upvars", [])):
                if u in ("S", "T"):
                    ups.add((i, ()))
        parent = fx.fn(f["parent"])
        if parent is None or len(ups) != 1:
            continue
        (k_up, up_proj) = next(iter(ups))
        pb = Body(parent)
        for blk in pb.blocks:
            for st in blk["s"] if not blk["c"] else []:
                if st["k"] == "assign" and st["r"]["k"] == "agg" and st["r"].get("ak") == "coroutine" and st["r"].get("def") == f["def"] and k_up < len(st["r"]["ops"]):
                    os_ = pb.origins(st["r"]["ops"][k_up])
                    if os_ and all(o.kind == "arg" for o in os_) and len({(o.site, tuple(o.proj)) for o in os_}) == 1:
                        o = next(iter(os_))
                        out[parent["def"]] = (o.site - 1, tuple(o.proj) + tuple(up_proj))
    return out


def launch_helpers(fx):
    """crate-local synchronous functions that create the loop for the actor they are given, spawn that loop and return
    the pair (address, handle) — `Environment::launch::<S>(self, actor)`: {def: {"actor": arg index, "addr": "fN"}}.
    Functions that return such a helper's result unchanged, handing over their own parameter, are helpers too."""
    from props.c15 import roots
    makers = {f["parent"] for f, _k in find_loops(fx)}
    out = {}
    changed = True
    rounds = 0
    while changed and rounds < 3:
        changed = False
        rounds += 1
        for f in fx.d["fns"]:
            if f["kind"] not in ("fn", "assoc_fn") or f.get("is_async") or f["def"] in makers or f["def"] in out:
                continue
            b = Body(f)
            os_ = b.origins([0])
            if len(os_) != 1:
                continue
            o = next(iter(os_))
            if o.kind == "call" and not o.proj:
                t = b.call_at(o)
                h = out.get(t.get("resolved")) or out.get(t.get("callee"))
                if h is not None and h["actor"] < len(t["args"]):
                    rs = roots(b, t["args"][h["actor"]])
                    if rs and all(r.kind == "arg" and not r.proj for r in rs) and len({r.site for r in rs}) == 1:
                        out[f["def"]] = {"actor": next(iter(rs)).site - 1, "addr": h["addr"]}
                        changed = True
                continue
            if o.kind != "agg" or o.proj:
                continue
            st = b.blocks[o.site[0]]["s"][o.site[1]]
            if st["r"].get("ak") != "tuple" or len(st["r"]["ops"]) != 2:
                continue
            mk = [(bi, t) for bi, t in b.normal_calls() if (t.get("resolved") or t.get("callee")) in makers or t.get("callee") in makers]
            sp = [(bi, t) for bi, t in b.normal_calls() if t.get("trait") == "actor::spawner::Spawner" and (t.get("callee") or "").endswith("::spawn_actor")]
            if len(mk) != 1 or len(sp) != 1:
                continue
            (mbi, mt), (sbi, stt) = mk[0], sp[0]
            lo = b.origins(stt["args"][0])
            if not (lo and all(x.kind == "call" and x.site == (mbi,) and x.proj[:1] == ("f0",) for x in lo)):
                continue
            addr_f = None
            handle_ok = False
            for i, op in enumerate(st["r"]["ops"]):
                xs = b.origins(op)
                if xs and all(x.kind == "call" and x.site == (mbi,) and x.proj[:1] == ("f1",) for x in xs):
                    addr_f = "f%d" % i
                elif xs and all(x.kind == "call" and x.site == (sbi,) and not x.proj for x in xs):
                    handle_ok = True
            rs = roots(b, mt["args"][1]) if len(mt["args"]) > 1 else set()
            if addr_f and handle_ok and rs and all(r.kind == "arg" and not r.proj for r in rs) and len({r.site for r in rs}) == 1:
                out[f["def"]] = {"actor": next(iter(rs)).site - 1, "addr": addr_f}
                changed = True
    return out


def find_refresh(fx):
    """bodies of the RestartStrategy::refresh impls (async fn -> the child coroutine holds the code)"""
    out = []
    for f in fx.d["fns"]:
        if f["kind"] == "assoc_fn" and f.get("impl_trait_def") == T_RS and f["def"].endswith("::refresh"):
            kids = [c for c in fx.children_of(f["def"]) if c["kind"] == "coroutine"]
            strat = f.get("impl_self")
            out.append((strat, f, kids[0] if kids else None))
    return out


# -------------------------------------------------------------------------------------------------
def is_ping_payload(fx, closure_def):
    """the payload closure of a ping: it carries no message — all it captures is the one-shot sender for a unit answer
    (whatever function builds it: `Addr::ping`, a synchronous `enqueue_ping` in front of it, ...)"""
    f = fx.fn(closure_def) or {}
    for _ in range(3):
        if f.get("kind") == "closure" and f.get("upvars") == ["futures_channel::oneshot::Sender<()>"]:
            return True
        f = fx.fn(f.get("parent") or "") or {}
    return False


def norm(label):
    """Result / ControlFlow are the same thing for the monitor: Ok~Continue, Err~Break"""
    return label.replace("Res::Continue", "Res::Ok").replace("Res::Break", "Res::Err")


class Lifecycle(Spec):
    """Monitor for the incarnation protocol of an event loop.

    state = (phase, inflight, pending, fin)
      phase: pre | starting | startres | run | stopping | stoppedc | stopped | notified | okret | failed
      inflight: None | 'task' | 'wrap' | 'shandle'   a handler future exists and is not finished
      pending: None | 'Task' | 'Restart' | 'refreshres'  a dequeued payload not yet dispatched
      fin: 0 none | 1 finished called | 2 finished done       (stream loops)
    `checks` selects which rule families raise errors (all are tracked)."""

    def __init__(self, stream, checks=None):
        self.stream = stream
        self.checks = checks
        self.init = ("pre", None, None, 0, False)

    def err(self, cid, msg):
        if self.checks is None or cid in self.checks or (cid.startswith("L11") and "L11" in self.checks):
            return Err("%s: %s" % (cid, msg))
        return None

    def step(self, st, label):
        phase, inflight, pending, fin, draining = st
        label = norm(label)
        ev = label.split("@")[0]
        src = label.split("@")[1] if "@" in label else ""
        e = None

        def S(**kw):
            d = dict(phase=phase, inflight=inflight, pending=pending, fin=fin, draining=draining)
            d.update(kw)
            return (d["phase"], d["inflight"], d["pending"], d["fin"], d["draining"])

        if ev in ("unwind", "cancel"):
            return st
        if ev.startswith("pend:"):
            return st
        # nothing may follow a failure or a completed shutdown
        if phase == "failed" and ev.startswith(("call:", "done:")) and ev not in ("call:default",):
            return self.err("L3", "lifecycle event %s after the actor was marked failed" % ev) or st
        if phase in ("notified", "okret") and ev.startswith(("call:", "done:")):
            return self.err("L6", "event %s after the termination was announced" % ev) or st

        if ev == "call:started":
            if phase != "pre":
                return self.err("L1", "started called again (phase %s)" % phase) or st
            return S(phase="starting")
        if ev == "done:started":
            if phase != "starting":
                return self.err("L1", "done:started in phase %s" % phase) or st
            return S(phase="startres")
        if ev in ("sw:Res::Ok", "sw:Res::Err") and src == "started":
            if phase == "startres":
                return S(phase="run") if ev.endswith("Ok") else S(phase="failed")
            return st
        if ev in ("sw:Res::Ok", "sw:Res::Err") and src == "refresh":
            if pending == "refreshres":
                return S(pending="restarted") if ev.endswith("Ok") else S(phase="failed", pending=None)
            return st
        if ev in ("sw:Res::Ok", "sw:Res::Err") and src in ("wrap", "task"):
            return st

        running_needed = ("call:next", "call:snext", "call:task", "call:shandle", "call:refresh", "call:wrap", "call:finished", "call:stopped")
        if ev in running_needed and phase in ("pre", "starting", "startres"):
            return self.err("L2", "%s before started() completed successfully (phase %s)" % (ev, phase)) or st

        if pending == "restarted":
            if ev in ("call:next", "call:snext"):
                pending = None
                st = (phase, inflight, None, fin, draining)
            elif ev in ("call:stopped", "call:finished", "call:notify", "ret") or ev.startswith("retval:"):
                e14 = self.err("L14", "after a successful restart the loop does not carry on with the next message (%s)" % ev)
                if e14:
                    return e14
                pending = None
                st = (phase, inflight, None, fin, draining)
        if ev in ("call:next", "call:snext"):
            if phase != "run":
                return self.err("L4", "dequeue after shutdown began (phase %s)" % phase) or st
            if inflight:
                return self.err("L7", "dequeue while a handler future is still in flight (%s)" % inflight) or st
            if pending:
                return self.err("L8" if pending in ("Task", "Item") else "L10", "next dequeue although the dequeued %s was not dispatched" % pending) or st
            if draining:
                return self.err("L9", "dequeue after Stop / closed mailbox was taken out") or st
            return st
        if ev == "done:next":
            return st
        if ev.startswith("sw:Option::") and src in ("next", "mailbox"):
            if ev.endswith("None"):
                return S(draining=True)
            return st
        if ev.startswith("sw:Option::") and src in ("snext", "stream"):
            if ev.endswith("None"):
                return S(draining=True)
            return S(pending="Item")
        if ev == "sw:Sel::Complete":
            return S(draining=True)
        if ev.startswith("sw:Payload::"):
            v = ev.split("::")[-1]
            if v == "Task":
                return S(pending="Task")
            if v == "Restart":
                return S(pending="Restart")
            if v == "Stop":
                return S(draining=True)
            return st
        if ev == "call:task":
            if phase != "run" or draining:
                return self.err("L9", "handler invoked after Stop / shutdown began") or st
            if pending != "Task":
                return self.err("L8", "task invoked without a freshly dequeued Task payload (twice?)") or st
            if inflight:
                return self.err("L7", "second handler future while one is in flight") or st
            return S(pending=None, inflight="task")
        if ev == "call:wrap":
            if inflight == "task":
                return S(inflight="wrap")
            return st
        if ev == "done:task":
            if inflight == "task":
                return S(inflight=None)
            return st
        if ev == "done:wrap":
            if inflight == "wrap":
                return S(inflight=None)
            return st
        if ev == "call:shandle":
            if phase != "run" or draining:
                return self.err("L9", "stream item handled after Stop / shutdown began") or st
            if inflight:
                return self.err("L7", "second handler future while one is in flight") or st
            if self.stream and pending != "Item":
                return self.err("L8", "stream item handler invoked without a freshly selected item (twice?)") or st
            return S(inflight="shandle", pending=None)
        if ev == "done:shandle":
            return S(inflight=None)
        if ev == "call:refresh":
            if pending != "Restart":
                return self.err("L10", "refresh without a dequeued Restart payload") or st
            if inflight:
                return self.err("L7", "refresh while a handler future is in flight") or st
            return S(pending="refreshing")
        if ev == "done:refresh":
            if pending == "refreshing":
                return S(pending="refreshres")
            return st
        if ev in ("call:finished", "call:stopped") and phase == "run" and not draining and not (ev == "call:stopped" and fin == 2):
            e13 = self.err("L13", "the loop shuts down without a Stop request, a closed mailbox or an exhausted stream (it must keep running while handles exist)")
            if e13:
                return e13
        if ev == "call:finished":
            if inflight:
                return self.err("L7", "finished() while a handler future is in flight") or st
            if pending:
                return self.err("L8", "shutdown although the dequeued %s was not dispatched" % pending) or st
            if fin != 0:
                return self.err("L5", "finished() called twice") or st
            if phase != "run":
                return self.err("L5", "finished() in phase %s" % phase) or st
            return S(fin=1)
        if ev == "done:finished":
            return S(fin=2)
        if ev == "call:stopped":
            if inflight:
                return self.err("L7", "stopped() while a handler future is in flight") or st
            if pending:
                return self.err("L8", "shutdown although the dequeued %s was not dispatched" % pending) or st
            if phase != "run":
                return self.err("L4", "stopped() called in phase %s" % phase) or st
            if self.stream and fin != 2:
                return self.err("L5", "stopped() before finished() completed on a stream-attached actor") or st
            if not self.stream and fin != 0:
                return self.err("L5", "finished() on a plain loop") or st
            return S(phase="stoppedc")
        if ev == "done:stopped":
            if phase == "stoppedc":
                return S(phase="stopped")
            return st
        if ev == "call:notify":
            if phase != "stopped":
                return self.err("L6", "termination announced in phase %s (must follow the completed stopped())" % phase) or st
            return S(phase="notified")
        if ev == "retval:Ok":
            if phase != "notified":
                return self.err("L11a", "Ok result prepared in phase %s (must follow stopped() and the announcement)" % phase) or st
            return S(phase="okret")
        if ev in ("retval:Err", "retval:residual"):
            if phase in ("stoppedc", "stopped", "notified", "okret"):
                return self.err("L11b", "error result after the graceful shutdown sequence began") or st
            if inflight:
                return self.err("L7", "error return while a handler future is in flight") or st
            if draining:
                return self.err("L9", "Stop / closed mailbox / exhausted stream ends in an error instead of the graceful shutdown") or st
            return S(phase="failed", pending=None)
        if ev == "ret":
            if phase not in ("okret", "failed"):
                return self.err("L11c", "return in phase %s without a result path (graceful: stopped+announce; failure: error)" % phase) or st
            return st
        return st

    def at_end(self, st, how):
        return None



def env_ctors(fx):
    """the birth site of an actor and what merely forwards to it: (primary, {def: index of the Channel argument}).
    The primary is the crate function that writes the `Environment` struct literal from a `Channel<A>` it is given
    (`Environment::from_channel` on the pinned tree, whatever it is called); a function of the same type that takes a
    `Channel<A>` and hands it on to the primary (`from_channel(c)` = `from_channel_with_config(c, Default::default())`) is
    a forwarder"""
    if getattr(fx, "_env_ctors", None) is not None:
        return fx._env_ctors
    from mir import Body, agg_sites
    ENV = "environment::Environment"
    prim = []
    for f in fx.d["fns"]:
        if f["kind"] not in ("fn", "assoc_fn"):
            continue
        ins = f.get("inputs") or []
        ch = [i for i, t in enumerate(ins) if t.startswith("channel::Channel<")]
        if len(ch) != 1 or not (f.get("output") or "").startswith(ENV + "<"):
            continue
        b = Body(f)
        if any(True for _ in agg_sites(b, adt=ENV)):
            prim.append((f, ch[0]))
    out = {}
    primary = None
    if len(prim) == 1:
        primary = prim[0][0]
        out[primary["def"]] = prim[0][1]
        changed = True
        while changed:
            changed = False
            for f in fx.d["fns"]:
                if f["def"] in out or f["kind"] not in ("fn", "assoc_fn"):
                    continue
                ins = f.get("inputs") or []
                ch = [i for i, t in enumerate(ins) if t.startswith("channel::Channel<")]
                if len(ch) != 1 or not (f.get("output") or "").startswith(ENV + "<"):
                    continue
                b = Body(f)
                calls = [t for _bi, t in b.normal_calls() if (t.get("callee") in out)]
                if len(calls) == 1:
                    out[f["def"]] = ch[0]
                    changed = True
    fx._env_ctors = (primary, out)
    return fx._env_ctors
