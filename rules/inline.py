"""MIR-level inlining of crate-local helpers for the dataflow rules.

`inlined(fx, f, pred, depth)` returns a function record whose body is f's body with, at every site `pred` accepts,
  (A) a call of a crate-local synchronous function,
  (B) a call of a closure value (`FnOnce::call_once` / `FnMut::call_mut` / `Fn::call`) whose closure literal is visible
      in the (already inlined) body, and
  (C) an await of a crate-local `async fn` (the poll of the future it returned)
replaced by the callee's blocks: its locals are renumbered behind the caller's, its parameters (captures) are assigned
from the arguments at the call site, its returns assign the call's destination and continue at the call's target.
The result is an ordinary body: `Body.origins`, `roots`, `chain`, `sinks` see through the helper as if its text had
been written in place (the value analyses are flow-insensitive, so the awaited callee's poll loop needs no modelling).
The event automata (nfa.py) keep their own splicing, which also correlates what a callee returns with the caller's
match on it; they are built from the original bodies."""
import copy

from mir import Body

CLOSURE_CALLS = ("core::ops::function::FnOnce::call_once", "core::ops::function::FnMut::call_mut", "core::ops::function::Fn::call")
MAX_BLOCKS = 6000


def _shift_place(p, loff):
    return [p[0] + loff] + list(p[1:])


def _shift(x, loff, boff):
    """deep copy of a statement / terminator / rvalue / operand with locals and block indices moved"""
    if isinstance(x, list):
        return [_shift(e, loff, boff) for e in x]
    if not isinstance(x, dict):
        return x
    out = {}
    for k, v in x.items():
        if k in ("p", "dest", "resume_arg", "fnplace") and isinstance(v, list) and v and isinstance(v[0], int):
            out[k] = _shift_place(v, loff)
        elif k in ("target", "unwind", "resume", "drop", "otherwise", "imaginary") and isinstance(v, int) and not isinstance(v, bool):
            out[k] = v + boff
        elif k == "targets" and isinstance(v, list):
            out[k] = [[val, b + boff] for (val, b) in v]
        else:
            out[k] = _shift(v, loff, boff)
    return out


def _use(dst, operand, loc=None):
    return {"k": "assign", "p": dst, "r": {"k": "use", "o": operand}, "l": loc}


def _callee_record(fx, t):
    for key in ("resolved", "callee"):
        c = t.get(key)
        g = fx.fns.get(c) if c else None
        if g is not None and "pre" in g:
            return g
    return None


def _ready_arm(blocks, target, dest):
    """the block the poll loop continues in when the polled future is Ready: `target` computes the discriminant of the
    poll result and switches on it — an inlined callee that has returned *is* ready, so its return goes straight to that
    arm (the Pending arm would re-enter the callee: an infeasible cycle for the path-based rules)"""
    if target is None or target >= len(blocks):
        return target
    tb = blocks[target]
    sw = tb["t"]
    if sw.get("k") != "switch" or sw["o"].get("k") not in ("move", "copy"):
        return target
    dl = sw["o"]["p"]
    for st in tb["s"]:
        if st["k"] == "assign" and st["p"] == dl and st["r"]["k"] == "discr" and st["r"].get("p") == dest and st["r"].get("adt") == "core::task::poll::Poll":
            for val, b_ in sw["targets"]:
                if st["r"].get("variants", {}).get(val) == "Ready":
                    return b_
    return target


def _splice(rec, bi, callee, glue, dest, target, unwind, stack, ret_wrap=None):
    """append callee's blocks to rec; block bi gets the glue statements and a goto to the callee's entry"""
    blocks, locs = rec["blocks"], rec["locals"]
    if ret_wrap is not None:
        target = _ready_arm(blocks, target, dest)
    loff, boff = len(locs), len(blocks)
    cb = callee["pre"]
    locs.extend(cb["locals"])
    loc = blocks[bi]["t"].get("l")
    for blk in cb["blocks"]:
        nb = {"c": blk["c"], "s": _shift(blk["s"], loff, boff), "t": _shift(blk["t"], loff, boff), "_st": stack}
        k = nb["t"]["k"]
        if k == "return":
            val = {"k": "move", "p": [loff]}
            if ret_wrap is not None:
                nb["s"].append({"k": "assign", "p": dest, "r": dict(ret_wrap, ops=[val]), "l": loc})
            else:
                nb["s"].append(_use(dest, val, loc))
            nb["t"] = {"k": "goto", "target": target, "l": loc} if target is not None else {"k": "unreachable", "l": loc}
        elif k == "resume" and unwind is not None:
            nb["t"] = {"k": "goto", "target": unwind, "l": loc}
        blocks.append(nb)
    for (lhs, operand) in glue(loff):
        blocks[bi]["s"].append(_use(lhs, operand, loc))
    blocks[bi]["t"] = {"k": "goto", "target": boff, "l": loc, "inlined": callee["def"]}
    return loff, boff


def _instantiate(fx, blocks, g, t, sub=None):
    """the type arguments of the call site, substituted into the copied callee: a trait method called on one of the callee's
    type parameters (`change.apply(..)` with `change: impl TableChange<T>`) is resolved to the implementation for the
    argument type the caller passes (`<Subscribe<T> as TableChange<T>>::apply`), so that it can be inlined in turn"""
    if sub is None:
        gen = g.get("generics") or (fx.fn(g.get("root") or "") or {}).get("generics") or []
        ga = t.get("gargs") or []
        if not gen or len(ga) < len(gen):
            return
        # an inherent / trait method's generics are listed after those of its impl: align from the end
        sub = {gen[i]: ga[len(ga) - len(gen) + i] for i in range(len(gen))}
    sub = {k: v for k, v in sub.items() if k != v}
    if not sub:
        return

    import re as _re

    def subst(s):
        if s in sub:
            return sub[s]
        for k, v in sub.items():
            if len(k) > 2 and not _re.match(r"^[A-Za-z0-9_]+$", k):
                if k in s:
                    s = s.replace(k, v)
            else:
                s = _re.sub(r"(?<![A-Za-z0-9_:])%s(?![A-Za-z0-9_:])" % _re.escape(k), lambda _m, v_=v: v_, s)
        return s
    for blk in blocks:
        ct = blk["t"]
        if ct.get("k") != "call":
            continue
        if ct.get("gargs"):
            ct["gargs"] = [subst(x) for x in ct["gargs"]]
        if ct.get("argtys"):
            ct["argtys"] = [subst(x) for x in ct["argtys"]]
        st_ = ct.get("self_ty")
        if st_ and ct.get("trait") and not ct.get("resolved") and subst(st_) != st_:
            conc = subst(st_)
            ct["self_ty"] = conc
            base = conc.split("<")[0]
            meth = (ct.get("callee") or "").split("::")[-1]
            impls = [h for h in fx.d["fns"] if h.get("impl_trait_def") == ct["trait"] and h["def"].endswith("::" + meth) and (h.get("impl_self") or "").split("<")[0] == base]
            if len(impls) == 1:
                ct["resolved"] = impls[0]["def"]
                ct["resolved_local"] = True


def inlined(fx, f, pred=None, depth=3, stage="pre", sub=None):
    """function record with the accepted crate-local callees inlined (cached per facts, function and predicate name).
    `sub` instantiates type parameters of f itself first ({"T": "mpsc::Sender<..>"}: one instance of a closure written in a
    generic function), so that trait methods called on them resolve to the implementation for that type"""
    cache = fx.__dict__.setdefault("_inline_cache", {})
    key = (f["def"], getattr(pred, "__name__", None), depth, stage, tuple(sorted((sub or {}).items())))
    if key in cache:
        return cache[key]
    rec = {"blocks": copy.deepcopy(f[stage]["blocks"]), "locals": list(f[stage]["locals"]), "arg_count": f[stage]["arg_count"]}
    for blk in rec["blocks"]:
        blk["_st"] = (f["def"],)
    if sub:
        _instantiate(fx, rec["blocks"], f, None, sub=dict(sub))
    out = dict(f)
    out[stage] = rec
    out["inlined_from"] = []
    progress = True
    rounds = 0
    while progress and rounds < 12 and len(rec["blocks"]) < MAX_BLOCKS:
        progress = False
        rounds += 1
        b = Body(out, stage)
        for bi in range(len(rec["blocks"])):
            blk = rec["blocks"][bi]
            t = blk["t"]
            if blk["c"] or t["k"] != "call" or t.get("target") is None:
                continue
            stack = blk["_st"]
            if len(stack) > depth:
                continue
            callee = t.get("callee") or ""
            g = None
            pg = None  # whom the predicate judges (the async fn for its coroutine)
            glue = None
            ret_wrap = None
            if callee in CLOSURE_CALLS and len(t["args"]) == 2:
                os_ = b.origins(t["args"][0])
                defs = set()
                for o in os_:
                    if o.kind == "agg" and not o.proj:
                        st = b.blocks[o.site[0]]["s"][o.site[1]]
                        if st["r"].get("ak") == "closure" and st["r"].get("def") in fx.fns:
                            defs.add(st["r"]["def"])
                            continue
                    defs.add(None)
                if len(defs) == 1 and None not in defs:
                    g = fx.fns[next(iter(defs))]
                    tup = t["args"][1]
                    n_extra = g["pre"]["arg_count"] - 1

                    def glue(loff, t=t, tup=tup, n_extra=n_extra):
                        out_ = [([loff + 1], t["args"][0])]
                        if tup.get("k") in ("move", "copy"):
                            for j in range(n_extra):
                                out_.append(([loff + 2 + j], {"k": "move", "p": list(tup["p"]) + ["f%d" % j]}))
                        return out_
            elif callee.endswith("Future::poll") or callee.endswith("::poll_unpin"):
                os_ = b.polled_future_origins(bi, plumbing=True)
                cands = set()
                for o in os_:
                    if o.kind == "call" and not o.proj:
                        ct = b.call_at(o)
                        h = _callee_record(fx, ct) if not (ct.get("trait") and not ct.get("resolved")) else None
                        kids = [c for c in fx.children_of(h["def"]) if c["kind"] == "coroutine"] if (h is not None and h.get("is_async")) else []
                        if len(kids) == 1 and "pre" in kids[0]:
                            cands.add((o.site[0], kids[0]["def"], h["def"]))
                            continue
                    cands.add(None)
                if len(cands) == 1 and None not in cands:
                    cbi, cdef, hdef = next(iter(cands))
                    ct = rec["blocks"][cbi]["t"]
                    h = fx.fns[hdef]
                    # the async fn's own body builds the coroutine from its parameters: capture k <- parameter
                    aggs = [st for hb in h["pre"]["blocks"] if not hb["c"] for st in hb["s"] if st["k"] == "assign" and st["r"]["k"] == "agg" and st["r"].get("ak") == "coroutine" and st["r"].get("def") == cdef]
                    ops = None
                    if len(aggs) == 1:
                        ops = []
                        for op in aggs[0]["r"]["ops"]:
                            if op.get("k") in ("move", "copy") and len(op["p"]) == 1 and 1 <= op["p"][0] <= len(ct["args"]):
                                ops.append(ct["args"][op["p"][0] - 1])
                            else:
                                ops = None
                                break
                    if ops is not None:
                        g = fx.fns[cdef]
                        pg = h
                        env = {"k": "agg", "ak": "coroutine", "def": cdef, "ops": ops}

                        def glue(loff, env=env):
                            return [("ENV", loff + 1, env)]
                        ret_wrap = {"k": "agg", "ak": "adt", "def": "core::task::poll::Poll", "variant": "Ready", "fields": ["0"]}
            else:
                # (a trait method that is not resolved to an implementation is dispatched on a type parameter or a trait
                # object: the trait's provided body — if any — is not necessarily what runs)
                h = _callee_record(fx, t) if not (t.get("trait") and not t.get("resolved")) else None
                if h is not None and h["kind"] in ("fn", "assoc_fn") and not h.get("is_async"):
                    g = h

                    def glue(loff, t=t):
                        return [([loff + 1 + i], a) for i, a in enumerate(t["args"])]
            if g is None or g["def"] in stack or (pred is not None and not pred(pg or g, t)):
                continue
            if len(rec["blocks"]) + len(g["pre"]["blocks"]) > MAX_BLOCKS:
                continue

            def glue2(loff, glue=glue):
                res = []
                for item in glue(loff):
                    if item[0] == "ENV":
                        rec["blocks"][bi]["s"].append({"k": "assign", "p": [item[1]], "r": item[2], "l": t.get("l")})
                    else:
                        res.append(item)
                return res
            n_before = len(rec["blocks"])
            _splice(rec, bi, g, glue2, t["dest"], t["target"], t.get("unwind"), stack + (g["def"],), ret_wrap)
            _instantiate(fx, rec["blocks"][n_before:], g, t)
            out["inlined_from"].append(g["def"])
            progress = True
    cache[key] = out
    return out


def body(ctx, fx, f, pred=None, depth=3, sub=None):
    """Body of the inlined record (cached in the run context next to the plain bodies)"""
    rec = inlined(fx, f, pred, depth, sub=sub)
    key = (fx.cfg, f["def"], "inl", getattr(pred, "__name__", None), depth, tuple(sorted((sub or {}).items())))
    if key not in ctx._bodies:
        ctx._bodies[key] = Body(rec, "pre")
    return ctx._bodies[key]


def not_public(g, t):
    """helpers only: a public function is an operation of its own, judged where it is defined"""
    return g.get("vis") != "pub" or g["kind"] == "closure"
