"""A7 — what is known about the three external runtimes (the only facts about foreign crates the rules use).

Dropping the runtime's task handle:
  tokio::task::JoinHandle           detaches (the task keeps running)          — tokio docs: "A JoinHandle detaches the associated task when it is dropped"
  async_std::task::JoinHandle       detaches                                   — async-std docs: "Dropping the JoinHandle will detach the task"
  smol::Task = async_task::Task     CANCELS the task                           — async-task docs: "dropping a Task cancels it"; Task::detach() lets it run
Confirmed for the major versions below; a different major version in Cargo.lock makes the rule ask for re-confirmation."""
import re

HANDLES = {
    "tokio::runtime::task::join::JoinHandle<": ("tokio", "detaches"),
    "async_std::task::join_handle::JoinHandle<": ("async-std", "detaches"),
    "async_task::task::Task<": ("async-task", "cancels"),
}
CONFIRMED_MAJOR = {"tokio": "1", "async-std": "1", "smol": "2", "async-task": "4"}
SPAWN_FNS = ("tokio::task::spawn::spawn", "async_std::task::spawn::spawn", "smol::spawn::spawn")


def lock_versions(repo):
    out = {}
    try:
        txt = open(repo + "/Cargo.lock").read()
    except OSError:
        return out
    for m in re.finditer(r'name = "([^"]+)"\nversion = "([^"]+)"', txt):
        if m.group(1) in CONFIRMED_MAJOR:
            out.setdefault(m.group(1), []).append(m.group(2))
    return out


def handle_kind(ty):
    for pfx, (crate, sem) in HANDLES.items():
        if pfx in ty:
            return crate, sem
    return None, None
