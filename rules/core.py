"""Shared machinery of the rule kernel: run context, violation keys, evidence, known findings."""
import hashlib, json, os, re, sys, time

import facts
from mir import Body

V = os.path.dirname(os.path.dirname(os.path.abspath(__file__)))
EVID = os.path.join(V, "evidence")
KNOWN = os.path.join(V, "known_findings.txt")


def _set_current_fx(fx):
    """the helpers that look into crate-local callees while following a value (props.c15.roots) work on the facts of the
    configuration currently being checked"""
    try:
        from props import c15
        c15.FX[0] = fx
    except ImportError:
        pass
    import loops
    loops.bind(fx)


class Ctx:
    def __init__(self, prop, tier, repo="/repo", seed=0):
        self.prop = prop
        self.tier = tier
        self.repo = repo
        self.seed = seed
        self.t0 = time.time()
        self.instances = []  # dict(rule, instance, ok, site, detail)
        self.violations = []  # dict(key, rule, instance, fn, msg, site, trace)
        self.notes = []
        self.cfgs_used = []
        self.states = 0
        self.transitions = 0
        self.assumptions = []
        self.explanation = ""
        self._bodies = {}
        self.skipped_cfgs = []
        self.cfg_tag = None  # set by modules that loop over configurations without tagging their instances themselves

    # ---- facts ----------------------------------------------------------------------------------
    def facts(self, cfg="tokio"):
        fx = facts.load(cfg, self.repo)
        _set_current_fx(fx)
        if cfg not in self.cfgs_used:
            self.cfgs_used.append(cfg)
        return fx

    def try_facts(self, cfg):
        """non-default configurations: a configuration that does not build is recorded, not fatal"""
        try:
            return self.facts(cfg)
        except facts.BuildFailed as e:
            self.skipped_cfgs.append(cfg)
            self.notes.append("configuration %s does not build: %s" % (cfg, str(e)[-300:]))
            return None

    def body(self, fx, f, stage="pre"):
        _set_current_fx(fx)
        key = (fx.cfg, f["def"], stage)
        if key not in self._bodies:
            self._bodies[key] = Body(f, stage)
        return self._bodies[key]

    # ---- results --------------------------------------------------------------------------------
    def _tag(self, instance):
        if self.cfg_tag and self.cfg_tag != "tokio" and not instance.endswith("@" + self.cfg_tag):
            return instance + "@" + self.cfg_tag
        return instance

    def ok(self, rule, instance, site=None, detail=None):
        instance = self._tag(instance)
        self.instances.append({"rule": rule, "instance": instance, "ok": True, "site": site, "detail": detail})

    def viol(self, rule, instance, msg, fn=None, site=None, trace=None):
        instance = self._tag(instance)
        key = "%s/%s/%s" % (self.prop, rule, instance)
        self.instances.append({"rule": rule, "instance": instance, "ok": False, "site": site, "detail": msg})
        if any(v["key"] == key for v in self.violations):
            return
        self.violations.append({"key": key, "property": self.prop, "rule": rule, "instance": instance, "fn": fn, "msg": msg, "site": site, "trace": trace})

    def require(self, cond, rule, instance, msg, fn=None, site=None, detail=None, trace=None):
        if cond:
            self.ok(rule, instance, site, detail)
        else:
            self.viol(rule, instance, msg, fn=fn, site=site, trace=trace)
        return cond

    def floor(self, rule, what, count, minimum):
        """fail closed: a rule that matches fewer instances than counted by hand must not pass vacuously"""
        if count < minimum:
            self.viol(rule, "floor:" + what, "anchor/instance missing: found %d %s, expected at least %d" % (count, what, minimum))
            return False
        return True

    def note(self, s):
        self.notes.append(s)

    def count_nfa(self, stats, product_states=0):
        self.states += stats.get("nodes", 0) + product_states
        self.transitions += stats.get("edges", 0)


def shared(ctx, RULE, fn, *args, **kw):
    """run a rule of another property's module and report what it finds under this property's rule id"""
    before_v, before_i = len(ctx.violations), len(ctx.instances)
    r = fn(*args, **kw)
    for v in ctx.violations[before_v:]:
        v["rule"] = RULE
        v["key"] = "%s/%s/%s" % (ctx.prop, RULE, v["instance"])
    for i in ctx.instances[before_i:]:
        i["rule"] = RULE
    return r


def shared_from(ctx, check_cfg, fx, cfg, RULE, rules, pattern, floor, what):
    """run another property module's per-configuration check in a scratch context and report, under this property's rule id,
    those of its instances whose rule is in `rules` and whose name matches `pattern` (a property whose statement includes a
    clause that a rule of a sibling decides shares exactly that rule)"""
    import re
    sub = Ctx(ctx.prop, ctx.tier, repo=ctx.repo, seed=ctx.seed)
    sub._bodies = ctx._bodies
    check_cfg(sub, fx, cfg)
    want = re.compile(pattern)
    n = 0
    for i in sub.instances:
        if i["rule"] in rules and want.search(i["instance"]):
            n += 1
            if i["ok"]:
                ctx.ok(RULE, i["instance"], i.get("site"), i.get("detail"))
    for v in sub.violations:
        if v["rule"] in rules and want.search(v["instance"]):
            ctx.viol(RULE, v["instance"], v["msg"], fn=v.get("fn"), site=v.get("site"), trace=v.get("trace"))
    ctx.floor(RULE, "%s (%s)" % (what, cfg), n, floor)
    ctx.states += sub.states
    ctx.transitions += sub.transitions


def load_known():
    """known_findings.txt:  open:  property=<id> key=<key> <what>   |  fixed: property=<id> <commit> <what>"""
    opens = {}
    fixed = []
    if os.path.exists(KNOWN):
        for line in open(KNOWN):
            line = line.strip()
            if not line or line.startswith("#"):
                continue
            m = re.match(r"open:\s+property=(\S+)\s+key=(\S+)\s+(.*)", line)
            if m:
                opens[m.group(2)] = (m.group(1), m.group(3))
                continue
            m = re.match(r"fixed:\s+property=(\S+)\s+(\S+)\s+(.*)", line)
            if m:
                fixed.append((m.group(1), m.group(2), m.group(3)))
    return opens, fixed


def finish(ctx, level="other", extra_cov=None, trusted=None, checker_cmd=None):
    """write evidence, print verdict lines, return exit code"""
    evid = EVID
    if os.path.realpath(ctx.repo) != "/repo":
        # runs on scratch copies (controls, mutants) must not overwrite the evidence of the real tree
        evid = os.environ.get("VERIF_SCRATCH_EVID") or os.path.join(V, ".cache", "scratch-evidence", "%d" % os.getpid())
        try:  # keep the scratch evidence of the last 40 runs only
            base = os.path.join(V, ".cache", "scratch-evidence")
            old = sorted((d for d in os.listdir(base)), key=lambda d: os.path.getmtime(os.path.join(base, d)))[:-40]
            import shutil
            for d in old:
                shutil.rmtree(os.path.join(base, d), ignore_errors=True)
        except OSError:
            pass
    os.makedirs(os.path.join(evid, "violations"), exist_ok=True)
    opens, _fixed = load_known()
    real = []
    known = []
    for v in ctx.violations:
        if v["key"] in opens and opens[v["key"]][0] == ctx.prop:
            known.append(v)
        else:
            real.append(v)
    rules = sorted({i["rule"] for i in ctx.instances})
    n_inst = len(ctx.instances)
    n_ok = sum(1 for i in ctx.instances if i["ok"])
    distinct = len({(i["rule"], i["instance"]) for i in ctx.instances if i.get("site")})
    samples = []
    seen_rules = set()
    for i in ctx.instances:
        if i["rule"] not in seen_rules and i.get("site"):
            seen_rules.add(i["rule"])
            samples.append({"rule": i["rule"], "instance": i["instance"], "site": i["site"], "detail": i["detail"], "ok": i["ok"]})
    for i in ctx.instances:
        if len(samples) >= 40:
            break
        if i.get("site") and not any(s["rule"] == i["rule"] and s["instance"] == i["instance"] for s in samples):
            samples.append({"rule": i["rule"], "instance": i["instance"], "site": i["site"], "detail": i["detail"], "ok": i["ok"]})
    cov = {
        "explanation": ctx.explanation,
        "rule": "one evaluation = one rule instance (a call site, function, type or CFG) of the current /repo tree; distinct_nontrivial = instances anchored at a concrete source site",
        "evaluations": n_inst,
        "distinct_nontrivial": distinct,
        "obligations": n_inst,
        "discharged": n_ok,
        "samples": samples,
        "states": ctx.states,
        "transitions": ctx.transitions,
        "rules": rules,
        "configurations": ctx.cfgs_used,
        "configurations_not_building": ctx.skipped_cfgs,
        "notes": ctx.notes,
        "exhaustive": True,
        "instances": [
            {"rule": i["rule"], "instance": i["instance"], "ok": i["ok"], "site": i["site"]} for i in ctx.instances
        ],
    }
    if trusted is not None:
        cov["trusted_base"] = trusted
    if checker_cmd is not None:
        cov["checker_cmd"] = checker_cmd
    if extra_cov:
        cov.update(extra_cov)
    ev = {
        "property_id": ctx.prop,
        "tier": ctx.tier,
        "seed": ctx.seed,
        "level": level,
        "coverage": cov,
        "assumptions": ctx.assumptions,
        "wall_s": round(time.time() - ctx.t0, 3),
        "violations": len(real),
        "known_findings": [v["key"] for v in known],
    }
    with open(os.path.join(evid, ctx.prop + ".json"), "w") as f:
        json.dump(ev, f, indent=1)
    for v in known:
        print("KNOWN-FINDING: property=%s %s — %s" % (ctx.prop, v["key"], opens[v["key"]][1]))
    for v in real:
        h = hashlib.sha1(v["key"].encode()).hexdigest()[:10]
        path = os.path.join(evid, "violations", "%s-%s.json" % (ctx.prop, h))
        with open(path, "w") as f:
            json.dump(v, f, indent=1)
        print("  rule %s instance %s" % (v["rule"], v["instance"]))
        print("    %s" % v["msg"])
        if v.get("fn"):
            print("    in %s" % v["fn"])
        if v.get("site"):
            print("    at %s" % (v["site"],))
        if v.get("trace"):
            for e in v["trace"][-14:]:
                print("      %-40s %s" % (e.get("ev"), e.get("loc")))
        print("VIOLATION property=%s replay=%s" % (ctx.prop, path))
    if not real:
        print("OK property=%s tier=%s rules=%d instances=%d (%d discharged) configs=%s wall=%.1fs" % (ctx.prop, ctx.tier, len(rules), n_inst, n_ok, ",".join(ctx.cfgs_used), time.time() - ctx.t0))
    return 1 if real else 0
