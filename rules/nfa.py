"""A1 — event automata over MIR control-flow graphs and conformance to protocol specs.

For a body f and an alphabet, build the NFA N(f): nodes are (block, position) pairs, transitions carry an
event label or epsilon.  Events:
  call:<L>            call terminator whose callee the alphabet maps to label L (normal edge)
  done:<L>            Ready edge of the poll loop of a future produced by a call labelled L
  pend:<L>            Pending edge of that poll (the coroutine is about to suspend there)
  sw:<Adt>::<V>[@L]   SwitchInt edge on discriminant(place) of an ADT in the alphabet; @L if the scrutinee was
                      produced by a call/await labelled L (looking through `?`)
  bool:<L>=0|1        SwitchInt edge on a bool produced by a call labelled L
  retval:<V>          assignment of the return place: aggregate variant (Ok/Err/Some/None) or `residual`
                      (FromResidual::from_residual, i.e. the error branch of `?`)
  ret                 Return
  cancel              the drop edge of a Yield (the future is dropped while suspended there)
  unwind              edge into a cleanup block (a panic in the call / drop on that edge)
Every path of the CFG is a word of N(f); a spec is a deterministic monitor with an error state.
"""
from collections import deque, defaultdict
from mir import Body, Origin, short

RET, CANCEL, UNWIND = "RET", "CANCEL", "UNWIND"


class Alphabet:
    def __init__(self, calls=None, adts=None, bools=None, retval=False, type_tags=None, fut_types=None):
        """calls: list of (label, predicate(term)->bool)
        adts: dict canonical adt def path -> short name
        bools: labels (subset of call labels) whose bool result is tracked
        retval: emit retval:* events"""
        self.calls = calls or []
        self.adts = adts or {}
        self.bools = set(bools or [])
        self.retval = retval
        self.stmt_fn = None  # optional: (body, bb, stmt index, stmt) -> label for statement-level events (emitted in order)
        self.upvar_bools = False  # label SwitchInt on a captured bool: bool:upvar<i>=0|1
        self.drop_types = []  # [(substring of the dropped place's type, label)] -> event drop:<label> at Drop terminators
        self.adt_fn = None  # optional: adt def path -> short name (for ADTs recognised by shape, e.g. select!'s private enum)
        self.fut_types = fut_types or []  # [(substring of the awaited future's type, label)] for awaits of non-call values
        self.type_tags = type_tags or []  # [(substring of the scrutinee type, tag)] used when no producing call is known

    def call_label(self, t):
        for label, pred in self.calls:
            if pred(t):
                return label
        fx = getattr(self, "_fx", None)
        if fx is not None and t.get("callee_local") and t.get("callee"):
            lab = self.wrapper_label(fx, t.get("resolved") or t["callee"])
            if lab is None and t.get("trait") and not t.get("resolved"):
                # a method of a crate-local trait called on a type parameter (`tx.push(event)` with `S: RawTx`): when every
                # implementation is a thin wrapper of the same labelled call, the call is that call whatever S is
                meth = t["callee"].split("::")[-1]
                impls = [h for h in fx.d["fns"] if h.get("impl_trait_def") == t["trait"] and h["def"].endswith("::" + meth) and h["kind"] == "assoc_fn"]
                labs = {self.wrapper_label(fx, h["def"]) for h in impls}
                if impls and len(labs) == 1 and None not in labs:
                    lab = next(iter(labs))
            return lab
        return None

    def wrapper_label(self, fx, name, _depth=0):
        """a crate-local synchronous function that does nothing but make one labelled call and hand back its result
        (`Task::run(self, a, c) = (self.0)(a, c)`) counts as that call: wrapping a value in a newtype with a forwarding
        method does not change the event language"""
        cache = self.__dict__.setdefault("_wrap_cache", {})
        if name in cache:
            return cache[name]
        cache[name] = None
        g = fx.fn(name)
        if g is None or g.get("is_async") or g["kind"] not in ("fn", "assoc_fn") or _depth > 2:
            return None
        gb = Body(g)
        labelled = []
        for bi, ct in gb.normal_calls():
            lab = None
            for label, pred in self.calls:
                if pred(ct):
                    lab = label
                    break
            if lab is None and ct.get("callee_local") and ct.get("callee"):
                lab = self.wrapper_label(fx, ct.get("resolved") or ct["callee"], _depth + 1)
            if lab:
                labelled.append((bi, lab))
        if len(labelled) != 1:
            return None
        os_ = gb.origins([0])
        if os_ and all(o.kind == "call" and o.site == (labelled[0][0],) and not o.proj for o in os_):
            cache[name] = labelled[0][1]
        return cache[name]


def callee_is(*names):
    ns = set(names)
    return lambda t: t.get("callee") in ns


def callee_ends(*suffixes):
    return lambda t: t.get("callee") is not None and any(t["callee"].endswith(s) for s in suffixes)


def trait_method(trait, method):
    return lambda t: t.get("trait") == trait and (t.get("callee") or "").endswith("::" + method)


class NFA:
    def __init__(self, name):
        self.name = name
        self.edges = defaultdict(list)  # node -> [(label|None, dst, loc)]
        self.entry = None
        self.nodes = set()
        self.has_corr = False  # carries iret:/isw: correlation events (see check)

    def add(self, src, label, dst, loc=None):
        self.edges[src].append((label, dst, loc))
        self.nodes.add(src)
        self.nodes.add(dst)

    def stats(self):
        n_edges = sum(len(v) for v in self.edges.values())
        n_ev = sum(1 for v in self.edges.values() for e in v if e[0] is not None)
        return {"nodes": len(self.nodes), "edges": n_edges, "event_edges": n_ev}

    def event_graph(self):
        """epsilon-eliminated view: {node: {(label, dst)}} over nodes that are entry or targets of event edges"""
        def eps_closure(n):
            seen = {n}
            st = [n]
            while st:
                x = st.pop()
                for (l, d, _) in self.edges.get(x, []):
                    if l is None and d not in seen:
                        seen.add(d)
                        st.append(d)
            return seen
        g = {}
        todo = [self.entry]
        while todo:
            n = todo.pop()
            if n in g:
                continue
            out = set()
            for x in eps_closure(n):
                for (l, d, _) in self.edges.get(x, []):
                    if l is not None:
                        out.add((l, d))
            g[n] = out
            for (_, d) in out:
                if d not in g:
                    todo.append(d)
        return g


CLOSURE_CALLS = ("core::ops::function::FnOnce::call_once", "core::ops::function::FnMut::call_mut", "core::ops::function::Fn::call")


def _closure_args(fx, body, args, key_of, inherited):
    """closure literals (or closures this body was itself given) among the arguments handed to a spliced callee:
    {key_of(i): closure fn record} — the callee's `f(..)` on that parameter runs this closure"""
    out = {}
    for i, a in enumerate(args):
        if a.get("k") not in ("move", "copy"):
            continue
        os_ = body.origins(a)
        if len(os_) != 1:
            continue
        o = next(iter(os_))
        if o.kind == "agg" and not o.proj:
            st = body.blocks[o.site[0]]["s"][o.site[1]]
            if st["r"].get("ak") == "closure" and st["r"].get("def") in fx.fns:
                out[key_of(i)] = fx.fns[st["r"]["def"]]
        elif inherited and o.kind in ("upvar", "arg") and not o.proj and (o.kind, o.site) in inherited:
            out[key_of(i)] = inherited[(o.kind, o.site)]
    return out


def build(body: Body, alpha: Alphabet, fx=None, depth=0, _prefix=(), _sinks=None, _stack=(), _into=None, _retval=False, _consts=None, _closures=None, _iret_as=None, _tysub=None):
    """Event automaton of `body`. With `fx` and depth > 0, unlabelled calls to crate-local functions and unlabelled
    awaits of crate-local coroutines whose own automaton contains call/done events are inlined (bounded depth, no
    recursion): extracting a helper out of a loop does not change the language."""
    top = _into is None
    if fx is not None and getattr(alpha, "_fx", None) is None:
        alpha._fx = fx
    n = NFA(body.name) if top else _into
    ret_s, cancel_s, unwind_s = _sinks or (RET, CANCEL, UNWIND)

    def node(bi, pos):
        return (bi, pos) if not _prefix else (_prefix, bi, pos)
    if top:
        n.entry = node(0, 0)
    # a spliced callee whose result is written straight into the caller's return place produces the caller's result
    retval = alpha.retval and (top or _retval)
    vsets, vtsts = _value_tests(body)
    # a result that is built in one of several places and handed back through one local (`let r = if .. { Err(e) } else { Ok(v) }; r`,
    # or the return place of an inlined helper): each of those places is where the variant that is returned is decided
    ret_alias = {}
    if retval:
        for blk_ in body.blocks:
            if blk_["c"]:
                continue
            for st_ in blk_["s"]:
                if st_["k"] == "assign" and st_["p"] == [0] and st_["r"]["k"] == "use" and st_["r"]["o"].get("k") in ("move", "copy") and len(st_["r"]["o"]["p"]) == 1:
                    x_ = st_["r"]["o"]["p"][0]

                    def _defs(loc_):
                        return [(b2, s2) for b2, bl2 in enumerate(body.blocks) if not bl2["c"] for s2, st2 in enumerate(bl2["s"]) if st2["k"] == "assign" and st2["p"] == [loc_]]
                    defs_ = _defs(x_)
                    for _hop in range(4):
                        # handed on through single-assignment locals (the awaited result of an inlined helper)
                        if len(defs_) == 1:
                            r1_ = body.blocks[defs_[0][0]]["s"][defs_[0][1]]["r"]
                            if r1_["k"] == "use" and r1_["o"].get("k") in ("move", "copy") and len(r1_["o"]["p"]) == 1 and r1_["o"]["p"][0] != 0:
                                x_ = r1_["o"]["p"][0]
                                defs_ = _defs(x_)
                                continue
                            # ... or taken out of the `Poll::Ready(result)` an inlined awaited helper ends in
                            if r1_["k"] == "use" and r1_["o"].get("k") in ("move", "copy") and len(r1_["o"]["p"]) == 3 and str(r1_["o"]["p"][1]).endswith(":Ready") and r1_["o"]["p"][2] == "f0":
                                pd_ = _defs(r1_["o"]["p"][0])
                                if len(pd_) == 1:
                                    pr_ = body.blocks[pd_[0][0]]["s"][pd_[0][1]]["r"]
                                    if pr_.get("k") == "agg" and pr_.get("variant") == "Ready" and len(pr_.get("ops", [])) == 1 and pr_["ops"][0].get("k") in ("move", "copy") and len(pr_["ops"][0]["p"]) == 1:
                                        x_ = pr_["ops"][0]["p"][0]
                                        defs_ = _defs(x_)
                                        continue
                        break
                    calls_ = [1 for bl2 in body.blocks if not bl2["c"] and bl2["t"].get("k") == "call" and bl2["t"].get("dest") == [x_]]
                    vs_ = {body.blocks[b2]["s"][s2]["r"].get("variant") if body.blocks[b2]["s"][s2]["r"].get("k") == "agg" and body.blocks[b2]["s"][s2]["r"].get("ak") == "adt" else None for b2, s2 in defs_}
                    if len(defs_) >= 2 and not calls_ and None not in vs_ and len(vs_) >= 2:
                        for b2, s2 in defs_:
                            ret_alias[(b2, s2)] = "retval:" + body.blocks[b2]["s"][s2]["r"]["variant"]
                        ret_alias[("skip", id(st_))] = True
    for bi, blk in enumerate(body.blocks):
        if blk["c"]:
            continue
        pos = 0
        cur = node(bi, 0)
        n.nodes.add(cur)
        # statement events
        if retval or alpha.stmt_fn or not top or vsets or ret_alias:
            for si, st in enumerate(blk["s"]):
                for vl in vsets.get((bi, si), ()):
                    nxt = node(bi, pos + 1)
                    n.add(cur, vl, nxt, st.get("l"))
                    n.has_corr = True
                    cur = nxt
                    pos += 1
                lab = None
                if not top and st["k"] == "assign" and st["p"] == [0]:
                    # a spliced callee says which variant it hands back: the caller's match on that value follows suit
                    rl = retval_label(body, st["r"], None)
                    if rl and rl not in ("retval:move", "retval:agg"):
                        nxt = node(bi, pos + 1)
                        n.add(cur, "iret:%s|%s" % (_iret_as or body.name, rl[len("retval:"):]), nxt, st.get("l"))
                        n.has_corr = True
                        cur = nxt
                        pos += 1
                if retval and st["k"] == "assign" and st["p"] == [0] and not ret_alias.get(("skip", id(st))):
                    lab = retval_label(body, st["r"], alpha)
                if retval and (bi, si) in ret_alias:
                    lab = ret_alias[(bi, si)]
                if lab is None and alpha.stmt_fn and st["k"] == "assign":
                    lab = alpha.stmt_fn(body, bi, si, st)
                if lab:
                    nxt = node(bi, pos + 1)
                    n.add(cur, lab, nxt, st.get("l"))
                    cur = nxt
                    pos += 1
        t = blk["t"]
        k = t["k"]
        loc = t.get("l")

        def tgt(b):
            if b is None:
                return None
            if body.blocks[b]["c"]:
                return unwind_s
            return node(b, 0)

        if k == "call":
            lab = alpha.call_label(t)
            if lab is None and t.get("callee") is None and t.get("fnplace") and _consts:
                # a call through a function pointer that is a field of a parameter bound to an enum literal at the call
                # site of this (spliced) body: `Successor::Fresh(A::default)` ... `Successor::Fresh(create) => create()`
                fn_ = _bound_fn(body, t["fnplace"], _consts)
                if fn_:
                    lab = alpha.call_label(dict(t, callee=fn_))
            ev = ("call:" + lab) if lab else None
            if not top and t["dest"] == [0] and (t.get("callee") or "").endswith("FromResidual::from_residual"):
                rty = body.locals[0]["ty"]
                rv = "Err" if rty.startswith("core::result::Result<") else ("None" if rty.startswith("core::option::Option<") else None)
                if rv:
                    mid = node(bi, pos + 1)
                    n.add(cur, "iret:%s|%s" % (_iret_as or body.name, rv), mid, loc)
                    n.has_corr = True
                    cur = mid
                    pos += 1
            if retval and t["dest"] == [0] and (t.get("callee") or "").endswith("FromResidual::from_residual"):
                # `?` error branch writes the return place
                mid = node(bi, pos + 1)
                n.add(cur, "retval:residual", mid, loc)
                cur = mid
                pos += 1
            after_ev = None
            if retval and t["dest"] == [0] and not (t.get("callee") or "").endswith("FromResidual::from_residual"):
                # the function's result is this call's result: name the labelled call it stands for (itself, or — through
                # adapters that keep the Ok / Err outcome — the call whose result it converts)
                srcs = {lab} if lab else ((_src_labels(body, body.origins(t["args"][0]), alpha) if (t.get("callee") in OUTCOME_PRESERVING and t["args"]) else set()))
                if len(srcs) == 1:
                    after_ev = "retval:call@" + next(iter(srcs))
            spliced = False
            if ev is None and fx is not None and _closures and t["target"] is not None and t.get("callee") in CLOSURE_CALLS and t["args"]:
                # `update(&mut table)` on a parameter of this spliced helper that the caller bound to a closure literal:
                # the closure's body runs here (and what it returns is what the helper returns when it is the tail call)
                os_ = body.origins(t["args"][0])
                cl = None
                if len(os_) == 1:
                    o_ = next(iter(os_))
                    if o_.kind in ("upvar", "arg") and not o_.proj:
                        cl = _closures.get((o_.kind, o_.site))
                if cl is not None and cl["def"] not in _stack and "pre" in cl:
                    cb = Body(cl)
                    sub = _prefix + ((body.name, bi),)
                    build(cb, alpha, fx, max(depth - 1, 0), sub, (tgt(t["target"]), cancel_s, unwind_s), _stack + (body.name,), n, _retval=(retval and t["dest"] == [0]),
                          _iret_as=((_iret_as or body.name) if (not top and t["dest"] == [0]) else None))
                    n.add(cur, None, (sub, 0, 0), loc)
                    spliced = True
            if not spliced and ev is None and fx is not None and depth > 0 and t["target"] is not None:
                cal = _local_sync_callee(fx, t)
                if cal is not None and cal["def"] not in _stack and cal["def"] != body.name:
                    cb = Body(cal)
                    cls_ = _closure_args(fx, body, t["args"], lambda i: ("arg", i + 1), _closures)
                    if _interesting(cb, alpha) or cls_:
                        sub = _prefix + ((body.name, bi),)
                        build(cb, alpha, fx, depth - 1, sub, (tgt(t["target"]), cancel_s, unwind_s), _stack + (body.name,), n, _retval=(retval and t["dest"] == [0]), _closures=cls_)
                        n.add(cur, None, (sub, 0, 0), loc)
                        spliced = True
            if not spliced and t["target"] is not None:
                if after_ev:
                    mid = node(bi, pos + 1)
                    n.add(cur, ev, mid, loc)
                    n.add(mid, after_ev, tgt(t["target"]), loc)
                else:
                    n.add(cur, ev, tgt(t["target"]), loc)
            if t["unwind"] is not None:
                n.add(cur, "unwind", unwind_s, loc)
        elif k == "switch":
            labels = switch_labels(body, bi, t, alpha, _tysub)
            corr = _corr_labels(fx, body, t) if (fx is not None and depth > 0) else {}
            if not corr and bi in vtsts:
                corr = vtsts[bi]
            ready = None
            if fx is not None and depth > 0:
                ready = _poll_ready(body, t)
            for (val, b) in t["targets"]:
                lab = labels.get(val)
                if ready is not None and val == ready[0] and lab is None:
                    co = _awaited_local_coroutine(fx, body, ready[1])
                    if co is not None and co["def"] not in _stack and co["def"] != body.name:
                        cb = Body(co)
                        cls_ = _awaited_closure_args(fx, body, ready[1], _closures)
                        if _interesting(cb, alpha) or cls_:
                            sub = _prefix + ((body.name, bi),)
                            # enum literals passed for parameters of the awaited async fn are fixed for this instance of
                            # its body: announce them (the body's matches on those parameters follow suit)
                            consts = _const_args(fx, body, ready[1])
                            after = tgt(b)
                            vc = body.__dict__.get("_vcopies", {}).get(("await", ready[1]))
                            if vc:
                                # the awaited helper's result goes into a flag variable tested later: it takes over the variant
                                # the helper announced
                                after = ("vcopy", sub)
                                n.add(after, "vcopy:%s|%s" % (vc, cb.name), tgt(b), loc)
                                n.has_corr = True
                            build(cb, alpha, fx, depth - 1, sub, (after, cancel_s, unwind_s), _stack + (body.name,), n, _consts=consts, _closures=cls_, _tysub=_awaited_tysub(fx, body, ready[1]))
                            entry = (sub, 0, 0)
                            prev = cur
                            for i_, (v_, _st) in sorted(consts.items()):
                                mid = ("cbind", sub, i_)
                                n.add(prev, "vset:%s#upvar%d|%s" % (cb.name, i_, v_), mid, loc)
                                n.has_corr = True
                                prev = mid
                            n.add(prev, None, entry, loc)
                            continue
                if corr.get(val):
                    mid = ("corr", _prefix, bi, val)
                    n.add(cur, corr[val], mid, loc)
                    n.add(mid, lab, tgt(b), loc)
                    n.has_corr = True
                    continue
                n.add(cur, lab, tgt(b), loc)
            if corr.get("otherwise"):
                mid = ("corr", _prefix, bi, "otherwise")
                n.add(cur, corr["otherwise"], mid, loc)
                n.add(mid, labels.get("otherwise"), tgt(t["otherwise"]), loc)
                n.has_corr = True
            else:
                n.add(cur, labels.get("otherwise"), tgt(t["otherwise"]), loc)
        elif k == "yield":
            n.add(cur, None, tgt(t["resume"]), loc)
            if t["drop"] is not None:
                n.add(cur, "cancel", cancel_s, loc)
        elif k == "drop":
            dl = None
            if len(t["p"]) == 1 and alpha.drop_types:
                for sub, lab in alpha.drop_types:
                    if sub in t.get("ty", ""):
                        if not body.drop_is_noop_for(bi, t["p"][0], lambda ty: any(s2 in ty for s2, l2 in alpha.drop_types if l2 == lab)):
                            dl = "drop:" + lab
                        break
            n.add(cur, dl, tgt(t["target"]), loc)
            if t["unwind"] is not None:
                n.add(cur, "unwind", unwind_s, loc)
        elif k == "goto":
            n.add(cur, None, tgt(t["target"]), loc)
            if t.get("unwind") is not None:
                n.add(cur, "unwind", unwind_s, loc)
        elif k == "return":
            n.add(cur, "ret" if top else None, ret_s, loc)
        elif k in ("unreachable", "resume", "terminate", "codrop"):
            pass
        else:
            pass
    return n


def _local_sync_callee(fx, t):
    for key in ("resolved", "callee"):
        c = t.get(key)
        f = fx.fns.get(c) if c else None
        if f is not None and f["kind"] in ("fn", "assoc_fn") and not f.get("is_async") and "pre" in f:
            return f
    return None


_PRED_TRUE = {"is_break": "Break", "is_continue": "Continue", "is_some": "Some", "is_none": "None", "is_ok": "Ok", "is_err": "Err"}
_VARIANTS = {"Break": ("Break", "Continue"), "Continue": ("Break", "Continue"), "Some": ("Some", "None"), "None": ("Some", "None"), "Ok": ("Ok", "Err"), "Err": ("Ok", "Err")}


def _value_tests(body):
    """flag variables: a switch that tests a local whose every definition is a literal enum variant or bool constant
    (`let flow = select! { .. => ControlFlow::Break(()), .. => ControlFlow::Continue(()) }; if flow.is_break() { break }`).
    Returns ({(bb, stmt): [vset labels]}, {switch bb: {switch value: vtst label}}): the definitions announce the value,
    the switch edges are followed only when they agree with the value last announced on that path."""
    cache = body.__dict__.get("_vt_cache")
    if cache is not None:
        return cache
    vsets, vtsts = {}, {}
    vcopies = body.__dict__.setdefault("_vcopies", {})
    for bi, blk in enumerate(body.blocks):
        t = blk["t"]
        if blk["c"] or t["k"] != "switch" or t["o"]["k"] not in ("copy", "move"):
            continue
        origs = body.origins(t["o"]["p"], through_calls=False)
        tested = None      # place whose value is tested
        table = None       # switch value -> set of variants / constants it stands for
        if origs and all(x.kind == "discr" for x in origs) and len(origs) == 1:
            st = body.blocks[next(iter(origs)).site[0]]["s"][next(iter(origs)).site[1]]
            r = st["r"]
            is_upvar = body.is_closure_like and len(r.get("p", [])) >= 2 and r["p"][0] == 1 and [e for e in r["p"][1:] if e != "*"][:1] and len([e for e in r["p"][1:] if e != "*"]) == 1
            if len(r.get("p", [])) == 1 or is_upvar:
                tested = r["p"]
                variants = r.get("variants", {})
                table = {val: {variants.get(val)} for (val, _b) in t["targets"] if variants.get(val)}
                rest = set(variants.values()) - {v for s_ in table.values() for v in s_}
                table["otherwise"] = rest
        elif t.get("oty") == "bool" and origs and len(origs) == 1 and next(iter(origs)).kind == "call":
            ct = body.call_at(next(iter(origs)))
            name = (ct.get("callee") or "").split("::")[-1]
            if name in _PRED_TRUE and len(ct["args"]) == 1 and ct["args"][0].get("k") in ("copy", "move"):
                # the argument is `&local`
                ap = ct["args"][0]["p"]
                for (_b2, _s2, st2) in body.assigns.get(ap[0], []) if len(ap) == 1 else []:
                    if st2["r"]["k"] == "ref" and len(st2["r"]["p"]) == 1:
                        tested = st2["r"]["p"]
                if tested is not None:
                    tv = _PRED_TRUE[name]
                    other = [v for v in _VARIANTS[tv] if v != tv]
                    table = {}
                    for (val, _b) in t["targets"]:
                        table[val] = {tv} if int(val) != 0 else set(other)
                    vals = {int(v) != 0 for (v, _) in t["targets"]}
                    if len(vals) == 1:
                        table["otherwise"] = set(other) if next(iter(vals)) else {tv}
        elif t.get("oty") == "bool" and len(t["o"]["p"]) == 1:
            tested = t["o"]["p"]
            table = {}
            for (val, _b) in t["targets"]:
                table[val] = {"true" if int(val) != 0 else "false"}
            vals = {int(v) != 0 for (v, _) in t["targets"]}
            if len(vals) == 1:
                table["otherwise"] = {"false"} if next(iter(vals)) else {"true"}
        if tested is None or not table:
            continue
        defs = body.origins(tested, through_calls=False)
        if body.is_closure_like and len(defs) == 1 and next(iter(defs)).kind == "upvar" and not next(iter(defs)).proj:
            # a captured enum / bool that is only read: its value is fixed per instance of this closure / coroutine;
            # a check may bind it (check(..., init_corr={id: variant})) to follow one instance at a time
            vid = "%s#upvar%d" % (body.name, next(iter(defs)).site)
            vtsts[bi] = {val: "vtst:%s|{%s}" % (vid, ",".join(sorted(x for x in vs if x))) for val, vs in table.items()}
            continue
        sites = {}
        copies = []
        ok = len(defs) >= 2
        for d in defs:
            if d.kind == "agg" and not d.proj:
                st = body.blocks[d.site[0]]["s"][d.site[1]]
                v = st["r"].get("variant")
                if st["r"].get("ak") == "adt" and v:
                    sites[d.site] = v
                    continue
            if d.kind in ("await", "call") and not d.proj:
                # what a (possibly spliced) crate-local callee handed back: `let step = select! { x => helper(x).await, .. }`
                copies.append((d.kind, d.site[0]))
                continue
            ok = False
            break
        if ok and copies:
            vid = "%s#%d" % (body.name, bi)
            for site, v in sites.items():
                vsets.setdefault(tuple(site), []).append("vset:%s|%s" % (vid, v))
            for kc in copies:
                vcopies[kc] = vid
            vtsts[bi] = {val: "vtst:%s|{%s}" % (vid, ",".join(sorted(x for x in vs if x))) for val, vs in table.items()}
            continue
        if not ok:
            # bool constants assigned directly
            sites = {}
            ok = len(defs) >= 2 and all(d.kind == "const" and str(d.site) in ("true", "false") for d in defs)
            if ok:
                for l_defs in [body.assigns.get(tested[0], [])]:
                    for (b3, s3, st3) in l_defs:
                        o3 = st3["r"].get("o", {})
                        if st3["r"]["k"] == "use" and o3.get("k") == "const" and str(o3.get("v")) in ("true", "false"):
                            sites[(b3, s3)] = str(o3.get("v"))
                        else:
                            ok = False
        if not ok or len(sites) < 2:
            continue
        vid = "%s#%d" % (body.name, bi)
        for site, v in sites.items():
            vsets.setdefault(tuple(site), []).append("vset:%s|%s" % (vid, v))
        vtsts[bi] = {val: "vtst:%s|{%s}" % (vid, ",".join(sorted(x for x in vs if x))) for val, vs in table.items()}
    body.__dict__["_vt_cache"] = (vsets, vtsts)
    return vsets, vtsts


def _awaited_tysub(fx, body, poll_bb):
    """{type parameter of the awaited async fn: the type the caller instantiates it with}"""
    for o in body.polled_future_origins(poll_bb, plumbing=True):
        if o.kind != "call":
            return None
        ct = body.call_at(o)
        h = fx.callee_fn(ct)
        gen = (h or {}).get("generics") or []
        ga = ct.get("gargs") or []
        if h is None or not gen or len(ga) < len(gen):
            return None
        sub = {gen[i]: ga[len(ga) - len(gen) + i] for i in range(len(gen))}
        return {k: v for k, v in sub.items() if k != v and len(k) <= 3} or None
    return None


def _awaited_closure_args(fx, body, poll_bb, inherited):
    """closures handed to the async fn awaited at poll_bb, keyed by the capture of its coroutine that holds them"""
    out = {}
    for o in body.polled_future_origins(poll_bb, plumbing=True):
        if o.kind != "call":
            return {}
        ct = body.call_at(o)
        out.update(_closure_args(fx, body, ct.get("args", []), lambda i: ("upvar", i), inherited))
    return out


def _const_args(fx, body, poll_bb):
    """{upvar index of the awaited async fn's coroutine: (variant, literal statement in `body`)} for arguments that are enum literals"""
    out = {}
    for o in body.polled_future_origins(poll_bb, plumbing=True):
        if o.kind != "call":
            return {}
        ct = body.call_at(o)
        for i, a in enumerate(ct.get("args", [])):
            if a.get("k") not in ("move", "copy"):
                continue
            os_ = body.origins(a, through_calls=False)
            if len(os_) == 1 and next(iter(os_)).kind == "agg" and not next(iter(os_)).proj:
                st = body.blocks[next(iter(os_)).site[0]]["s"][next(iter(os_)).site[1]]
                r = st["r"]
                if r.get("ak") == "adt" and r.get("variant") and ((r.get("def") or "").split("::")[0] not in ("core", "alloc", "std") or r.get("def") == "core::option::Option"):
                    out[i] = (r["variant"], (body, st))
    return out


def _bound_fn(body, fnplace, consts):
    for o in body.origins(fnplace, through_calls=False):
        if o.kind != "upvar" or o.site not in consts:
            return None
        variant, (cbody, st) = consts[o.site]
        fields = [e for e in o.proj if isinstance(e, str) and e.startswith("f") and e[1:].isdigit()]
        downs = [e for e in o.proj if isinstance(e, str) and e.startswith("d") and ":" in e]
        if not fields or (downs and downs[0].split(":", 1)[1] != variant):
            return None
        idx = int(fields[0][1:])
        if idx >= len(st["r"]["ops"]):
            return None
        for x in cbody.origins(st["r"]["ops"][idx]):
            if x.kind == "const" and isinstance(x.site, str) and "::" in x.site:
                return x.site
        return None
    return None


def _corr_labels(fx, body, t):
    """a match on the enum a (possibly spliced) crate-local callee returned: switch value -> `isw:<callee>|<variant>`"""
    o = t["o"]
    if o["k"] not in ("copy", "move"):
        return {}
    origs = body.origins(o["p"])
    discr = [x for x in origs if x.kind == "discr"]
    if not discr or len(discr) != len(origs):
        return {}
    st = body.blocks[discr[0].site[0]]["s"][discr[0].site[1]]
    r = st["r"]
    variants = r.get("variants", {})
    if len(r.get("p", [])) != 1:
        return {}  # only the returned value itself (not one of its fields)
    callee = None
    srcs = body.origins(r["p"], through_calls=False)
    via_branch = False
    if len(srcs) == 1 and next(iter(srcs)).kind == "call" and not next(iter(srcs)).proj and (body.call_at(next(iter(srcs))).get("callee") or "").endswith("Try::branch"):
        # `helper()?`: the match is on ControlFlow; Continue stands for Ok / Some of what the helper returned, Break for Err / None
        bt = body.call_at(next(iter(srcs)))
        srcs = body.origins(bt["args"][0], through_calls=False)
        via_branch = True
    for so in srcs:
        c = None
        if so.kind == "await" and not so.proj:
            co = _awaited_local_coroutine(fx, body, so.site[0])
            c = co["def"] if co is not None else None
        elif so.kind == "call" and not so.proj:
            cal = _local_sync_callee(fx, body.call_at(so))
            c = cal["def"] if cal is not None else None
        if c is None or (callee is not None and c != callee):
            return {}
        callee = c
    if callee is None:
        return {}
    out = {}
    seen = set()

    def tr(vn):
        if not via_branch:
            return vn
        return {"Continue": "{Ok,Some}", "Break": "{Err,None}"}.get(vn, vn)
    for (val, _b) in t["targets"]:
        vn = variants.get(val)
        if vn is None:
            return {}
        out[val] = "isw:%s|%s" % (callee, tr(vn))
        seen.add(vn)
    rest = [v for v in variants.values() if v not in seen]
    if rest:
        if via_branch and len(rest) == 1:
            out["otherwise"] = "isw:%s|%s" % (callee, tr(rest[0]))
        else:
            out["otherwise"] = "isw:%s|{%s}" % (callee, ",".join(sorted(rest)))
    return out


def _poll_ready(body, t):
    """(value of the Ready edge, poll block) if this SwitchInt is the poll loop of an await"""
    o = t["o"]
    if o["k"] not in ("copy", "move"):
        return None
    origs = body.origins(o["p"])
    discr = [x for x in origs if x.kind == "discr"]
    if not discr or len(discr) != len(origs):
        return None
    st = body.blocks[discr[0].site[0]]["s"][discr[0].site[1]]
    r = st["r"]
    if r.get("adt") != "core::task::poll::Poll":
        return None
    polls = [x for x in body.origins(r["p"]) if x.kind == "poll"]
    if len(polls) != 1:
        return None
    for val, name in r.get("variants", {}).items():
        if name == "Ready":
            return (val, polls[0].site[0])
    return None


def _awaited_local_coroutine(fx, body, poll_bb):
    cands = set()
    for o in body.polled_future_origins(poll_bb, plumbing=True):
        if o.kind == "call":
            ct = body.call_at(o)
            f = fx.fns.get(ct.get("resolved") or "") or fx.fns.get(ct.get("callee") or "")
            if f is not None and f.get("is_async"):
                kids = [c for c in fx.children_of(f["def"]) if c["kind"] == "coroutine"]
                if len(kids) == 1:
                    cands.add(kids[0]["def"])
                    continue
            return None
        elif o.kind == "agg":
            st = body.blocks[o.site[0]]["s"][o.site[1]]
            if st["r"].get("ak") == "coroutine" and st["r"].get("def") in fx.fns:
                cands.add(st["r"]["def"])
                continue
            return None
        else:
            return None
    if len(cands) == 1:
        return fx.fns[next(iter(cands))]
    return None


def _interesting(cb, alpha):
    """does the callee contain call events of the alphabet (directly)?"""
    cache = alpha.__dict__.setdefault("_int_cache", {})
    if cb.name not in cache:
        cache[cb.name] = any(alpha.call_label(t) for _, t in cb.normal_calls())
    return cache[cb.name]


def retval_label(body, r, alpha=None):
    if r["k"] == "agg" and r.get("ak") == "adt" and r.get("variant"):
        return "retval:" + r["variant"]
    if r["k"] == "use":
        # `let res = Ok(x); ...; res` : the variant is visible at the definition of the moved value
        vs = set()
        if r["o"].get("k") in ("move", "copy"):
            for o in body.origins(r["o"]["p"]):
                if o.kind == "agg":
                    st = body.blocks[o.site[0]]["s"][o.site[1]]
                    if st["r"].get("ak") == "adt" and st["r"].get("variant"):
                        vs.add(st["r"]["variant"])
                        continue
                vs.add(None)
        if len(vs) == 1 and None not in vs:
            return "retval:" + next(iter(vs))
        # a result handed back unchanged: name the labelled call / await that produced it
        if alpha is not None and r["o"].get("k") in ("move", "copy"):
            srcs = _src_labels(body, body.origins(r["o"]["p"]), alpha)
            if len(srcs) == 1:
                return "retval:move@" + next(iter(srcs))
        return "retval:move"
    if r["k"] == "agg":
        return "retval:agg"
    return None


# Result / Option adapters that keep the Ok / Err (Some / None) outcome of their receiver
OUTCOME_PRESERVING = {"core::result::{impl#0}::map_err", "core::result::{impl#0}::map", "core::result::{impl#0}::inspect", "core::result::{impl#0}::inspect_err"}


def _src_labels(body, origs, alpha, depth=0):
    """labels of the calls / awaits that produced a value (looking through `?`)"""
    out = set()
    fx_ = getattr(alpha, "_fx", None)
    for o in origs:
        if o.kind == "await":
            for (_, ct) in body.awaited_calls(o.site[0]):
                lab = alpha.call_label(ct)
                if lab:
                    out.add(lab)
                elif fx_ is not None and depth < 3:
                    # an awaited crate-local async fn that hands back the outcome of a labelled call
                    # (`async fn start_actor(..) -> DynResult<()> { log; actor.started(ctx).await }`)
                    h = fx_.callee_fn(ct)
                    kids = [c for c in fx_.children_of(h["def"]) if c["kind"] == "coroutine"] if (h is not None and h.get("is_async")) else []
                    if len(kids) == 1 and "pre" in kids[0]:
                        cb = Body(kids[0])
                        out |= _src_labels(cb, cb.origins([0]), alpha, depth + 1)
        elif o.kind == "call":
            ct = body.call_at(o)
            callee = ct.get("callee") or ""
            if callee == "core::option::{impl#0}::map" and depth < 4 and not alpha.call_label(ct) and len(ct.get("args", [])) == 2:
                if o.proj and str(o.proj[0]).endswith(":Some"):
                    # the payload of `opt.map(|x| <labelled test>)` is what the closure returned
                    # (`let occupant_stopped = registry.get(&key).map(|e| e.is_stopped()); match occupant_stopped { Some(false) => ..`)
                    for co_ in body.origins(ct["args"][1]):
                        if co_.kind == "agg" and not co_.proj and fx_ is not None:
                            cst = body.blocks[co_.site[0]]["s"][co_.site[1]]["r"]
                            cf = fx_.fn(cst.get("def") or "") if cst.get("ak") == "closure" else None
                            if cf is not None and "pre" in cf:
                                cb = Body(cf)
                                out |= _src_labels(cb, cb.origins([0]), alpha, depth + 1)
                else:
                    # Some / None is that of the value it is applied to
                    out |= _src_labels(body, body.origins(ct["args"][0]), alpha, depth + 1)
            elif (callee.endswith("Try::branch") or callee in OUTCOME_PRESERVING) and depth < 4 and not alpha.call_label(ct):
                # `?` and map_err keep the Ok / Err outcome of the value they are applied to
                out |= _src_labels(body, body.origins(ct["args"][0]), alpha, depth + 1)
            else:
                lab = alpha.call_label(ct)
                if lab:
                    out.add(lab)
                elif fx_ is not None and depth < 3:
                    # a crate-local synchronous helper that hands back the outcome of a labelled call
                    # (`fn upgrade_and_stop(&self) -> Result<Addr<A>> { .. addr.stop().map(|()| addr) .. }`)
                    h = fx_.callee_fn(ct)
                    if h is not None and not h.get("is_async") and h["kind"] in ("fn", "assoc_fn") and "pre" in h:
                        cb = Body(h)
                        out |= _src_labels(cb, cb.origins([0]), alpha, depth + 1)
    return out


def bool_enum_map(fx, g):
    """a crate-local synchronous function that re-encodes a bool as a two-variant enum
    (`const fn timeout_action(&self) -> TimeoutAction { if self.fail_on_timeout { Exit } else { Ignore } }`,
    `OnTimeout::from_fail(fail)`): {"param": index, "proj": field path of the bool inside it, "map": {variant: 0 | 1}}"""
    cache = fx.__dict__.setdefault("_bool_enum_map", {})
    if g["def"] in cache:
        return cache[g["def"]]
    cache[g["def"]] = None
    if g.get("is_async") or g["kind"] not in ("fn", "assoc_fn") or "pre" not in g:
        return None
    gb = Body(g)
    if any(True for _ in gb.normal_calls()):
        return None
    sw = [(bi, blk["t"]) for bi, blk in enumerate(gb.blocks) if not blk["c"] and blk["t"]["k"] == "switch"]
    if len(sw) != 1 or sw[0][1].get("oty") != "bool" or sw[0][1]["o"].get("k") not in ("copy", "move"):
        return None
    src = gb.origins(sw[0][1]["o"]["p"])
    if len(src) != 1:
        return None
    s0 = next(iter(src))
    if s0.kind != "arg":
        return None

    def first_variant(bb):
        seen = set()
        work = [bb]
        found = set()
        while work:
            b_ = work.pop()
            if b_ in seen:
                continue
            seen.add(b_)
            hit = False
            for st in gb.blocks[b_]["s"]:
                if st["k"] == "assign" and st["p"] == [0] and st["r"]["k"] == "agg" and st["r"].get("ak") == "adt" and st["r"].get("variant") and not st["r"].get("ops"):
                    found.add((st["r"].get("def"), st["r"]["variant"]))
                    hit = True
            if not hit:
                work.extend(x for x in gb.succs(b_, unwind=False))
        return found
    m = {}
    adts = set()
    t_ = sw[0][1]
    branches = [(int(v) != 0, b_) for (v, b_) in t_["targets"]]
    vals = {v for v, _ in branches}
    if len(vals) == 1:
        branches.append((not next(iter(vals)), t_["otherwise"]))
    for val, b_ in branches:
        fv = first_variant(b_)
        if len(fv) != 1:
            return None
        adt, vn = next(iter(fv))
        adts.add(adt)
        if vn in m:
            return None
        m[vn] = int(val)
    if len(m) != 2 or len(adts) != 1 or next(iter(adts)).split("::")[0] in ("core", "std", "alloc"):
        return None
    cache[g["def"]] = {"param": s0.site - 1, "proj": tuple(e for e in s0.proj if e != "*"), "map": m, "adt": next(iter(adts))}
    return cache[g["def"]]


def flag_encoding(fx, adt):
    """{variant: 0 | 1} if the crate re-encodes a bool as this two-variant enum (every such function agrees), else None"""
    cache = fx.__dict__.setdefault("_flag_enc", {})
    if adt not in cache:
        maps = []
        for g in fx.d["fns"]:
            if g["kind"] in ("fn", "assoc_fn") and adt.split("::")[-1] in (g.get("output") or ""):
                bm = bool_enum_map(fx, g)
                if bm is not None and bm["adt"] == adt:
                    maps.append(bm["map"])
        cache[adt] = maps[0] if maps and all(m == maps[0] for m in maps) else None
    return cache[adt]


def switch_labels(body, bi, t, alpha, tysub=None):
    """map switch value (string) / 'otherwise' -> label"""
    labels = {}
    o = t["o"]
    if o["k"] not in ("copy", "move"):
        return labels
    origs = body.origins(o["p"])
    # 1. discriminant switch
    discr = [x for x in origs if x.kind == "discr"]
    if discr and len(origs) == len(discr):
        d = discr[0]
        st = body.blocks[d.site[0]]["s"][d.site[1]]
        r = st["r"]
        adt = r.get("adt")
        variants = r.get("variants", {})
        scrut_origs = body.origins(r["p"])
        # poll loop?
        polls = [x for x in scrut_origs if x.kind == "poll"]
        if adt == "core::task::poll::Poll" and polls:
            labs = set()
            for pl in polls:
                for (_, ct) in body.awaited_calls(pl.site[0]):
                    lab = alpha.call_label(ct)
                    if lab:
                        labs.add(lab)
            if not labs and getattr(alpha, "upvar_futs", None):
                # the awaited future is a captured variable of this coroutine (possibly behind map / fuse adapters)
                for pl in polls:
                    os_ = body.polled_future_origins(pl.site[0])
                    if os_ and all(o.kind == "upvar" and o.site in alpha.upvar_futs for o in os_):
                        labs |= {alpha.upvar_futs[o.site] for o in os_}
            if not labs and alpha.fut_types:
                for pl in polls:
                    pt = body.blocks[pl.site[0]]["t"]
                    aty = (pt.get("argtys") or [""])[0]
                    for sub, lab in alpha.fut_types:
                        if sub in aty:
                            labs.add(lab)
                            break
            if labs:
                lab = "|".join(sorted(labs))
                for (val, _b) in t["targets"]:
                    vn = variants.get(val)
                    if vn == "Ready":
                        labels[val] = "done:" + lab
                    elif vn == "Pending":
                        labels[val] = "pend:" + lab
                return labels
            if not (alpha.adts.get(adt) or (alpha.adt_fn and alpha.adt_fn(adt))):
                return labels
            # a hand-written poll function matching on the Poll it got: an ordinary discriminant switch
        short_adt = alpha.adts.get(adt) or (alpha.adt_fn(adt) if (alpha.adt_fn and adt) else None)
        fx_ = getattr(alpha, "_fx", None)
        if not short_adt and alpha.upvar_bools and fx_ is not None and scrut_origs and all(x.kind == "call" and not x.proj for x in scrut_origs) and len(scrut_origs) == 1:
            # a captured bool re-encoded as a two-variant enum by a crate-local pure function, then matched on: the match is
            # the branch on that bool
            ct = body.call_at(next(iter(scrut_origs)))
            g = fx_.callee_fn(ct)
            bm = bool_enum_map(fx_, g) if g is not None else None
            if bm is not None and bm["param"] < len(ct["args"]) and ct["args"][bm["param"]].get("k") in ("copy", "move"):
                a = ct["args"][bm["param"]]
                srcs = body.origins(list(a["p"]) + list(bm["proj"]))
                if srcs and all(x.kind == "upvar" for x in srcs) and len({(x.site, tuple(e for e in x.proj if e != "*")) for x in srcs}) == 1:
                    s0 = next(iter(srcs))
                    name = "upvar%d%s" % (s0.site, "".join("." + e for e in s0.proj if e != "*"))
                    seen = set()
                    for (val, _b) in t["targets"]:
                        vn = variants.get(val)
                        if vn in bm["map"]:
                            labels[val] = "bool:%s=%d" % (name, bm["map"][vn])
                            seen.add(vn)
                    rest = [v for v in variants.values() if v not in seen]
                    if len(rest) == 1 and rest[0] in bm["map"]:
                        labels["otherwise"] = "bool:%s=%d" % (name, bm["map"][rest[0]])
                    return labels
        if not short_adt and alpha.upvar_bools and fx_ is not None and adt and scrut_origs and all(x.kind == "upvar" for x in scrut_origs) and len({(x.site, tuple(e for e in x.proj if e != "*")) for x in scrut_origs}) == 1:
            # a captured flag stored as a two-variant enum (`config.on_timeout: OnTimeout`, set through `from_fail(bool)`)
            enc = flag_encoding(fx_, adt)
            if enc:
                s0 = next(iter(scrut_origs))
                name = "upvar%d%s" % (s0.site, "".join("." + e for e in s0.proj if e != "*"))
                seen = set()
                for (val, _b) in t["targets"]:
                    vn = variants.get(val)
                    if vn in enc:
                        labels[val] = "bool:%s=%d" % (name, enc[vn])
                        seen.add(vn)
                rest = [v for v in variants.values() if v not in seen]
                if len(rest) == 1 and rest[0] in enc:
                    labels["otherwise"] = "bool:%s=%d" % (name, enc[rest[0]])
                return labels
        if short_adt:
            srcs = _src_labels(body, scrut_origs, alpha)
            suffix = ("@" + "|".join(sorted(srcs))) if srcs else ""
            if not suffix:
                ty_ = r.get("ty", "")
                if tysub:
                    # a spliced generic helper: its type parameters stand for what the caller instantiated them with
                    import re as _re
                    for k_, v_ in tysub.items():
                        ty_ = _re.sub(r"(?<![\w:])%s(?![\w:])" % _re.escape(k_), lambda _m, v__=v_: v__, ty_)
                for sub, tag in alpha.type_tags:
                    if sub in ty_:
                        suffix = "@" + tag
                        break
            seen = set()
            for (val, _b) in t["targets"]:
                vn = variants.get(val, val)
                labels[val] = "sw:%s::%s%s" % (short_adt, vn, suffix)
                seen.add(vn)
            rest = [v for v in variants.values() if v not in seen]
            if len(rest) == 1:
                labels["otherwise"] = "sw:%s::%s%s" % (short_adt, rest[0], suffix)
            elif rest:
                labels["otherwise"] = "sw:%s::{%s}%s" % (short_adt, ",".join(sorted(rest)), suffix)
        return labels
    # 2a. bool switch on a captured variable
    if t.get("oty") == "bool" and alpha.upvar_bools and origs and all(x.kind == "upvar" for x in origs) and len({(x.site, tuple(e for e in x.proj if e != "*")) for x in origs}) == 1:
        idx = next(iter(origs)).site
        # a captured bool, or a bool field of a captured struct / reference (`config.fail_on_timeout`): upvar3.f1
        name = "upvar%d%s" % (idx, "".join("." + e for e in next(iter(origs)).proj if e != "*"))
        for (val, _b) in t["targets"]:
            labels[val] = "bool:%s=%d" % (name, int(int(val) != 0))
        vals = {int(v) != 0 for (v, _) in t["targets"]}
        if len(vals) == 1:
            labels["otherwise"] = "bool:%s=%d" % (name, int(not next(iter(vals))))
        return labels
    # 2. bool switch on a call result
    if t.get("oty") == "bool" and alpha.bools:
        neg = False
        cur = origs
        # look through `!x`
        for _ in range(3):
            ops = [x for x in cur if x.kind == "op"]
            if len(ops) == 1 and len(cur) == 1:
                st = body.blocks[ops[0].site[0]]["s"][ops[0].site[1]]
                if st["r"]["k"] == "un" and st["r"]["op"] == "Not":
                    neg = not neg
                    cur = body.origins(st["r"]["o"])
                    continue
            break
        labs = set()
        for x in cur:
            if x.kind == "call":
                lab = alpha.call_label(body.call_at(x))
                if lab in alpha.bools:
                    labs.add(lab)
        if not labs and len(cur) == 1:
            # the bool inside `opt.map(|x| <labelled test>)`, matched as `Some(true)` / `Some(false)`
            via = _bool_through_option_map(body, next(iter(cur)), alpha)
            if via is not None:
                lab, neg2 = via
                n_ = neg != neg2
                for (val, _b) in t["targets"]:
                    labels[val] = "bool:%s=%d" % (lab, int((int(val) != 0) != n_))
                vals = {int(v) != 0 for (v, _) in t["targets"]}
                if len(vals) == 1:
                    labels["otherwise"] = "bool:%s=%d" % (lab, int((not next(iter(vals))) != n_))
                return labels
        if len(labs) == 1 and len(cur) == 1:
            lab = next(iter(labs))
            suffix = ""
            if getattr(alpha, "bool_srcs", False):
                # what the predicate is applied to (`res.is_err()` with `res` the outcome of the labelled call / await)
                pt = body.call_at(next(iter(cur)))
                if pt["args"]:
                    ss = _src_labels(body, body.origins(pt["args"][0]), alpha)
                    suffix = ("@" + "|".join(sorted(ss))) if ss else "@?"
            for (val, _b) in t["targets"]:
                v = int(val) != 0
                labels[val] = "bool:%s=%d%s" % (lab, int(v != neg), suffix)
            # otherwise = the other value(s)
            vals = {int(v) != 0 for (v, _) in t["targets"]}
            if len(vals) == 1:
                ov = not next(iter(vals))
                labels["otherwise"] = "bool:%s=%d%s" % (lab, int(ov != neg), suffix)
    return labels


def _bool_through_option_map(body, o, alpha):
    """`o`: the origin of a bool that is the payload of an `Option` made by `opt.map(closure)` with a visible closure whose
    returned value is the result of one call labelled as a bool test: (label, negated) or None"""
    if o.kind != "call" or not o.proj or not str(o.proj[0]).endswith(":Some"):
        return None
    ct = body.call_at(o)
    fx_ = getattr(alpha, "_fx", None)
    if (ct.get("callee") or "") != "core::option::{impl#0}::map" or len(ct.get("args", [])) != 2 or fx_ is None:
        return None
    cos = body.origins(ct["args"][1])
    if len(cos) != 1:
        return None
    co_ = next(iter(cos))
    if co_.kind != "agg" or co_.proj:
        return None
    cst = body.blocks[co_.site[0]]["s"][co_.site[1]]["r"]
    cf = fx_.fn(cst.get("def") or "") if cst.get("ak") == "closure" else None
    if cf is None or "pre" not in cf:
        return None
    cb = Body(cf)
    cur = cb.origins([0])
    neg = False
    for _ in range(3):
        ops = [x for x in cur if x.kind == "op"]
        if len(ops) == 1 and len(cur) == 1:
            st = cb.blocks[ops[0].site[0]]["s"][ops[0].site[1]]
            if st["r"]["k"] == "un" and st["r"]["op"] == "Not":
                neg = not neg
                cur = cb.origins(st["r"]["o"])
                continue
        break
    if len(cur) != 1 or next(iter(cur)).kind != "call":
        return None
    lab = alpha.call_label(cb.call_at(next(iter(cur))))
    return (lab, neg) if lab in alpha.bools else None


# ---- conformance ----------------------------------------------------------------------------------

class Spec:
    """Deterministic monitor. Subclasses define init and step(state, label) -> state | Err."""
    init = None

    def step(self, state, label):
        return state

    def at_end(self, state, how):
        """how in RET/CANCEL/UNWIND; return None or an error string"""
        return None


class Err:
    def __init__(self, msg):
        self.msg = msg


_INFEASIBLE = object()


class _Correlated(Spec):
    """wraps a monitor: a spliced callee announces the enum variant it returns (`iret:<callee>|<V>`), the caller's match on
    that value (`isw:<callee>|<V'>`) is only followed when the variants agree — paths that pair the callee's one outcome
    with the caller's reaction to another do not exist"""

    def __init__(self, inner):
        self.inner = inner
        self.init = (inner.init, ())

    def step(self, st, label):
        ist, corr = st
        if label.startswith("iret:"):
            callee, v = label[5:].rsplit("|", 1)
            return (ist, tuple(sorted(dict(corr, **{callee: v}).items())))
        if label.startswith("vset:"):
            vid, v = label[5:].rsplit("|", 1)
            return (ist, tuple(sorted(dict(corr, **{vid: v}).items())))
        if label.startswith("vcopy:"):
            vid, callee = label[6:].rsplit("|", 1)
            d = dict(corr)
            if d.get(callee) is not None:
                d[vid] = d[callee]
            else:
                d.pop(vid, None)
            return (ist, tuple(sorted(d.items())))
        if label.startswith("vtst:"):
            vid, v = label[5:].rsplit("|", 1)
            have = dict(corr).get(vid)
            if have is not None and have not in v[1:-1].split(","):
                return _INFEASIBLE
            return st
        if label.startswith("isw:"):
            callee, v = label[4:].rsplit("|", 1)
            have = dict(corr).get(callee)
            if have is not None:
                if v.startswith("{"):
                    if have not in v[1:-1].split(","):
                        return _INFEASIBLE
                elif have != v:
                    return _INFEASIBLE
            return st
        ns = self.inner.step(ist, label)
        if isinstance(ns, Err) or ns is _INFEASIBLE:
            return ns
        return (ns, corr)

    def at_end(self, st, node):
        return self.inner.at_end(st[0], node)


def check(nfa: NFA, spec: Spec, max_viol=3, init_corr=None):
    """BFS over the product. Returns (violations, product_states). Each violation: dict(msg, trace)."""
    if getattr(nfa, "has_corr", False) or init_corr:
        spec = _Correlated(spec)
        if init_corr:
            spec.init = (spec.init[0], tuple(sorted(init_corr.items())))
    start = (nfa.entry, spec.init)
    pred = {start: None}
    dq = deque([start])
    viols = []
    seen_msgs = set()
    while dq:
        if len(pred) > 2000000:
            raise RuntimeError("product automaton too large (unbounded monitor state?) for %s" % nfa.name)
        cur = dq.popleft()
        node, st = cur
        if node in (RET, CANCEL, UNWIND):
            e = spec.at_end(st, node)
            if e and e not in seen_msgs:
                seen_msgs.add(e)
                viols.append({"msg": e, "trace": trace_of(pred, cur)})
            continue
        for (label, dst, loc) in nfa.edges.get(node, []):
            if label is None:
                ns = st
            else:
                ns = spec.step(st, label)
                if ns is _INFEASIBLE:
                    continue
                if isinstance(ns, Err):
                    if ns.msg not in seen_msgs:
                        seen_msgs.add(ns.msg)
                        viols.append({"msg": ns.msg, "trace": trace_of(pred, cur) + [{"ev": label, "loc": loc}]})
                    continue
            nxt = (dst, ns)
            if nxt not in pred:
                pred[nxt] = (cur, label, loc)
                dq.append(nxt)
        if len(viols) >= max_viol:
            break
    return viols, len(pred)


def trace_of(pred, cur):
    out = []
    while pred.get(cur) is not None:
        prev, label, loc = pred[cur]
        if label is not None:
            out.append({"ev": label, "loc": loc})
        cur = prev
    out.reverse()
    return out


def words(nfa: NFA, limit=40, maxlen=60):
    """a few sample event words entry -> RET (acyclic DFS over the event graph)"""
    g = nfa.event_graph()
    out = []

    def dfs(n, path, visited):
        if len(out) >= limit:
            return
        if n == RET:
            out.append(list(path))
            return
        if n in (CANCEL, UNWIND) or len(path) > maxlen:
            return
        for (l, d) in sorted(g.get(n, []), key=lambda e: str(e)):
            if l in ("unwind", "cancel"):
                continue
            if (n, l, d) in visited:
                continue
            path.append(l)
            dfs(d, path, visited | {(n, l, d)})
            path.pop()

    dfs(nfa.entry, [], frozenset())
    return out


def reachable_labels(nfa: NFA, frm, stop_labels=(), skip=("unwind", "cancel")):
    """labels reachable from node `frm` before crossing any edge in stop_labels"""
    seen = {frm}
    st = [frm]
    labs = set()
    while st:
        x = st.pop()
        for (l, d, _) in nfa.edges.get(x, []):
            if l is not None:
                if l in skip:
                    continue
                labs.add(l)
                if any(l.startswith(s) for s in stop_labels):
                    continue
            if d not in seen:
                seen.add(d)
                st.append(d)
    return labs


def edges_labelled(nfa: NFA, prefix):
    out = []
    for src, es in nfa.edges.items():
        for (l, d, loc) in es:
            if l is not None and l.startswith(prefix):
                out.append((src, l, d, loc))
    return out
