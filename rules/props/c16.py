"""C16 — children live exactly as long as their parent and receive its broadcasts."""
import core, nfa, graph, own, loops
from mir import Body
from tywalk import field_accesses

EXPL = ("R16.1 (census over resolved field accesses): the child table is a field of Context<A>; only add_child, "
        "register_child, send_to_children and the context's constructor touch it, and none of them removes entries — so "
        "it is released exactly when the Context is, i.e. when the loop future ends on any path (C02/C05 rules). "
        "R16.2 (dyn table + generic-argument agreement): what is erased into the table is Box<Sender<M>> — a strong "
        "handle kind — under TypeId::of::<M>() with the same M (unit for add_child); the broadcast looks up the same "
        "key and downcasts to the same type. R16.3 (A1): one force_send(clone) per matching child, a failing child "
        "does not end the broadcast.")

WRITERS = {"context::Context::<A>::add_child", "context::Context::<A>::register_child", "context::Context::<A>::send_to_children"}
REMOVERS = ("::clear", "::remove", "::drain", "::retain", "::pop", "::truncate", "::take", "::swap_remove", "::remove_entry", "::extract_if")


class Broadcast(nfa.Spec):
    init = ("idle", 0)

    def step(self, st, label):
        label = loops.norm(label)
        ev = label.split("@")[0]
        src = label.split("@")[1] if "@" in label else ""
        ph, n = st
        if ev == "call:iternext":
            return ("iter", 0)
        if ev == "call:force_send":
            if n >= 1:
                return nfa.Err("R16.3: more than one delivery per child in one broadcast")
            return (ph, n + 1)
        if ev == "sw:Res::Err" and src == "force_send":
            return ("failed_child", n)
        if ev == "ret" and ph == "failed_child":
            return nfa.Err("R16.3: a failing child ends the broadcast")
        return st


def run(ctx):
    ctx.explanation = EXPL
    ctx.assumptions = ["HashMap / Vec semantics", "TypeId is injective on types"]
    cfgs = ["tokio"] if ctx.tier == "quick" else ["tokio", "smol", "asyncstd"]
    for cfg in cfgs:
        fx = ctx.facts(cfg) if cfg == "tokio" else ctx.try_facts(cfg)
        if fx is None:
            continue
        ctx.cfg_tag = cfg
        run_cfg(ctx, fx)
        # R16.5 (shared with C05) a released child with no other strong handle does stop: the library's own timer futures of
        # the child hold it weakly while they sleep (otherwise a child with two timers outlives its parent for ever)
        from props import c05
        ctx.cfg_tag = None
        core.shared(ctx, "R16.5", c05.check_timers_own_nothing, ctx, fx, cfg, "R16.5")
        # R16.6 (shared with C05) ... and notices that it was released: both event loops leave on a closed mailbox (a stream-fed
        # child whose loop never sees the closed mailbox outlives its parent while its stream stays open)
        core.shared(ctx, "R16.6", c05.check_closed_mailbox_exit, ctx, fx, cfg, "R16.6")
    return core.finish(ctx)


def check_child_table_access(ctx, fx, RULE="R16.1"):
    """the child table lives in the one Context an actor is born with and is only ever added to: it is touched by
    add_child / register_child / send_to_children alone, a Context is constructed in one place, nothing removes entries"""
    # R16.1 who touches Context.children
    touch = {}
    for f in fx.d["fns"]:
        b = ctx.body(fx, f)
        for bi, where, name, place in field_accesses(fx, f, b, "context::Context"):
            if name == "children":
                touch.setdefault(f["def"], []).append(b.term(bi)["l"])
    # constructor literals of Context
    ctors = set()
    for f in fx.d["fns"]:
        b = ctx.body(fx, f)
        for bi, blk in enumerate(b.blocks):
            for st in blk["s"]:
                if st["k"] == "assign" and st["r"]["k"] == "agg" and st["r"].get("def") == "context::Context":
                    ctors.add(f["def"])
    # counted: add_child, register_child, send_to_children — a writer may also delegate to another writer (R16.2 checks how)
    delegating = set()
    for w in WRITERS:
        wf = fx.fn(w)
        if wf is not None and w not in touch and any((t.get("resolved") or t.get("callee")) in WRITERS for _, t in ctx.body(fx, wf).normal_calls()):
            delegating.add(w)
    writer_helpers = graph.private_helpers(fx, set(WRITERS))  # private accessors only the writers use
    # (writers that reach the table through such an accessor — `self.children_slot::<M>()` — count for it)
    via_helper = {w for w in WRITERS if fx.fn(w) is not None and w not in touch and w not in delegating and any((t.get("resolved") or t.get("callee")) in writer_helpers and (t.get("resolved") or t.get("callee")) in {fx.fn(x).get("root", x) for x in touch} for _, t in ctx.body(fx, fx.fn(w)).normal_calls())}
    ctx.floor(RULE, "functions touching Context.children", len(touch) + len(delegating) + len(via_helper), 3)
    for fn_, locs in sorted(touch.items()):
        root = fx.fn(fn_).get("root", fn_)
        ctx.require(root in WRITERS or root in writer_helpers, RULE, "access:" + fn_, "the child table is accessed outside add_child / register_child / send_to_children", fn=fn_, site=locs[0], detail={"sites": len(locs)})
    ctx.require(len(ctors) == 1, RULE, "context-constructors", "Context is constructed in %s (expected exactly the environment's constructor)" % sorted(ctors), detail=sorted(ctors))
    for w in sorted(WRITERS):
        if not ctx.require(fx.fn(w) is not None, RULE, "exists:" + w, "%s not found" % w):
            continue
        for f in graph.family(fx, w):
            b = ctx.body(fx, f)
            bad = [(t["callee"], t["l"]) for _, t in b.normal_calls() if (t.get("callee") or "").endswith(REMOVERS) and ("HashMap" in (t.get("self_ty") or "") or "Vec" in (t.get("self_ty") or "") or "hash_map" in (t.get("callee") or "") or "vec::" in (t.get("callee") or ""))]
            ctx.require(not bad, RULE, "no-removal:" + f["def"], "children are removed from the table: %s" % bad, fn=f["def"], site=f["loc"])


def run_cfg(ctx, fx):
    check_child_table_access(ctx, fx)
    check_child_store(ctx, fx)
    check_registration_unconditional(ctx, fx)
    # R16.8 (shared with C15) "delivers the message exactly once to every child registered under that message type": the broadcast
    # goes through the forcing half, which refuses a message only when the child's mailbox is closed — never because it is full
    from props.c15 import check_forcing_never_refuses
    core.shared(ctx, "R16.8", check_forcing_never_refuses, ctx, fx, fx.cfg, "R16.8")
    check_rest(ctx, fx)


def check_child_store(ctx, fx, RULE="R16.2"):
    """what is erased into the child table is a Sender<M> under the key of M (shared with C19: a child can only be
    registered through the conversion into Sender<M>, which is where `C: Handler<M>` and `M::Response = ()` are demanded)"""
    n_w = 0
    for w, expect_m in (("context::Context::<A>::add_child", "()"), ("context::Context::<A>::register_child", "M")):
        f = fx.fn(w)
        if f is None:
            continue
        n_w += 1
        b = ctx.body(fx, f)
        keys, stored = [], []
        any_sites = [s_ for key, ent in fx.dyn.items() if key.startswith("dyn core::any::Any") for s_ in ent["sites"]]

        def scan(g, subst, depth):
            """keys computed and values erased in `g` and its closures, and in the private helpers of the context they call
            (`self.children_of_mut::<M>()`, `self.children.slot::<M>()`), the helpers' type parameters replaced by what
            the call site passes"""
            for gg in graph.family(fx, g["def"]):
                gb = ctx.body(fx, gg)
                for s_ in any_sites:
                    if s_.get("in") == gg["def"]:
                        stored.append(subst(s_["src"]))
                for _bk, tk in gb.normal_calls():
                    c = tk.get("callee") or ""
                    if c.endswith("::of") and "TypeId" in (tk.get("destty") or "") and tk.get("gargs"):
                        keys.append(subst(tk["gargs"][0]))
                        continue
                    hk = fx.callee_fn(tk)
                    if hk is None or depth >= 2 or hk.get("is_async") or hk["kind"] not in ("fn", "assoc_fn") or hk["def"] in WRITERS or hk.get("vis") == "pub":
                        continue
                    if not (hk.get("impl_self") or "").startswith("context::"):
                        continue
                    gen = hk.get("generics") or []
                    ga = tk.get("gargs") or []
                    m = {gen[i]: subst(ga[i]) for i in range(min(len(gen), len(ga)))}

                    def sub2(x, _m=m):
                        import re as _re
                        return _re.sub(r"\b(%s)\b" % "|".join(map(_re.escape, _m)), lambda mo: _m[mo.group(1)], x) if _m else x
                    scan(hk, sub2, depth + 1)
        scan(f, lambda x: x, 0)
        stored = sorted(set(stored))
        if expect_m == "M":
            fx._child_store_form = list(stored)
        # what is erased under the key of M is a Sender<M>, or the vector of them (one table entry per message type)
        good_stored = (["addr::sender::Sender<%s>" % expect_m], ["alloc::vec::Vec<addr::sender::Sender<%s>, alloc::alloc::Global>" % expect_m])
        ok = keys == [expect_m] and stored in good_stored
        if not keys and stored in ([], ["addr::sender::Sender<%s>" % expect_m]):
            # delegation: `self.register_child::<()>(child)` — the other writer instantiated at the expected message type,
            # given this function's own child parameter
            dels = [t for _, t in b.normal_calls() if (t.get("resolved") or t.get("callee")) in WRITERS and (t.get("resolved") or t.get("callee")) != w]
            def m_arg(t_):
                cal = fx.callee_fn(t_)
                gen = (cal or {}).get("generics") or []
                ga = t_.get("gargs") or []
                return ga[gen.index("M")] if "M" in gen and gen.index("M") < len(ga) else None
            ok = len(dels) == 1 and m_arg(dels[0]) == expect_m and len(dels[0]["args"]) >= 2 and all(o.kind == "arg" for o in b.origins(dels[0]["args"][1]))
            keys, stored = ["via " + (dels[0].get("callee") or "?") + "::<" + ",".join(dels[0].get("gargs") or []) + ">"] if dels else [], []
        ctx.require(ok, RULE, "store:" + w, "child must be stored as a strong Sender<%s> under TypeId::of::<%s>(): keys %s stored %s" % (expect_m, expect_m, keys, stored), fn=w, site=f["loc"], detail={"key": keys, "stored": stored})
    ctx.floor(RULE, "functions that register children", n_w, 2)


class _StoredOnEveryPath(nfa.Spec):
    """a child handed to a registration method is in the table when the method returns — on every path that can occur (the
    entry of a message type casts back to the type it was created with: the `None` of that downcast does not occur)"""
    init = (False,)

    def step(self, st, label):
        ev = label.split("@")[0]
        src = label.split("@")[1] if "@" in label else ""
        if ev in ("unwind", "cancel"):
            return st
        if ev == "call:store":
            return (True,)
        if ev == "sw:Option::None" and src == "downcast":
            return nfa._INFEASIBLE
        if ev == "ret" and not st[0]:
            return nfa.Err("R16.7: the method returns without having stored the child (a registration that is silently skipped: the child misses every broadcast of that type)")
        return st


def check_registration_unconditional(ctx, fx, RULE="R16.7"):
    import inline
    A = nfa.Alphabet(
        calls=[("store", lambda t: (t.get("callee") or "").endswith(("vec::{impl#1}::push", "::push")) and "alloc::vec::Vec<" in (t.get("self_ty") or "") or ((t.get("callee") or "").startswith("std::collections::hash::map::") and (t.get("callee") or "").endswith("::insert"))),
               ("downcast", lambda t: (t.get("callee") or "").endswith(("::downcast_mut", "::downcast_ref", "::downcast")))],
        adts={"core::option::Option": "Option"})
    for w in ("context::Context::<A>::add_child", "context::Context::<A>::register_child"):
        f = fx.fn(w)
        if f is None:
            continue
        b = inline.body(ctx, fx, f, inline.not_public)
        n = nfa.build(b, A, fx, depth=2)
        viols, ps = nfa.check(n, _StoredOnEveryPath())
        ctx.count_nfa(n.stats(), ps)
        for v in viols:
            ctx.viol(RULE, "registered-on-every-path:" + w, v["msg"], fn=w, site=f["loc"], trace=v["trace"])
        if not viols:
            ctx.ok(RULE, "registered-on-every-path:" + w, f["loc"], {"words": [" ".join(x) for x in nfa.words(n, limit=2)]})


def check_rest(ctx, fx):
    f = fx.fn("context::Context::<A>::send_to_children")
    if f is not None:
        fam = graph.family(fx, f["def"])
        keys, casts = [], []

        def scan(g, subst, depth):
            b = ctx.body(fx, g)
            for _, t in b.normal_calls():
                c = t.get("callee") or ""
                if c.endswith("::of") and "TypeId" in (t.get("destty") or ""):
                    keys.append(subst(t["gargs"][0]))
                if c.endswith("::downcast_ref") or c.endswith("::downcast"):
                    casts.append(subst(t["gargs"][0]) if t["gargs"] else None)
                # the lookup may live in methods of the table's wrapper type (`self.children.senders::<M>()`), also when
                # such a method is passed on as a function value (`filter_map(Self::as_sender::<M>)`)
                cands = [(fx.callee_fn(t), t.get("gargs") or [])]
                for a in t["args"]:
                    if a.get("k") == "const" and a.get("fn") in fx.fns:
                        cands.append((fx.fns[a["fn"]], a.get("gargs") or []))
                for h, ga in cands:
                    if h is not None and depth < 2 and not h.get("is_async") and h["kind"] in ("fn", "assoc_fn") and ((h.get("impl_self") or "").startswith("context::") or h["def"].startswith("context::")) and h["def"] not in WRITERS:
                        gen = h.get("generics") or []
                        m = {gen[i]: subst(ga[i]) for i in range(min(len(gen), len(ga)))}

                        def sub2(s, _m=m):
                            import re as _re
                            return _re.sub(r"\b(%s)\b" % "|".join(map(_re.escape, _m)), lambda mo: _m[mo.group(1)], s) if _m else s
                        for hh in graph.family(fx, h["def"]):
                            scan(hh, sub2, depth + 1)
        for g in fam:
            scan(g, lambda s: s, 0)
        if False:
            for _ in ():
                pass
        # (the table entry may be the vector of the senders for M: then that is what the lookup casts back to, cf. the store rule)
        ok = keys == ["M"] and casts in (["addr::sender::Sender<M>"], ["alloc::vec::Vec<addr::sender::Sender<M>, alloc::alloc::Global>"])
        # ... and it casts back to what register_child erased (a different type would find nobody)
        form = getattr(fx, "_child_store_form", None)
        if form:
            ok = ok and casts == form
        ctx.require(ok, "R16.2", "lookup:send_to_children", "broadcast must look up TypeId::of::<M>() and downcast to Sender<M>: keys %s casts %s" % (keys, casts), fn=f["def"], site=f["loc"], detail={"key": keys, "downcast": casts})
        # R16.3
        A = nfa.Alphabet(
            calls=[("force_send", nfa.callee_is("addr::sender::Sender::<M>::force_send")), ("iternext", nfa.callee_ends("Iterator::next"))],
            adts={"core::result::Result": "Res", "core::option::Option": "Option"},
        )
        b = ctx.body(fx, f)
        n = nfa.build(b, A)
        viols, ps = nfa.check(n, Broadcast())
        ctx.count_nfa(n.stats(), ps)
        sends = len(nfa.edges_labelled(n, "call:force_send"))
        for v in viols:
            ctx.viol("R16.3", "send_to_children", v["msg"], fn=f["def"], site=f["loc"], trace=v["trace"])
        if not viols:
            ctx.require(sends == 1, "R16.3", "send_to_children", "expected exactly one force_send site in the broadcast loop, found %d" % sends, fn=f["def"], site=f["loc"], detail={"nfa": n.stats()})
        # the message delivered is a clone of the argument
        for bi, t in b.normal_calls():
            if t.get("callee") == "addr::sender::Sender::<M>::force_send":
                o = b.origins(t["args"][1])
                ctx.require(all(x.kind == "arg" for x in o), "R16.3", "delivers-argument", "the broadcast delivers something else than (a clone of) its argument", fn=f["def"], site=t["l"])
    # the stored kind is strong (shared with C05/C15): Sender owns a mailbox atom
    o = fx.owns_of("addr::sender::Sender", "adt")
    mb = [a for a in (o["atoms"] if o else []) if own.classify(a)[0] == "mailbox"]
    ctx.require(len(mb) >= 1, "R16.2", "Sender-is-strong", "Sender<M> owns no mailbox sender: children would not be kept alive", site=fx.adts["addr::sender::Sender"]["loc"] if "addr::sender::Sender" in fx.adts else None)
    # the context (hence the table) is owned by the loop future: released on every exit
    for lf, kind in loops.find_loops(fx):
        ctxup = [u for u in lf.get("upvars", []) if u.startswith("context::Context<")]
        ctx.require(len(ctxup) == 1, "R16.1", "loop-owns-context:" + kind, "the %s loop future does not own the Context (children would outlive or predecease the parent)" % kind, fn=lf["def"], site=lf["loc"])
    return None
