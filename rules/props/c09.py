"""C09 — broker delivers each publication exactly once, in one common order."""
import re
import core, nfa, loops, graph, own
from mir import Body, sinks, agg_sites
from props.c15 import roots
from props.c08 import chain

EXPL = ("R09.1 (A2) the subscriber table owns weak senders only. R09.2 (A3) Subscribe inserts the sender under its own "
        "id, Unsubscribe removes that id; ContextID values are minted only by the process-wide counter, so re-subscribing "
        "overwrites and never duplicates. R09.3 (A1) per publication the handler upgrades the table once "
        "(values → filter_map(WeakSender::upgrade) → collect) and sends one clone of the published message to each "
        "collected subscriber, awaiting each send; a failing subscriber does not end the fan-out. R09.4 (A3) every "
        "publish / subscribe / unsubscribe entry point ends in Addr::send to the broker actor obtained from the registry, "
        "so one mailbox (C01) serialises publications and subscriptions and one handler fans out sequentially: a common "
        "order extending each publisher's order. Not decided: progress when a live subscriber's bounded mailbox stays full.")


def fanout_alphabet():
    """the iteration over strong senders (the live subscribers of this publication) is the fan-out proper; an iteration
    over the table's weak senders is either the collection of the live ones (explicit loop form of values →
    filter_map(upgrade) → collect) or, with the send in its body, the fused form of both"""
    strong = lambda t: (t.get("callee") or "").endswith("Iterator::next") and "addr::sender::Sender<" in (t.get("destty") or "")
    weak = lambda t: (t.get("callee") or "").endswith("Iterator::next") and "addr::weak_sender::WeakSender<" in (t.get("destty") or "") and "addr::sender::Sender<" not in (t.get("destty") or "")
    push = lambda t: (t.get("callee") or "").endswith(("::push", "::push_back", "::insert")) and "addr::sender::Sender<" in " ".join(t.get("argtys") or []) and "WeakSender<" not in " ".join((t.get("argtys") or [])[:1])
    return nfa.Alphabet(calls=[("send", nfa.callee_is("addr::sender::Sender::<M>::send", "addr::sender::Sender::<M>::force_send")), ("iternext", strong), ("witernext", weak),
                               ("upgrade", nfa.callee_is("addr::weak_sender::WeakSender::<M>::upgrade")), ("keep", push)],
                        adts={"core::option::Option": "Option", "core::result::Result": "Res"})


class FanOut(nfa.Spec):
    init = ("s0", 0)

    def step(self, st, label):
        label = loops.norm(label)
        ev = label.split("@")[0]
        src = label.split("@")[1] if "@" in label else ""
        ph, n = st
        if ev in ("unwind", "cancel") or ev.startswith("pend:"):
            return st
        # ---- iteration over the table's weak entries: n = 2 marks "live ones collected, nothing delivered yet"
        if ev == "call:witernext":
            if ph == "sending":
                return nfa.Err("R09.3: next subscriber taken before the previous send completed")
            if ph == "live":
                return nfa.Err("R09.3: a live subscriber is skipped")
            return ("witer", n)
        if ev == "sw:Option::Some" and src == "witernext":
            return ("witem", n)
        if ev == "sw:Option::None" and src == "witernext":
            return ("collected" if n == 2 else "done", n)
        if ev == "sw:Option::Some" and src == "upgrade" and ph == "witem":
            return ("live", n)
        if ev == "call:keep" and ph == "live":
            return ("witem", 2 if n == 0 else n)
        if ev == "call:send" and ph == "live":
            return ("sending", 1)
        if ev == "ret" and ph in ("live", "witem"):
            return nfa.Err("R09.3: the fan-out ends early (after a single subscriber)")
        if ev == "call:iternext":
            if ph in ("witem", "live"):
                return nfa.Err("R09.3: the collection of the live subscribers ends early")
            if ph == "sending":
                return nfa.Err("R09.3: next subscriber taken before the previous send completed")
            if ph == "item":
                return nfa.Err("R09.3: a live subscriber is skipped")
            return ("iter", 0)
        if ev == "sw:Option::Some" and src == "iternext":
            return ("item", 0)
        if ev == "sw:Option::None" and src == "iternext":
            return ("done", 0)
        if ev == "call:send":
            if ph != "item":
                return nfa.Err("R09.3: a publication is delivered %s" % ("twice to one subscriber" if ph in ("sending", "sent", "failed") else "outside the fan-out loop"))
            return ("sending", 1)
        if ev == "done:send":
            return ("sent", n) if ph == "sending" else st
        if ev == "sw:Res::Err" and src == "send":
            return ("failed", n)
        if ev == "ret":
            if ph in ("failed", "sent", "item", "sending"):
                return nfa.Err("R09.3: the fan-out ends early (after a %s subscriber)" % ("failing" if ph == "failed" else "single"))
            if ph == "s0" or ph == "collected":
                return nfa.Err("R09.3: returns without fan-out")
        return st


def _keeps_live(ctx, fx, c, depth):
    """the predicate is `|_, s| s.upgrade().is_some()`, possibly through a named helper (`is_live(s)`)"""
    cb = ctx.body(fx, c)
    calls = [x for _, x in cb.normal_calls()]
    names = [(x.get("callee") or "").split("::")[-1] for x in calls]
    nots = sum(1 for blk in cb.blocks for st in blk["s"] if st["k"] == "assign" and st["r"]["k"] == "un" and st["r"].get("op") == "Not")
    if names == ["upgrade", "is_some"]:
        return nots == 0
    if names == ["upgrade", "is_none"]:
        return nots == 1
    if len(calls) == 1 and depth > 0 and nots == 0:
        g = fx.callee_fn(calls[0])
        return g is not None and _keeps_live(ctx, fx, g, depth - 1)
    return False


IDTY = "context::id::ContextID"


def _peel(ty):
    ty = ty.strip()
    while ty.startswith("&"):
        ty = ty[1:].lstrip()
        if ty.startswith("mut "):
            ty = ty[4:]
    return ty


def _id_overwrite(locals_, place, valty):
    """a ContextID-typed value stored through a projection of a local that is not itself an id: a field of an existing value
    (a Context, a handle) is given another id after its birth"""
    if len(place) < 2 or not (valty or "").startswith(IDTY):
        return None
    base = _peel(locals_[place[0]]["ty"])
    if base.startswith(IDTY) or base.startswith("("):
        return None
    return base


def check_id_fixed(ctx, fx, RULE, inst="id-fixed-at-birth"):
    """The id a subscriber / an actor is known by is fixed when its context is born: nowhere in the crate is a ContextID stored
    into a field of an already existing value (assignment through a projection, call result written to a projection,
    mem::replace / swap / take through `&mut ContextID`). Birth itself is an aggregate (R09.6 / R15.1), not a field store."""
    # positive control of the predicate (the expected count on the tree is zero)
    pc = _id_overwrite([{"ty": "()"}, {"ty": "&mut context::Context<A>"}, {"ty": IDTY}], [1, "*", "f0"], IDTY) == "context::Context<A>" and _id_overwrite([{"ty": "()"}, {"ty": IDTY}], [1, "f0"], IDTY) is None
    bad, n_fns, n_stores = [], 0, 0
    for f in fx.d["fns"]:
        b = ctx.body(fx, f)
        n_fns += 1
        for l, stores in b.partial.items():
            for (bi, si, st) in stores:
                n_stores += 1
                r = st["r"]
                vt = None
                if r["k"] == "use" and isinstance(r.get("o"), dict) and r["o"].get("p"):
                    op = r["o"]["p"]
                    vt = b.locals[op[0]]["ty"] if len(op) == 1 else None
                    if vt is None and any(o.kind == "call" and (b.call_at(o).get("destty") or "").startswith(IDTY) for o in b.origins(r["o"], through_calls=False)):
                        vt = IDTY
                base = _id_overwrite(b.locals, st["p"], vt)
                if base:
                    bad.append((f["def"], st.get("l"), "field of %s assigned" % base))
        for bi, t in b.normal_calls():
            n_stores += 1
            base = _id_overwrite(b.locals, t.get("dest") or [], t.get("destty"))
            if base:
                bad.append((f["def"], t["l"], "call result written into a field of %s" % base))
            if any(_peel(a).startswith(IDTY) and a.strip().startswith("&mut") for a in t.get("argtys", [])) and not (f.get("impl_self") or "").startswith(IDTY):
                bad.append((f["def"], t["l"], "%s given `&mut ContextID`" % (t.get("callee") or "?")))
    ctx.require(pc and not bad, RULE, inst, "the id of an existing context / handle is overwritten after birth (a subscription, child or registry entry made under the old id is no longer reachable through it; subscribing again makes a second entry for the same mailbox): %s" % (bad if pc else "predicate self-check failed"), fn=bad[0][0] if bad else None, site=bad[0][1] if bad else "crate", detail={"functions": n_fns, "projection_stores_and_calls": n_stores, "positive_control": "synthetic `(*_1).0 = move _2` with _1: &mut Context<A>, _2: ContextID matches; a store into a ContextID itself does not"})
    return n_fns


def run(ctx):
    ctx.explanation = EXPL
    ctx.assumptions = ["C01 for the broker's mailbox", "HashMap semantics"]
    cfgs = ["tokio"] if ctx.tier == "quick" else ["tokio", "smol", "asyncstd"]
    for cfg in cfgs:
        fx = ctx.facts(cfg) if cfg == "tokio" else ctx.try_facts(cfg)
        if fx is None:
            continue
        ctx.cfg_tag = cfg
        run_cfg(ctx, fx)
    return core.finish(ctx)


def run_cfg(ctx, fx):
    # R09.6 one subscriber, one key: every handle of an actor carries the id of that actor's context — the address and the
    # context are given the same id at birth (shared with C15), so a subscription made through the context and an
    # unsubscribe / re-subscribe made through a handle derived from the address meet in the same table entry
    from props import c15 as _c15
    _c15.check_birth(ctx, fx, fx.cfg, "R09.6")
    # R09.8 "subscribing again does not duplicate deliveries" / "unsubscribe ends them": the id under which the table knows a
    # subscriber never changes while its mailbox lives — no ContextID is stored into a field of an existing value (a restart that
    # gives the context a new id makes `subscribe` in started() add a second live entry for the same mailbox)
    n_ = check_id_fixed(ctx, fx, "R09.8")
    ctx.floor("R09.8", "function bodies scanned for id stores (%s)" % fx.cfg, n_, 100)
    # R09.7 "delivered to every subscriber that is still alive": the broker reaches a subscriber by upgrading the weak sender it was
    # given, which needs both halves of the subscriber's channel alive — so whatever strong handle keeps the subscriber alive must
    # keep both (shared with C15; a Caller that pins only the waiting half leaves a live subscriber that every publication skips)
    core.shared(ctx, "R09.7", _c15.check_strong_kinds, ctx, fx, fx.cfg, "R09.7")
    # R09.1
    o = fx.owns_of("broker::Broker", "adt")
    if ctx.require(o is not None, "R09.1", "Broker", "broker::Broker not found"):
        bad = [(c, a["ty"]) for c, p, a in own.keepalive_atoms(o["atoms"])]
        weak = [a["ty"] for a in o["atoms"] if (own.classify(a)[0] or "").startswith("weakch")]
        ctx.require(not bad and weak, "R09.1", "Broker", "the subscriber table keeps subscribers alive: %s" % bad[:2], fn="broker::Broker", site=fx.adts["broker::Broker"]["loc"], detail=weak)
    # R09.2
    # which message makes the broker insert / remove: two message types with a handler each, or one enum message whose
    # variants select the operation in a single handler
    WRAPS = {"insert": ("broker::Subscribe", None), "remove": ("broker::Unsubscribe", None)}
    OP_HANDLER = {}
    for g in fx.impl_fns("handler::Handler", "broker::Broker<"):
        if "broker::Publish<" in (g.get("impl_trait") or ""):
            continue
        gcos = [c for c in fx.children_of(g["def"]) if c["kind"] == "coroutine"]
        if len(gcos) != 1:
            continue
        gb = ctx.body(fx, gcos[0])
        m_ = re.search(r"handler::Handler<([A-Za-z0-9_:]+)<", g.get("impl_trait") or "")
        madt = m_.group(1) if m_ else None
        for _gbi, gt in gb.normal_calls():
            c_ = gt.get("callee") or ""
            if c_.startswith("std::collections::hash::map::") and c_.endswith(("::insert", "::remove")):
                op_ = c_.split("::")[-1]
                var = None
                for o_ in gb.origins(gt["args"][1]):
                    for e_ in o_.proj:
                        if isinstance(e_, str) and e_.startswith("d") and ":" in e_:
                            var = e_.split(":", 1)[1]
                OP_HANDLER.setdefault(op_, []).append((g, var))
                if madt:
                    WRAPS[op_] = (madt, var)
    for msg, op in (("Subscribe", "insert"), ("Unsubscribe", "remove")):
        f = None
        for g in fx.impl_fns("handler::Handler", "broker::Broker<"):
            if "broker::%s<" % msg in (g.get("impl_trait") or ""):
                f = g
        only_variant = None
        if f is None and len(OP_HANDLER.get(op, [])) == 1:
            f, only_variant = OP_HANDLER[op][0]
        if not ctx.require(f is not None, "R09.2", msg, "handler for %s not found" % msg):
            continue
        cos = [c for c in fx.children_of(f["def"]) if c["kind"] == "coroutine"]
        if not ctx.require(len(cos) == 1, "R09.2", msg, "handler body not found", fn=f["def"]):
            continue
        b = ctx.body(fx, cos[0])
        is_tabop = lambda t: (t.get("callee") or "").startswith("std::collections::hash::map::") and (t.get("callee") or "").endswith(("::insert", "::remove", "::entry", "::clear", "::retain"))
        ops = [t for _, t in b.normal_calls() if is_tabop(t)]
        if not ops:
            # the operation may sit behind private helpers / a private trait implemented by the message types
            # (`self.update(subscribe)` -> `change.apply(&mut self.subscribers)`): judged with those inlined
            import inline
            ib = inline.body(ctx, fx, cos[0], inline.not_public)
            iops = [t for _, t in ib.normal_calls() if is_tabop(t)]
            if iops and all((t.get("self_ty") or "").startswith("std::collections::hash::map::HashMap<") or True for t in iops):
                b, ops = ib, iops
        if only_variant is not None:
            # one handler for an enum message: this operation is the one in the arm of its variant
            ops = [t for t in ops if t["callee"].endswith("::" + op)]
        via = None
        if not ops:
            # the table may be wrapped in a crate-local type whose methods perform the map operation: look one call down
            for cbi, ct in b.normal_calls():
                h = fx.callee_fn(ct)
                if h is not None and h["kind"] in ("fn", "assoc_fn") and not h.get("is_async"):
                    hops = [x for _, x in ctx.body(fx, h).normal_calls() if is_tabop(x)]
                    if hops:
                        ops += hops
                        via = (ct, h)
        if not ctx.require(len(ops) == 1 and ops[0]["callee"].endswith("::" + op), "R09.2", msg, "%s must perform exactly one %s on the table: %s" % (msg, op, [t["callee"].split("::")[-1] for t in ops]), fn=cos[0]["def"], site=cos[0]["loc"]):
            continue
        t = ops[0]
        if via is not None:
            # judge key and value inside the wrapper method in terms of its parameters, then the parameters at the call site
            ct, h = via
            hb = ctx.body(fx, h)
            idf = [i for i, fl in enumerate(fx.adts["addr::weak_sender::WeakSender"]["variants"][0]["fields"]) if fl["name"] == "id"]
            idp = "f%d" % idf[0] if idf else "f?"
            mr = roots(hb, t["args"][0])
            kr = hb.origins(t["args"][1])
            ok = all(r.kind == "arg" and r.site == 1 for r in mr) and bool(kr) and all(o.kind == "arg" and o.site == 2 and o.proj and o.proj[-1] == idp for o in kr)
            if op == "insert":
                vr = hb.origins(t["args"][2])
                ok = ok and bool(vr) and all(o.kind == "arg" and o.site == 2 and not [e for e in o.proj if e != "*"] for o in vr)
            # call site: the table is the broker's own, the sender is the one the message carries
            ok = ok and all(r.kind == "upvar" for r in roots(b, ct["args"][0])) and len(ct["args"]) >= 2 and all(o.kind == "upvar" for o in roots(b, ct["args"][1]))
            ctx.require(ok and len(idf) == 1, "R09.2", msg, "%s must key the table by the id of the very sender it carries (through %s)" % (msg, h["def"]), fn=h["def"], site=t["l"], detail={"via": h["def"]})
            continue
        mr = roots(b, t["args"][0])
        kr = b.origins(t["args"][1])
        ok_map = all(r.kind == "upvar" for r in mr)
        # key = <message>.0.id  ; value = <message>.0
        idf = [i for i, fl in enumerate(fx.adts["addr::weak_sender::WeakSender"]["variants"][0]["fields"]) if fl["name"] == "id"]
        idp = "f%d" % idf[0] if idf else "f?"
        ok_key = all(o.kind == "upvar" and o.proj and o.proj[-1] == idp for o in kr)
        ok_val = True
        if op == "insert":
            vr = b.origins(t["args"][2])
            ok_val = all(o.kind == "upvar" for o in vr) and {(o.site, o.proj) for o in vr} == {(o.site, o.proj[:-1]) for o in kr}
        ctx.require(ok_map and ok_key and ok_val and len(idf) == 1, "R09.2", msg, "%s must key the table by the id of the very sender it carries" % msg, fn=cos[0]["def"], site=t["l"], detail={"key": sorted(map(str, kr))})
    # ContextID minted only by the counter
    mints = []
    for f in fx.d["fns"]:
        b = ctx.body(fx, f)
        for bi, si, st in agg_sites(b, adt="context::id::ContextID"):
            mints.append((f, b, st))
    dflt = {g["def"] for g in fx.d["fns"] if g.get("impl_trait_def") == "core::default::Default" and (g.get("impl_self") or "").startswith("context::id::ContextID")}
    # the minting may sit in a private function that only `Default::default` uses (`ContextID::next()`)
    # (one place in the crate writes a ContextID, and what it writes is what the counter handed out — whoever calls that place,
    # `Default::default` or a named `ContextID::fresh()`, gets an id nobody else has)
    ok = len(mints) == 1
    if ok:
        f, b, st = mints[0]
        rs = b.origins(st["r"]["ops"][0])
        ok = all(o.kind == "call" and (b.call_at(o).get("callee") or "").endswith("::fetch_add") for o in rs)
    ctx.require(ok, "R09.2", "ids-from-counter", "ContextID must be minted only by the atomic counter (unique ids): %s" % [m[0]["def"] for m in mints], site=mints[0][2].get("l") if mints else None)
    derives = [i for i in fx.d["impls"] if i["self"].startswith("context::id::ContextID") and i.get("trait") in ("core::cmp::PartialEq", "core::hash::Hash", "core::cmp::Eq")]
    ctx.require(len(derives) == 3, "R09.2", "id-eq-hash", "ContextID must implement Eq + Hash consistently (derived)", detail=[i.get("trait") for i in derives])
    # R09.3
    f = None
    for g in fx.impl_fns("handler::Handler", "broker::Broker<"):
        if "broker::Publish<" in (g.get("impl_trait") or ""):
            f = g
    if ctx.require(f is not None, "R09.3", "publish-handler", "publish handler not found"):
        co = [c for c in fx.children_of(f["def"]) if c["kind"] == "coroutine"][0]
        b = ctx.body(fx, co)
        A = fanout_alphabet()
        n = nfa.build(b, A, fx, depth=2)  # the fan-out may sit in a method the handler awaits (`self.distribute(topic).await`)
        viols, ps = nfa.check(n, FanOut())
        ctx.count_nfa(n.stats(), ps)
        for v in viols:
            ctx.viol("R09.3", "fan-out", v["msg"], fn=co["def"], site=co["loc"], trace=v["trace"])
        if not viols:
            ctx.ok("R09.3", "fan-out", co["loc"], {"words": [" ".join(w) for w in nfa.words(n, limit=3)]})
        import loops as _loops
        pub_family = [(g_, ctx.body(fx, g_)) for g_ in _loops.loop_family(fx, co) if (g_.get("impl_self") or g_["def"]).startswith(("broker::", "<broker::")) or g_["def"].startswith(("broker::", "<broker::"))]
        n_send = 0
        for co_s, b_s in pub_family:
          for bi, t in b_s.normal_calls():
            if t.get("callee") == "addr::sender::Sender::<M>::send":
                n_send += 1
                b = b_s
                # message = clone of the published one; receiver = element of the upgraded collection
                mr = roots(b, t["args"][1])
                if co_s is not co:
                    # in a helper: the message is the helper's own parameter, which the handler binds to the publication
                    hcalls = [ht for _hb, ht in ctx.body(fx, co).normal_calls() if not (ht.get("callee") or "").endswith(("Future::poll", "poll_unpin")) and fx.callee_fn(ht) is not None and (fx.callee_fn(ht)["def"] == co_s.get("parent") or fx.callee_fn(ht)["def"] == co_s["def"])]
                    bound = bool(hcalls) and all(all(r2.kind == "upvar" for r2 in roots(ctx.body(fx, co), a_)) for ht in hcalls for a_ in ht["args"][1:] if a_.get("k") in ("move", "copy"))
                    ctx.require(bound, "R09.3", "delivers-publication:binding", "the helper that fans out is not given the published message", fn=co["def"], site=t["l"])
                ctx.require(all(r.kind == "upvar" for r in mr), "R09.3", "delivers-publication", "what is delivered is not (a clone of) the published message", fn=co["def"], site=t["l"])
                rr = b.origins(t["args"][0])
                src = set()
                for o in rr:
                    if o.kind == "call":
                        ct = b.call_at(o)
                        src.add((ct.get("callee") or "").split("::")[-1])
                    else:
                        src.add(o.kind)
                ctx.ok("R09.3", "receiver-source", t["l"], sorted(src))
        ctx.floor("R09.3", "sends in the publish handler", n_send, 1)
        b = ctx.body(fx, co)
        n_sets = 0
        fam_bodies = list(pub_family)
        for co_, b_ in fam_bodies:
          for bi, t in b_.normal_calls():
            if (t.get("callee") or "").endswith("Iterator::collect") and "addr::sender::Sender<" in (t.get("destty") or ""):
                n_sets += 1
                b = b_
                ch = [t] + chain(b, t["args"][0])
                names = [x["callee"].split("::")[-1] for x in ch]
                fm = [x for x in ch if x["callee"].endswith("::filter_map")]
                extra = [nm for nm in names if nm not in ("collect", "filter_map", "values", "iter", "into_iter", "deref")]
                ok = len(fm) == 1 and fm[0]["args"][1].get("fn") == "addr::weak_sender::WeakSender::<M>::upgrade" and "values" in names and not extra
                ctx.require(ok, "R09.3", "subscriber-set", "the subscribers of a publication must be the live entries of the table: values → filter_map(upgrade) → collect, got %s" % names, fn=co_["def"], site=t["l"], detail=names)
        # explicit loop form: `for w in self.subscribers.values() { if let Some(s) = w.upgrade() { live.push(s) } }` (that every
        # upgraded entry is kept is the FanOut monitor's part); fused form: the send sits in that loop
        A_ = fanout_alphabet()
        for co_, b_ in fam_bodies:
          for bi, t in b_.normal_calls():
            if A_.calls[4][1](t) or (A_.calls[0][1](t) and any(o.kind == "call" and A_.calls[3][1](b_.call_at(o)) for o in b_.origins(t["args"][0]))):
                what = t["args"][-1] if A_.calls[4][1](t) else t["args"][0]
                ups = [b_.call_at(o) for o in b_.origins(what) if o.kind == "call"]
                ok = bool(ups) and all(A_.calls[3][1](u) for u in ups) and len(ups) == len(b_.origins(what))
                names = []
                for u in ups if ok else []:
                    its = [b_.call_at(o) for o in b_.origins(u["args"][0]) if o.kind == "call"]
                    ok = ok and bool(its) and all(A_.calls[2][1](i) for i in its)
                    for i in its if ok else []:
                        ch = chain(b_, i["args"][0])
                        names = [x["callee"].split("::")[-1] for x in ch]
                        extra = [nm for nm in names if nm not in ("values", "iter", "into_iter", "deref")]
                        ok = ok and "values" in names and not extra
                n_sets += 1
                ctx.require(ok, "R09.3", "subscriber-set", "the subscribers of a publication must be the live entries of the table: each entry of values() upgraded and kept, got %s" % names, fn=co_["def"], site=t["l"], detail=names)
        b = fam_bodies[0][1]
        ctx.floor("R09.3", "collections of the live subscribers in the publish handler", n_sets, 1)
    # R09.5 who touches the table; pruning keeps exactly the live entries
    from tywalk import field_accesses
    touch = {}
    for g in fx.d["fns"]:
        gb = ctx.body(fx, g)
        for bi, where, name, place in field_accesses(fx, g, gb, "broker::Broker"):
            if name == "subscribers":
                touch.setdefault(g.get("root", g["def"]), []).append(gb.term(bi)["l"])
    ok_roots = [r for r in touch if (fx.fn(r) or {}).get("impl_self", "").startswith("broker::Broker<") and (fx.fn(r) or {}).get("impl_trait_def") in ("handler::Handler", "core::default::Default")]
    # private methods of the broker that only its handlers (or such methods) use are part of those handlers
    owners_ = {g["def"] for g in fx.d["fns"] if g["kind"] in ("fn", "assoc_fn") and (g.get("impl_self") or "").startswith("broker::Broker<") and g.get("impl_trait_def") in ("handler::Handler", "core::default::Default")}
    helper_roots = graph.private_helpers(fx, owners_)
    ok_roots = ok_roots + [r for r in touch if r in helper_roots and r not in ok_roots]
    # read-only observers that get no entry out of the table (`impl Debug` printing `subscribers.len()`): every map
    # method they call on it is one of len / is_empty / contains_key / capacity
    SAFE = ("::len", "::is_empty", "::contains_key", "::capacity")
    for r in list(touch):
        if r in ok_roots:
            continue
        fam_ = graph.family(fx, r)
        mapcalls = [t_ for g_ in fam_ for _b, t_ in ctx.body(fx, g_).normal_calls() if "addr::weak_sender::WeakSender<" in (t_.get("self_ty") or "") + " ".join(t_.get("argtys") or [])]
        if mapcalls and all((t_.get("callee") or "").startswith("std::collections::hash::map::") and (t_.get("callee") or "").endswith(SAFE) for t_ in mapcalls):
            ok_roots.append(r)
    ctx.require(sorted(ok_roots) == sorted(touch) and len(touch) >= 2, "R09.5", "table-writers", "the subscriber table is touched outside the broker's own handlers: %s" % sorted(set(touch) - set(ok_roots)), detail=sorted(touch))
    for g in fx.d["fns"]:
        gb = ctx.body(fx, g)
        for bi, t in gb.normal_calls():
            if (t.get("callee") or "").startswith("std::collections::hash::map::") and (t.get("callee") or "").endswith("::retain") and "addr::weak_sender::WeakSender<" in (t.get("self_ty") or ""):
                okp = False
                for o in gb.origins(t["args"][1]):
                    if o.kind == "agg":
                        cdef = gb.blocks[o.site[0]]["s"][o.site[1]]["r"].get("def")
                        c = fx.fn(cdef)
                        if c:
                            okp = _keeps_live(ctx, fx, c, 2)
                ctx.require(okp, "R09.5", "prune-keeps-live", "pruning must keep exactly the subscribers that can still be upgraded", fn=g["def"], site=t["l"])
    # R09.4 entry points
    entries = {
        "broker::Broker::<T>::publish": ("addr::Addr::<broker::Broker<T>>::publish", None),
        "broker::Broker::<T>::subscribe": ("addr::Addr::<broker::Broker<T>>::subscribe", None),
        "addr::Addr::<broker::Broker<T>>::publish": ("addr::Addr::<A>::send", "broker::Publish"),
        "addr::Addr::<broker::Broker<T>>::subscribe": ("addr::Addr::<A>::send", "broker::Subscribe"),
        "addr::Addr::<broker::Broker<T>>::unsubscribe": ("addr::Addr::<A>::send", "broker::Unsubscribe"),
        "context::Context::<A>::publish": ("broker::Broker::<T>::publish", None),
        "context::Context::<A>::subscribe": ("broker::Broker::<T>::subscribe", None),
    }
    ALT = {"broker::Broker::<T>::publish": "addr::Addr::<broker::Broker<T>>::publish", "broker::Broker::<T>::subscribe": "addr::Addr::<broker::Broker<T>>::subscribe"}
    n_ok = 0
    for e, (callee, wrap) in entries.items():
        if e == "context::Context::<A>::publish" and fx.cfg == "smol":
            ctx.note("observation: Context::publish is compiled only for tokio and async-std (cfg-gated)")
            n_ok += 1
            continue
        fam = [g for g in graph.family(fx, e) if g["kind"] == "coroutine"]
        if not ctx.require(len(fam) >= 1, "R09.4", "entry:" + e, "entry point %s not found" % e):
            continue
        b = ctx.body(fx, fam[0])
        calls = [(bi, t) for bi, t in b.normal_calls() if t.get("callee") == callee]
        if not calls:
            # the forwarding call may sit in a private helper shared by the entry points (`self.request(Publish(topic)).await`)
            import inline
            ib = inline.body(ctx, fx, fam[0], inline.not_public)
            icalls = [(bi, t) for bi, t in ib.normal_calls() if t.get("callee") == callee]
            if icalls:
                b, calls = ib, icalls
        if not calls and e.startswith("context::Context::<A>::") and callee in ALT:
            # a Context entry point may also go to the registry's broker address itself (what the static wrapper does)
            callee = ALT[callee]
            calls = [(bi, t) for bi, t in b.normal_calls() if t.get("callee") == callee]
            via_addr = True
        else:
            via_addr = False
        if not ctx.require(len(calls) == 1, "R09.4", "entry:" + e, "%s must forward to %s exactly once" % (e, callee), fn=fam[0]["def"], site=fam[0]["loc"]):
            continue
        bi, t = calls[0]
        ok = True
        det = {}
        # awaited and its result returned
        fsk = sinks(b, t["dest"][0])
        awaited = any(s["k"] == "call" and (s["t"].get("callee") or "").endswith("Future::poll") for s in fsk)
        ok = ok and awaited
        if e.startswith("broker::Broker::<T>::") or via_addr:
            # receiver: the broker from the registry (awaited here, or through a crate-local async helper that returns it)
            rr = roots(b, t["args"][0])
            got = False
            for r in b.origins(t["args"][0]):
                if r.kind == "await":
                    for _x, ct in b.awaited_calls(r.site[0]):
                        if (ct.get("callee") or "").endswith("Service::from_registry"):
                            got = True
                        h_ = fx.callee_fn(ct)
                        if h_ is not None and h_.get("is_async"):
                            hco = [c_ for c_ in fx.children_of(h_["def"]) if c_["kind"] == "coroutine"]
                            if len(hco) == 1:
                                hb_ = ctx.body(fx, hco[0])
                                ho = hb_.origins([0])
                                got = bool(ho) and all(x.kind == "await" and any((c2.get("callee") or "").endswith("Service::from_registry") for _y, c2 in hb_.awaited_calls(x.site[0])) for x in ho)
            ok = ok and got
            det["receiver"] = "Service::from_registry().await"
        if wrap:
            wadt, wvar = WRAPS["insert"] if wrap == "broker::Subscribe" else (WRAPS["remove"] if wrap == "broker::Unsubscribe" else (wrap, None))
            wr = [st for _bi, _si, st in agg_sites(b, adt=wadt) if wvar is None or st["r"].get("variant") == wvar]
            okw = len(wr) == 1 and all(r.kind == "upvar" for r in roots(b, wr[0]["r"]["ops"][0]))
            okr = all(r.kind == "upvar" for r in roots(b, t["args"][0]))
            ok = ok and okw and okr
            det["wraps"] = wrap
        if e == "context::Context::<A>::subscribe":
            ws = [ct for _x, ct in b.normal_calls() if ct.get("callee") == "context::Context::<A>::weak_sender"]
            okw = len(ws) == 1 and all(r.kind == "upvar" for r in roots(b, ws[0]["args"][0]))
            sender_arg = t["args"][1] if via_addr and len(t["args"]) > 1 else t["args"][0]  # (the address method takes the broker first)
            arg_from_ws = any(o.kind == "call" and b.call_at(o).get("callee") == "context::Context::<A>::weak_sender" for o in b.origins(sender_arg))
            ok = ok and okw and arg_from_ws
            det["subscribes"] = "weak sender of its own context"
        n_ok += 1
        if ok:
            # ... on every path: an entry point that answers without reaching the broker (a cached "already subscribed",
            # a skipped publication) loses the subscription / the publication
            from props.c04 import check_forward_always
            check_forward_always(ctx, fx, "R09.4", "entry-always-forwards:" + e, fam[0], lambda x, _c=callee: x.get("callee") == _c)
        ctx.require(ok, "R09.4", "entry:" + e, "%s does not forward to the one broker actor's mailbox as expected" % e, fn=fam[0]["def"], site=t["l"], detail=det)
    ctx.floor("R09.4", "broker entry points", n_ok, 6)
    return None
