"""C07 — restart keeps identity and mailbox and yields a freshly started incarnation."""
import core, nfa, loops, graph, timers
from mir import Body, sinks
from props.c03 import run_loops, RefreshSpec, strat_kind
from props.c04 import check_marker_flow, FORCE_TRAIT, first_await_or_end
from props.c15 import roots

EXPL = ("R07.1 Restart markers flow only into the forcing submit closure of the addressed actor's single queue. R07.2 the "
        "plain loop dispatches a dequeued Restart to RestartStrategy::refresh with the old value and the same context, "
        "assigns the returned value to its actor place, returns the error on failure and otherwise continues with the same "
        "receive closure, context and notifier (A1 + A3). R07.3 the three strategies follow their protocol and the two "
        "restarting ones abort every timer of the previous incarnation between stopped() and started() on all paths. "
        "R07.4 the builder's type-state selects the strategy and the terminals instantiate the environment with the "
        "builder's own strategy parameter.")

RESTART_ENTRIES = ["addr::Addr::<A>::restart", "context::Context::<A>::restart"]


class AbortBetween(nfa.Spec):
    init = ("s0",)

    def step(self, st, label):
        ev = label.split("@")[0]
        ph = st[0]
        if ev == "done:stopped":
            return ("stopped",)
        if ev == "call:abortall":
            if ph != "stopped":
                return nfa.Err("R07.3: timers aborted in phase %s (expected after the previous incarnation's stopped())" % ph)
            return ("aborted",)
        if ev == "call:started":
            if ph != "aborted":
                return nfa.Err("R07.3: the new incarnation is started while timers of the previous one are still registered (they keep firing / pile up)")
            return ("started",)
        return st


def run(ctx):
    ctx.explanation = EXPL
    ctx.assumptions = ["AbortHandle::abort stops the abortable timer future at its next poll"]
    cfgs = ["tokio"] if ctx.tier == "quick" else ["tokio", "smol", "asyncstd", "bare"]
    for cfg in cfgs:
        fx = ctx.facts(cfg) if cfg == "tokio" else ctx.try_facts(cfg)
        if fx is None:
            continue
        check_cfg(ctx, fx, cfg)
    return core.finish(ctx)


def check_cfg(ctx, fx, cfg):
    # R07.1
    fns = check_marker_flow(ctx, fx, "R07.1", "Restart", 1)  # every entry point below must reach one
    for e in RESTART_ENTRIES:
        f = fx.fn(e)
        if not ctx.require(f is not None, "R07.1", "entry:%s@%s" % (e, cfg), "restart entry point not found"):
            continue
        from props.c04 import entry_hit
        ctx.require(entry_hit(ctx, fx, e, fns, RESTART_ENTRIES, "Restart") is not None and not f.get("is_async"), "R07.1", "entry:%s@%s" % (e, cfg), "restart must enqueue Payload::Restart synchronously through the forcing closure", fn=e, site=f["loc"])
    from props.c04 import check_submit_on_ok
    for e in RESTART_ENTRIES:
        check_submit_on_ok(ctx, fx, "R07.1", e, set(RESTART_ENTRIES))
    check_default_strategy(ctx, fx, cfg)
    # R07.7 (shared with C10) "timers registered by the previous incarnation no longer fire": a timer is one registered task that
    # sleeps and submits in a loop of its own — which is what the restart aborts; a tick that re-arms the timer from the mailbox
    # (a new registration made by whichever incarnation handles the tick) survives the abort of the incarnation that created it
    if cfg != "bare":
        from props import c10 as _c10
        core.shared(ctx, "R07.7", _c10.check_timer_protocol, ctx, fx, cfg, "R07.7")
    # R07.6 identity: no new Context (hence no new ContextID) and no new channel is created while an actor lives —
    # nothing reachable from the loops or the restart strategies constructs a Context or a mailbox queue
    from mir import agg_sites
    import chan
    makers = set()
    for f in fx.d["fns"]:
        b = ctx.body(fx, f)
        if any(True for _ in agg_sites(b, adt="context::Context")):
            makers.add(f.get("root", f["def"]))
    makers |= set(chan.constructors(fx))
    live = [f["def"] for f, _k in loops.find_loops(fx)] + [co["def"] for _s, _f, co in loops.find_refresh(fx) if co]
    reached = set()
    for l in live:
        reached |= set(graph.reach(fx, l, depth=4))
    bad = sorted(makers & reached)
    ctx.require(not bad and makers, "R07.6", "identity-kept@" + cfg, "a running actor (its loop or a restart strategy) can reach code that creates a new Context / mailbox: restart would change the actor's identity or mailbox: %s" % bad, site=fx.fn(bad[0])["loc"] if bad and fx.fn(bad[0]) else None, detail={"constructors": sorted(makers), "reachable_from_live_code": len(reached)})
    # ... and the id of the existing context is never reassigned (shared with C09)
    from props import c09 as _c09
    _c09.check_id_fixed(ctx, fx, "R07.6", "id-fixed-at-birth@" + cfg)
    # R07.5 messages before / after the request are ordered against it by the actor's single FIFO queue
    from props.c01 import check_single_queue
    check_single_queue(ctx, fx, cfg, "R07.5", "R07.5")
    # R07.2
    res = run_loops(ctx, fx, "R07.2", {"L10", "L14"}, kinds=("plain",))
    for f, kind, b, n in res:
        if kind != "plain":
            continue
        calls = [(bi, t) for bi, t in b.normal_calls() if nfa.trait_method(loops.T_RS, "refresh")(t)]
        loop_b, loop_f, hcall = b, f, None
        if not calls:
            # the message pump may be a helper the loop awaits, which is given the actor and lent the context
            for g in loops.loop_family(fx, f)[1:]:
                if g["kind"] != "coroutine":
                    continue
                gc = [(bi, t) for bi, t in ctx.body(fx, g).normal_calls() if nfa.trait_method(loops.T_RS, "refresh")(t)]
                # (a helper that dequeues: the pump. One that is merely handed the actor for the refresh and gives it back —
                # `Self::restart(actor, ctx).await?` — is looked at inlined, below)
                if gc and any(loops.is_mailbox_next(t2) for _b2, t2 in ctx.body(fx, g).normal_calls()):
                    hc = [ht for _hb, ht in b.normal_calls() if not (ht.get("callee") or "").endswith(("Future::poll", "poll_unpin")) and fx.callee_fn(ht) is not None and fx.callee_fn(ht)["def"] == g.get("parent")]
                    if len(hc) == 1:
                        calls, hcall = gc, hc[0]
                        b, f = ctx.body(fx, g), g
                    break
        if not calls:
            # the refresh may sit in a small private helper the loop awaits (`actor = Self::restart(actor, &mut self.ctx).await?`):
            # the rule is evaluated on the loop body with crate-private helpers inlined
            import inline
            ib = inline.body(ctx, fx, f, inline.not_public)
            icalls = [(bi, t) for bi, t in ib.normal_calls() if nfa.trait_method(loops.T_RS, "refresh")(t)]
            if len(icalls) == 1:
                b, calls = ib, icalls
        if not ctx.require(len(calls) == 1, "R07.2", "one-refresh-site@" + cfg, "expected exactly one refresh call in the plain loop", fn=f["def"], site=f["loc"]):
            continue
        bi, t = calls[0]
        up = f.get("upvars", [])
        actor_idx = [i for i, u in enumerate(up) if u == "A"]
        ctx_idx = [i for i, u in enumerate(up) if u.startswith(("context::Context<", "&mut context::Context<"))]
        if hcall is not None:
            # the helper's actor / context parameters are the loop's own actor and context
            lup = loop_f.get("upvars", [])
            la = [i for i, u in enumerate(lup) if u == "A"]
            lc = [i for i, u in enumerate(lup) if u.startswith("context::Context<")]
            okb = bool(actor_idx and ctx_idx and la and lc)
            if okb:
                okb = all(loops.is_actor_root(fx, loop_b, r, la) for r in roots(loop_b, hcall["args"][actor_idx[0]])) and all(r.kind == "upvar" and r.site == lc[0] for r in roots(loop_b, hcall["args"][ctx_idx[0]]))
            ctx.require(okb, "R07.2", "refresh-helper-binding@" + cfg, "the helper that dispatches Restart is not given the loop's own actor and context", fn=loop_f["def"], site=hcall["l"])
        r0 = roots(b, t["args"][0])
        r1 = roots(b, t["args"][1])
        def is_actor(r):
            if r.kind == "upvar" and r.site == actor_idx[0]:
                return True
            # ... or the value a previous refresh returned (it was assigned to the same place)
            return r.kind == "await" and any(nfa.trait_method(loops.T_RS, "refresh")(ct) for _x, ct in b.awaited_calls(r.site[0]))
        ok = actor_idx and ctx_idx and all(is_actor(r) for r in r0) and all(r.kind == "upvar" and r.site == ctx_idx[0] for r in r1)
        ctx.require(ok, "R07.2", "refresh-operands@" + cfg, "refresh must receive the current actor value and the loop's own context: %s / %s" % (sorted(map(str, r0)), sorted(map(str, r1))), fn=f["def"], site=t["l"])
        # generic argument: the loop's R
        ctx.require(t.get("self_ty") == "R", "R07.2", "refresh-strategy-param@" + cfg, "refresh is not dispatched on the environment's strategy parameter: %s" % t.get("self_ty"), fn=f["def"], site=t["l"])
        # result assigned to the actor place
        assigned = False
        for (pbi, psi, st) in b.partial.get(1, []):
            lhs = [e for e in st["p"][1:] if e != "*"]
            if actor_idx and lhs == ["f%d" % actor_idx[0]]:
                rs = roots(b, st["r"]["o"]) if st["r"]["k"] == "use" else set()
                for o in rs:
                    if o.kind == "await" and any(nfa.trait_method(loops.T_RS, "refresh")(ct) for _x, ct in b.awaited_calls(o.site[0])):
                        assigned = True
        if not assigned:
            # the actor may live in a local of a helper (`actor = R::refresh(actor, ctx).await?` with `mut actor: A` a
            # parameter): what refresh is given next time round includes what it handed back
            assigned = any(o.kind == "await" and any(nfa.trait_method(loops.T_RS, "refresh")(ct) for _x, ct in b.awaited_calls(o.site[0])) for o in r0)
        if (t.get("argtys") or [""])[0].startswith("&mut "):
            # a strategy that refreshes the actor in place: the loop's actor place itself is handed over (refresh-operands)
            assigned = True
        ctx.require(assigned, "R07.2", "refresh-result-assigned@" + cfg, "the value returned by refresh must become the loop's actor (otherwise the new incarnation is lost)", fn=f["def"], site=t["l"])
    # R07.3
    ab = timers.aborters(ctx, fx)
    A = loops.lifecycle_alphabet()
    A.calls = [(l, p) for (l, p) in A.calls if l != "abort_tasks"] + [("abortall", lambda t: t.get("callee") in ab)]
    strategies = loops.find_refresh(fx)
    ctx.floor("R07.3", "restart strategies (%s)" % cfg, len(strategies), 3)
    for strat, f, co in strategies:
        kind = strat_kind(strat)
        inst = "%s@%s" % (strat.split("::")[-1], cfg)
        if co is None:
            ctx.viol("R07.3", inst, "refresh body not found", fn=f["def"], site=f["loc"])
            continue
        b = ctx.body(fx, co)
        n = nfa.build(b, A, fx, depth=2)
        v1, p1 = nfa.check(n, RefreshSpec(kind))
        ctx.count_nfa(n.stats(), p1)
        for v in v1:
            ctx.viol("R07.3", inst + ":protocol", v["msg"].replace("R03.3", "R07.3"), fn=co["def"], site=co["loc"], trace=v["trace"])
        if kind != "none":
            v2, p2 = nfa.check(n, AbortBetween())
            ctx.count_nfa({}, p2)
            for v in v2:
                ctx.viol("R07.3", inst + ":timers", v["msg"], fn=co["def"], site=co["loc"], trace=v["trace"])
            if not v1 and not v2:
                ctx.ok("R07.3", inst, co["loc"], {"words": [" ".join(w) for w in nfa.words(n, limit=2)]})
            # the incarnation that is started and handed back is the given value (restart) / the fresh default (recreate)
            from props.c03 import check_receivers
            check_receivers(ctx, fx, co, b, inst, kind, "R07.3")
            # the abort acts on the context handed in
            for bi, t in b.normal_calls():
                if t.get("callee") in ab:
                    rs = roots(b, t["args"][0])
                    ctx.require(all(r.kind in ("upvar", "arg") for r in rs), "R07.3", inst + ":aborts-own-context", "timers of another context are aborted", fn=co["def"], site=t["l"])
        else:
            # returns its argument
            good = False
            for bi, blk in enumerate(b.blocks):
                for st in blk["s"]:
                    if st["k"] == "assign" and st["p"] == [0] and st["r"]["k"] == "agg" and st["r"].get("variant") == "Ok":
                        rs = roots(b, st["r"]["ops"][0])
                        good = all(r.kind in ("upvar", "arg") for r in rs) and bool(rs)
            ups = co.get("upvars", [])
            if ups and ups[0].startswith("&mut "):
                # in-place protocol: the borrowed actor is neither written nor passed on
                from mir import upvar_sinks
                sk = upvar_sinks(b, 0)
                good = not [s for s in sk if s["k"] in ("call", "store", "agg", "ret", "yield")]
            ctx.require(good and not v1, "R07.3", inst, "a non-restartable strategy must hand back the same actor value untouched", fn=co["def"], site=co["loc"])
    for name, a in ab.items():
        ctx.require(a["removes"] and not a["viols"], "R07.3", "abort-all-empties-list:%s@%s" % (name, cfg), "aborting on restart must also empty the list (drain), otherwise handles accumulate", fn=name, site=a["fn"]["loc"])
    # R07.4 builder type-state
    if cfg != "bare":
        sig = {
            "actor::builder::BaseActorBuilder::<A, P>::bounded": "actor::restart_strategy::RestartOnly>",
            "actor::builder::BaseActorBuilder::<A, P>::unbounded": "actor::restart_strategy::RestartOnly>",
            "actor::builder::ActorBuilderWithChannel::<A, P, R>::recreate_from_default": "actor::restart_strategy::RecreateFromDefault>",
            "actor::builder::ActorBuilderWithChannel::<A, P, R>::non_restartable": "actor::restart_strategy::NonRestartable>",
        }
        for fn_, suffix in sig.items():
            f = fx.fn(fn_)
            ok = f is not None and f["output"].startswith("actor::builder::ActorBuilderWithChannel<A, P, ") and f["output"].endswith(suffix)
            ctx.require(ok, "R07.4", "signature:%s@%s" % (fn_.split("::")[-1], cfg), "builder stage %s must yield the %s strategy marker: %s" % (fn_, suffix[:-1], f and f["output"]), fn=fn_, site=f["loc"] if f else None)
        for term, want in (("actor::builder::ActorBuilderWithChannel::<A, P, R>::spawn", "R"), ("actor::builder::ActorBuilderWithChannel::<A, P, R>::spawn_owning", "R"),
                           ("actor::builder::StreamActorBuilder::<A, P, S>::spawn", "actor::restart_strategy::NonRestartable"), ("actor::builder::StreamActorBuilder::<A, P, S>::spawn_owning", "actor::restart_strategy::NonRestartable")):
            f = fx.fn(term)
            if not ctx.require(f is not None, "R07.4", "terminal:%s@%s" % (term, cfg), "builder terminal not found"):
                continue
            # the loop constructors and the helpers that merely forward the actor to them (`env.launch::<P>(actor)`)
            mk_ = graph.forwarding_closure(fx, loops.maker_params(fx, "actor"), roots, lambda g_: ctx.body(fx, g_))
            _ctors = loops.env_ctors(fx)[1]
            is_env = lambda t, mk_=mk_, _ctors=_ctors: (t.get("callee") or "").startswith("environment::Environment::<A, R>::") and ((t.get("callee") or "").endswith(("create_loop", "create_loop_on_stream")) or t.get("callee") in mk_ or t.get("callee") in _ctors)
            # the wiring may sit in a function the terminal hands its builder to (spawn = spawn_owning().detach(), a shared private helper)
            wf = graph.wiring_fn(fx, term, is_env) or f
            import inline
            def _builder_helpers(g, t):  # the builder's own private helpers, not the environment's functions that are looked for
                return inline.not_public(g, t) and not g["def"].startswith("environment::")
            b = inline.body(ctx, fx, wf, _builder_helpers)  # (`let (actor, env) = self.into_parts();` builds the environment)
            envs = [t for _, t in b.normal_calls() if is_env(t)]
            ok = len(envs) >= 2 and all(t["gargs"][:2] == ["A", want] for t in envs)
            ctx.require(ok, "R07.4", "terminal:%s@%s" % (term.split("::", 2)[-1], cfg), "the terminal must run the loop with the builder's own strategy (%s): %s" % (want, [t["gargs"][:2] for t in envs]), fn=term, site=f["loc"])


def check_default_strategy(ctx, fx, cfg, RULE="R07.8"):
    """"with the default strategy the same value receives stopped then started and keeps its state": outside the builder — whose
    terminals run the loop with the strategy the builder state carries (R07.4) — every loop is created with the default strategy
    (`RestartOnly`; stream loops never restart): a spawn entry point that quietly runs its actor under `RecreateFromDefault`
    (spawn_default, the registry's spawn-on-demand) would replace the actor's state on a restart request"""
    n = 0
    work = [(f, t, 0) for f, _bi, t in graph.all_calls(fx, lambda t: (t.get("callee") or "").startswith("environment::Environment::<A, R>::") and (t.get("callee") or "").endswith(("::create_loop", "::create_loop_on_stream")))]
    seen = set()
    while work:
        f, t, d = work.pop()
        ga = t.get("gargs") or []
        # which generic argument of the call is the strategy: the second one of `Environment::<A, R>::..`, or — for a helper that hands
        # its own strategy parameter on — the position of that parameter
        callee_fn = fx.callee_fn(t) or {}
        cg = callee_fn.get("generics") or ["A", "R"]
        si = cg.index("R") if "R" in cg else 1
        strat = ga[si] if len(ga) > si else "?"
        n += 1
        root = fx.fn(f.get("root", f["def"])) or f
        gens = root.get("generics") or []
        ok = strat in ("actor::restart_strategy::RestartOnly", "actor::restart_strategy::NonRestartable") or (strat in gens and root["def"].startswith("actor::builder::"))
        if not ok and strat in gens and d < 2 and root["def"] not in seen:
            # a helper that runs the loop of the environment it is given (`Environment::<A, R>::launch(self, actor)`): the strategy is
            # its caller's — judged there
            seen.add(root["def"])
            callers = [(g, t2) for g, _b2, t2 in graph.all_calls(fx, lambda x, _n=root["def"]: (x.get("resolved") or x.get("callee")) == _n)]
            if callers and root.get("vis") != "pub":
                work.extend((g, t2, d + 1) for g, t2 in callers)
                continue
        ctx.require(ok, RULE, "loop-strategy:%s@%s" % (f["def"], cfg), "a loop is created with the strategy %s outside the builder: the default strategy of a plain spawn is RestartOnly" % strat, fn=f["def"], site=t["l"], detail=ga)
    ctx.floor(RULE, "loop creation sites (%s)" % cfg, n, 3)


def check_restart_aborts_timers(ctx, fx, cfg, RULE):
    """every restarting strategy aborts the timers of the incarnation it replaces between its stopped() and the next
    started() (shared with C10: a timer registered by a previous incarnation must not fire into the next one, nor double the
    period of the intervals the new incarnation registers again)"""
    ab = timers.aborters(ctx, fx)
    A = loops.lifecycle_alphabet()
    A.calls = [(l, p) for (l, p) in A.calls if l != "abort_tasks"] + [("abortall", lambda t: t.get("callee") in ab)]
    strategies = loops.find_refresh(fx)
    ctx.floor(RULE, "restart strategies (%s)" % cfg, len(strategies), 3)
    for strat, f, co in strategies:
        kind = strat_kind(strat)
        inst = "%s@%s" % (strat.split("::")[-1], cfg)
        if co is None or kind == "none":
            continue
        b = ctx.body(fx, co)
        n = nfa.build(b, A, fx, depth=2)
        v2, p2 = nfa.check(n, AbortBetween())
        ctx.count_nfa(n.stats(), p2)
        for v in v2:
            ctx.viol(RULE, inst + ":timers", v["msg"], fn=co["def"], site=co["loc"], trace=v["trace"])
        if not v2:
            ctx.ok(RULE, inst + ":timers", co["loc"], None)
