"""C19 — ill-typed uses of the API are rejected at compile time (compile-fail witnesses with compiling twins)."""
import json, os, subprocess, sys
import core

EXPL = ("Type-level encoding judged by the compiler: a catalogue of minimal client programs, one per (rule, entry point "
        "that must enforce it), compiled as an external user of the crate against the current /repo tree. A `fail` "
        "program must be rejected with the expected error code on the marked line and with no other error; its `twin` "
        "differs only in that line and must compile — so a witness that fails for an unrelated reason (wrong path, "
        "missing import) cannot pass. Obligations = programs; discharged = programs with the expected verdict.")


def check_restart_bound(ctx, fx, RULE="R19.b"):
    from props.c04 import marker_sites
    import graph
    RA = "actor::restart_strategy::RestartableActor"
    n = 0
    for f, _b, _bi, _si, st in marker_sites(fx, "Restart"):
        work = [(f.get("root", f["def"]), 0)]
        seen = set()
        while work:
            r, d = work.pop()
            if r in seen:
                continue
            seen.add(r)
            rf = fx.fn(r)
            if rf is None:
                continue
            public = rf.get("vis") == "pub" and rf["kind"] in ("fn", "assoc_fn")
            if public or rf.get("impl_trait_def"):
                n += 1
                bounded = any(b_.endswith(": " + RA) for b_ in (rf.get("bounds") or []))
                # (the event loops and the restart strategies are generic over the strategy, not bounded on the actor: they
                # *handle* the request; what is judged here is who can *make* one)
                ctx.require(bounded, RULE, "restart-needs-restartable:" + r, "a public function builds a Restart request without requiring `A: RestartableActor`: restart becomes available for actor types that did not opt in", fn=r, site=st.get("l"), detail=rf.get("bounds"))
                continue
            if d < 3:
                for c in graph.callers_of(fx, r):
                    cf = fx.fn(c) or {}
                    work.append((cf.get("root", c), d + 1))
    ctx.floor(RULE, "public makers of a Restart request", n, 2)


def run(ctx):
    ctx.explanation = EXPL
    ctx.assumptions = ["rustc's type checker (stable toolchain of the repository)", "hannibal-derive is not used by the witnesses (impls are written out)"]
    V = core.V
    feats = [None] if ctx.tier == "quick" else [None, "smol_runtime", "async_runtime"]
    all_results = []
    rules = {}
    n = 0
    for feat in feats:
        cmd = [sys.executable, os.path.join(V, "witness", "run.py"), "--repo", ctx.repo] + (["--features", feat] if feat else [])
        p = subprocess.run(cmd, capture_output=True, text=True)
        try:
            res = json.loads(p.stdout.strip().splitlines()[-1])
        except Exception:
            raise RuntimeError("witness runner failed: %s %s" % (p.stdout[-500:], p.stderr[-500:]))
        if res.get("lib_broken"):
            import facts
            if feat is None:
                raise facts.BuildFailed("hannibal itself does not compile for the witness package: %s" % res.get("stderr_tail"))
            ctx.note("feature %s does not build for the witness package: skipped" % feat)
            ctx.skipped_cfgs.append(feat)
            continue
        tag = "" if feat is None else "@" + feat
        ctx.cfgs_used.append("stable toolchain, " + (feat or "default features (tokio)"))
        n += res["programs"]
        for r in res["results"]:
            kind = "fail" if r["id"].endswith("_fail") else "twin"
            short = r["id"].rsplit("_", 1)[0]
            inst = "%s:%s:%s%s" % (short, r["entry"], kind, tag)
            rules.setdefault(r["rule"], 0)
            rules[r["rule"]] += 1
            all_results.append(r)
            if r["ok"]:
                ctx.ok("R19." + short[0], inst, "witness/catalogue.py:" + short, {"verdict": r["verdict"], "codes": [e["code"] for e in r["errors"]]})
            else:
                if kind == "fail" and r["verdict"] == "COMPILES":
                    msg = "the compiler accepts an ill-typed use: rule `%s` is no longer enforced at %s" % (r["rule"], r["entry"])
                elif kind == "fail":
                    msg = "rejected, but not for the expected reason (expected %s): %s" % (r["expected"], r["errors"])
                else:
                    msg = "the well-typed twin no longer compiles (API change?): %s" % r["errors"]
                ctx.viol("R19." + short[0], inst, msg, fn=r["entry"], site="witness/catalogue.py:" + short)
    # R19.c (shared with C16, decided on the type-checked program rather than by a witness): the child table stores a
    # Sender<M> under the key of M — whatever new way of registering a child is added, it has to go through the conversion
    # into Sender<M>, which is where `C: Handler<M>` and `M::Response = ()` are demanded (witnesses s*/u* pin that bound)
    if ctx.tier != "quick" or True:
        from props import c16
        fx = ctx.facts("tokio")
        core.shared(ctx, "R19.c", c16.check_child_store, ctx, fx, "R19.c")
        # R19.b "restart is only available for restartable actor types" — also for an entry point that does not exist yet and
        # that no witness can name: every public function of the crate that builds a `Payload::Restart` (itself, or a private
        # function it calls) is bounded by `RestartableActor` on its actor type
        check_restart_bound(ctx, fx)
    ctx.floor("R19", "witness programs", n, 100)
    res = {"results": all_results}
    n_ok = sum(1 for r in res["results"] if r["ok"])
    return core.finish(ctx, level="proof", extra_cov={"obligations": n, "discharged": n_ok, "programs": n, "rules_covered": rules},
                       trusted=["rustc type checker and trait solver", "cargo (path dependency on /repo, Cargo.lock copied from /repo)"],
                       checker_cmd="witness/run.py --repo /repo   (cargo check --offline --bins --keep-going --message-format=json)")
