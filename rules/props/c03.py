"""C03 — lifecycle callbacks follow the started / handle* / stopped protocol."""
from mir import Body
import core, nfa, loops
from nfa import Spec, Err

EXPL = ("Trace conformance (A1): every path of the two event-loop coroutines' CFGs (all schedules, message programs, "
        "cancellation and panic edges included) is run through the incarnation-protocol monitor; the three "
        "RestartStrategy::refresh bodies are checked against the per-strategy protocol. Decides: started once and "
        "completed (and its error propagated) before any dequeue/handler, handlers never overlap shutdown, stopped "
        "exactly once (after finished on stream loops), nothing after it, failure paths run no further callback.")

LOOP_CHECKS = {"L1", "L2", "L3", "L4", "L5", "L7", "L11"}


class RefreshSpec(Spec):
    """stopped(done) -> [Default::default] -> started(done) -> ? -> Ok(actor) | Err"""

    def __init__(self, kind):
        self.kind = kind  # restart | recreate | none
        self.init = ("s0",)

    def step(self, st, label):
        label = loops.norm(label)
        ev = label.split("@")[0]
        src = label.split("@")[1] if "@" in label else ""
        ph = st[0]
        if ev.startswith("pend:") or ev in ("unwind", "cancel"):
            return st
        if self.kind == "none":
            if ev.startswith(("call:", "done:")) and ev != "call:default":
                return Err("R03.3: a non-restartable strategy must not run lifecycle callbacks (%s)" % ev)
            return st
        order = ["s0", "stopping", "stopped", "starting", "startres", "ok", "failed", "okret"]
        if ev == "call:stopped":
            return ("stopping",) if ph == "s0" else Err("R03.3: stopped() called in phase %s (expected first, once)" % ph)
        if ev == "done:stopped":
            return ("stopped",) if ph == "stopping" else st
        if ev == "call:default":
            if self.kind == "recreate":
                return ("defaulted",) if ph == "stopped" else Err("R03.3: fresh value created in phase %s (expected between stopped and started)" % ph)
            if ph in ("stopping", "stopped"):
                return Err("R03.3: a strategy that restarts the same instance creates a fresh value between stopped() and started()")
            return st
        if ev == "call:started":
            need = "defaulted" if self.kind == "recreate" else "stopped"
            if ph != need:
                return Err("R03.3: started() called in phase %s (expected after %s)" % (ph, "stopped() and Default::default()" if self.kind == "recreate" else "the completed stopped()"))
            return ("starting",)
        if ev == "done:started":
            return ("startres",) if ph == "starting" else st
        if ev in ("sw:Res::Ok", "sw:Res::Err") and src == "started" and ph == "startres":
            return ("ok",) if ev.endswith("Ok") else ("failed",)
        if ev == "retval:move" and ph in ("ok", "failed"):
            # the outcome of a helper that ran the whole cycle is handed back unchanged
            return ("okret",) if ph == "ok" else ("failret",)
        if ev == "retval:move" and src == "started" and ph == "startres":
            # the outcome of started() is handed back unchanged (a strategy that refreshes the actor in place)
            return ("okret",)
        if ev == "retval:Ok":
            return ("okret",) if ph == "ok" else Err("R03.3: Ok(actor) returned in phase %s (needs stopped, started and its success)" % ph)
        if ev in ("retval:residual", "retval:Err"):
            return ("failret",) if ph == "failed" else Err("R03.3: error returned in phase %s" % ph)
        if ev == "ret":
            return st if ph in ("okret", "failret") else Err("R03.3: return in phase %s" % ph)
        if ev.startswith("call:") and ev[5:] in ("next", "task", "shandle", "refresh", "notify", "finished"):
            return Err("R03.3: %s inside a restart strategy" % ev)
        return st


def strat_kind(name):
    if name.endswith("NonRestartable"):
        return "none"
    if name.endswith("RecreateFromDefault"):
        return "recreate"
    return "restart"


def run_loops(ctx, fx, rule, checks, alpha=None, kinds=("plain", "stream")):
    """shared by the properties that read the loop automata"""
    A = alpha or loops.lifecycle_alphabet()
    found = loops.find_loops(fx)
    found_kinds = sorted(k for _, k in found)
    ctx.floor(rule, "event-loop coroutines (plain + stream) in cfg %s" % fx.cfg, len(found), 2)
    if "plain" not in found_kinds or "stream" not in found_kinds:
        ctx.viol(rule, "floor:loop-kinds", "expected one plain and one stream loop, found %s" % found_kinds)
    out = []
    for f, kind in found:
        if kind not in kinds:
            continue
        b = ctx.body(fx, f)
        n = nfa.build(b, A, fx, depth=(3 if ctx.tier == "thorough" else 2))
        viols, ps = nfa.check(n, loops.Lifecycle(kind == "stream", checks))
        ctx.count_nfa(n.stats(), ps)
        inst = "%s-loop@%s" % (kind, fx.cfg)
        if viols:
            for v in viols:
                ctx.viol(rule, inst + ":" + v["msg"].split(":")[0], v["msg"], fn=f["def"], site=f["loc"], trace=v["trace"])
        else:
            ctx.ok(rule, inst, f["loc"], {"fn": f["def"], "nfa": n.stats(), "product_states": ps, "sample_words": [" ".join(w) for w in nfa.words(n, limit=3)]})
        out.append((f, kind, b, n))
    return out


def run(ctx):
    ctx.explanation = EXPL
    ctx.assumptions = ["user callbacks are opaque atomic events", "rustc MIR construction is the compiled program", "paths are over-approximated (path-insensitive): every real execution is a path"]
    cfgs = ["tokio"] if ctx.tier == "quick" else ["tokio", "smol", "asyncstd", "bare"]
    for cfg in cfgs:
        fx = ctx.facts(cfg) if cfg == "tokio" else ctx.try_facts(cfg)
        if fx is None:
            continue
        run_loops(ctx, fx, "R03.1", LOOP_CHECKS)
        # R03.5 every spawn yields an incarnation that actually runs its protocol: no spawn entry point drops the handle
        # of the loop it just spawned (on a spawner whose handle owns the task that cancels the actor before started())
        from props import c18
        c18.check_consume(ctx, fx, cfg, 3, "R03.5")
        if cfg == "tokio":
            check_registry_does_not_block_started(ctx, fx, cfg)
            # R03.8 (shared with C04) "if started returns an error ... the actor terminates as failed": the failure exits of the loops
            # drop the stop notifier unsent — nothing but `notify` (called on the graceful end only) completes its channel
            from props import c04 as _c04
            core.shared(ctx, "R03.8", _c04.check_notifier, ctx, fx, "R03.8")
        # R03.6 (shared with C05) the graceful end "last strong handle dropped" can actually occur: the library's own timer
        # futures hold the actor weakly while they sleep (two timers that each hold an upgraded sender across their sleep keep
        # each other and the actor alive for ever: stopped() never runs)
        if cfg != "bare":
            from props import c05
            core.shared(ctx, "R03.6", c05.check_timers_own_nothing, ctx, fx, cfg, "R03.6")
        A = loops.lifecycle_alphabet()
        strategies = loops.find_refresh(fx)
        ctx.floor("R03.3", "RestartStrategy::refresh impls in cfg %s" % cfg, len(strategies), 3)
        for strat, f, co in strategies:
            inst = "%s@%s" % (strat.split("::")[-1], cfg)
            if co is None:
                ctx.viol("R03.3", inst, "refresh body not found (not an async fn?)", fn=f["def"], site=f["loc"])
                continue
            b = ctx.body(fx, co)
            n = nfa.build(b, A, fx, depth=2)
            viols, ps = nfa.check(n, RefreshSpec(strat_kind(strat)))
            ctx.count_nfa(n.stats(), ps)
            if viols:
                for v in viols:
                    ctx.viol("R03.3", inst, v["msg"], fn=co["def"], site=co["loc"], trace=v["trace"])
            else:
                ctx.ok("R03.3", inst, co["loc"], {"fn": co["def"], "kind": strat_kind(strat), "nfa": n.stats(), "sample_words": [" ".join(w) for w in nfa.words(n, limit=2)]})
            # receivers (A3): stopped acts on the old value, started on the value that is returned
            if strat_kind(strat) != "none":
                check_receivers(ctx, fx, co, b, inst, strat_kind(strat))
    return core.finish(ctx)


def _calls_identity(b):
    return any(a.get("k") == "const" and (a.get("fn") or "").endswith("convert::identity") for _bi, t in b.normal_calls() for a in t["args"])


def _returned_values(b):
    """where the value inside the `Ok(..)` this body returns comes from: {callee name | origin kind}. Looks through the
    Ok / Poll::Ready wrappers on the way to the return place and through `identity`"""
    out = set()
    work = [({"k": "move", "p": [0]}, 0)]
    seen = set()
    while work:
        op, depth = work.pop()
        for o in b.origins(op):
            key = (o.kind, o.site, o.proj)
            if key in seen or depth > 12:
                continue
            seen.add(key)
            if o.kind == "agg":
                r = b.blocks[o.site[0]]["s"][o.site[1]]["r"]
                if r.get("variant") in ("Ok", "Ready") and r.get("ops"):
                    work.append((r["ops"][0], depth + 1))
                    continue
                if r.get("variant") == "Err":
                    continue
                out.add("agg")
            elif o.kind == "call":
                ct = b.call_at(o)
                c = ct.get("callee") or ""
                if c.endswith("convert::identity") and ct["args"]:
                    work.append((ct["args"][0], depth + 1))
                elif c.endswith(("FnOnce::call_once", "FnMut::call_mut", "Fn::call")) and len(ct["args"]) == 2 and any(x.kind == "const" and str(x.site).endswith("convert::identity") for x in b.origins(ct["args"][0])) and ct["args"][1].get("k") in ("move", "copy"):
                    work.append(({"k": "move", "p": list(ct["args"][1]["p"]) + ["f0"]}, depth + 1))
                elif c.endswith("FromResidual::from_residual"):
                    continue
                elif not c and ct.get("fnplace"):
                    # a call through a function pointer (`Successor::Fresh(create) => create()`): the function it was bound to,
                    # when the literal is visible in this (inlined) body
                    fns = {str(y.site) for y in b.origins(ct["fnplace"]) if y.kind == "const" and "::" in str(y.site)}
                    out |= fns or {"fn-pointer"}
                else:
                    out.add(c or "?")
            else:
                out.add(o.kind)
    if out & {"upvar", "arg"}:
        # ... and what is stored into that place through a reference (`*actor = successor()` in a helper that was lent it)
        for l, sts in b.partial.items():
            for (_bi, _si, st) in sts:
                if "*" not in st["p"][1:] or st["r"]["k"] != "use":
                    continue
                base = [o for o in b.origins([l]) if not (o.proj and str(o.proj[0]).startswith("<part:"))]
                if not base or not all(o.kind in ("upvar", "arg") for o in base):
                    continue
                for x in b.origins(st["r"]["o"]):
                    if x.kind == "call":
                        ct = b.call_at(x)
                        if ct.get("callee"):
                            out.add(ct["callee"])
                        else:
                            fns = {str(y.site) for y in b.origins(ct["fnplace"]) if y.kind == "const" and "::" in str(y.site)} if ct.get("fnplace") else set()
                            out |= fns or {"fn-pointer"}
                    else:
                        out.add(x.kind)
    return out


def check_registry_does_not_block_started(ctx, fx, cfg, RULE="R03.7"):
    """`started()` runs to completion: a registry operation does not wait for the actor it registers while it holds the registry
    lock (an actor whose started() itself uses the registry — subscribes to a broker, looks a service up — would wait for that
    lock for ever; shared with C08: the critical sections of register / replace contain no await but the acquisition)"""
    from props import c08
    core.shared_from(ctx, c08.check_cfg, fx, cfg, RULE, ("R08.2", "R08.3"), r"^(register|replace)@", 2, "registry rules for register / replace")


def check_receivers(ctx, fx, co, b, inst, kind, RULE="R03.4"):
    """RestartOnly: stopped/started on the argument, which is returned. RecreateFromDefault: stopped on the
    argument, started on the value produced by Default::default, which is returned."""
    started = [(bi, t) for bi, t in b.normal_calls() if nfa.trait_method(loops.T_ACTOR, "started")(t)]
    stopped = [(bi, t) for bi, t in b.normal_calls() if nfa.trait_method(loops.T_ACTOR, "stopped")(t)]
    for bi, t in started + stopped:
        origs = b.origins(t["args"][0])
        which = "started" if (bi, t) in started else "stopped"
        # the receiver is a place of the coroutine: upvar 0 (the actor argument), possibly reassigned from default()
        kinds = sorted({o.kind for o in origs})
        ctx.ok(RULE, "%s:%s-receiver" % (inst, which), t["l"], {"origins": [list(map(str, o)) for o in origs]})
    ups = co.get("upvars", [])
    if ups and ups[0].startswith("&mut "):
        # in-place protocol (refresh borrows the actor): RecreateFromDefault stores the value made by Default::default()
        # into the borrowed place; RestartOnly does not overwrite it
        stores = []
        for l, sts in b.partial.items():
            for (_bi, _si, st) in sts:
                if "*" in st["p"][1:] and st["r"]["k"] == "use" and all(o.kind == "upvar" and o.site == 0 for o in b.origins([l]) if not (o.proj and str(o.proj[0]).startswith("<part:"))):
                    srcs = set()
                    for x in b.origins(st["r"]["o"]):
                        srcs.add(b.call_at(x).get("callee") if x.kind == "call" else x.kind)
                    stores.append((st.get("l"), srcs))
        if kind == "recreate":
            good = len(stores) == 1 and all((s or "").endswith("default::Default::default") for s in stores[0][1])
            ctx.require(good, RULE, inst + ":returns-fresh-value", "RecreateFromDefault must replace the actor by the value created by Default::default(): stores %s" % [sorted(map(str, s)) for _l, s in stores], fn=co["def"], site=stores[0][0] if stores else co["loc"])
        else:
            ctx.require(not stores, RULE, inst + ":returns-same-value", "RestartOnly must keep the actor value it was given, but overwrites it", fn=co["def"], site=stores[0][0] if stores else co["loc"])
        return
    n_ret = 0
    # the whole cycle may be delegated to a crate-private async helper that is told how to obtain the next incarnation by a
    # closure (`restart_with(actor, ctx, identity)` / `restart_with(actor, ctx, |_previous| A::default())`): judged on this
    # strategy's own body with the helper and the closure inlined — what it returns is then visible as in the plain form
    import inline
    irec = inline.inlined(fx, co, inline.not_public)
    if irec["inlined_from"]:
        ib = inline.body(ctx, fx, co, inline.not_public)
        srcs = _returned_values(ib)
        lent = bool(srcs & {"upvar", "arg"}) and len(srcs) > 1  # the actor was lent to a helper that may store a successor into it
        if srcs and lent:
            # which path of the shared helper belongs to which strategy is the protocol rule's business (it follows the constants
            # the strategy passes); here: nothing but the given actor or a fresh default can be what is handed back
            allowed = {"upvar", "arg", "fn-pointer", "core::default::Default::default"}
            if kind == "recreate":
                good = srcs <= allowed and any(s.endswith("default::Default::default") for s in srcs)
                ctx.require(good, RULE, inst + ":returns-fresh-value", "RecreateFromDefault must hand back the value created by Default::default(), returns %s" % sorted(map(str, srcs)), fn=co["def"], site=co["loc"])
            else:
                good = srcs <= allowed and not any(s.endswith("default::Default::default") for s in srcs)
                ctx.require(good, RULE, inst + ":returns-same-value", "RestartOnly must hand back the actor value it was given, returns %s" % sorted(map(str, srcs)), fn=co["def"], site=co["loc"])
            return
        if srcs:
            if kind == "recreate":
                good = all((s or "").endswith("default::Default::default") for s in srcs)
                ctx.require(good, RULE, inst + ":returns-fresh-value", "RecreateFromDefault must return the value created by Default::default(), returns %s" % sorted(map(str, srcs)), fn=co["def"], site=co["loc"])
            else:
                good = srcs <= {"upvar", "arg"}
                ctx.require(good, RULE, inst + ":returns-same-value", "RestartOnly must return the actor value it was given, returns %s" % sorted(map(str, srcs)), fn=co["def"], site=co["loc"])
            return
    # the whole cycle may be delegated to a crate-local async helper whose outcome is handed back unchanged
    # (`restart_cycle(actor, ctx, Successor::Fresh(A::default)).await`): the value rule is judged on the helper's body; which
    # of its paths belongs to which strategy is the business of the protocol rule, which follows the constants
    lits_here = [1 for blk in b.blocks for st in blk["s"] if st["k"] == "assign" and st["p"] == [0] and st["r"]["k"] == "agg" and st["r"].get("variant") == "Ok"]
    if not lits_here:
        os0 = b.origins([0])
        helpers = set()
        for o in os0:
            if o.kind == "await":
                for _x, ct in b.awaited_calls(o.site[0]):
                    h = fx.callee_fn(ct)
                    if h is not None and h.get("is_async"):
                        hco = [c for c in fx.children_of(h["def"]) if c["kind"] == "coroutine"]
                        if len(hco) == 1:
                            helpers.add(hco[0]["def"])
        if len(helpers) == 1 and len(os0) == 1:
            hco = fx.fn(next(iter(helpers)))
            hb = Body(hco)
            for blk in hb.blocks:
                for st in blk["s"]:
                    if st["k"] == "assign" and st["p"] == [0] and st["r"]["k"] == "agg" and st["r"].get("variant") == "Ok":
                        srcs = set()
                        for x in hb.origins(st["r"]["ops"][0]):
                            if x.kind == "call":
                                ct = hb.call_at(x)
                                srcs.add(ct.get("callee") or ("fn-pointer" if ct.get("fnplace") else "?"))
                            else:
                                srcs.add(x.kind)
                        n_ret += 1
                        if kind == "recreate":
                            good = any((s or "").endswith("default::Default::default") or s == "fn-pointer" for s in srcs) and srcs <= {"upvar", "arg", "fn-pointer", "core::default::Default::default"}
                            ctx.require(good, RULE, inst + ":returns-fresh-value", "the shared restart helper must hand back the freshly created value on the recreate path, returns %s" % sorted(map(str, srcs)), fn=hco["def"], site=st.get("l"))
                        else:
                            good = bool(srcs) and srcs <= {"upvar", "arg", "fn-pointer", "core::default::Default::default"}
                            ctx.require(good, RULE, inst + ":returns-same-value", "the shared restart helper hands back something else than the actor it was given (or its replacement), returns %s" % sorted(map(str, srcs)), fn=hco["def"], site=st.get("l"))
            ctx.require(n_ret >= 1, RULE, inst + ":returns-a-value", "no `Ok(actor)` result found in the helper the strategy delegates to", fn=hco["def"], site=hco["loc"])
            return
    # the returned value: retval:Ok aggregate operand
    for bi, blk in enumerate(b.blocks):
        for st in blk["s"]:
            if st["k"] == "assign" and st["p"] == [0] and st["r"]["k"] == "agg" and st["r"].get("variant") == "Ok":
                o = b.origins(st["r"]["ops"][0])
                srcs = set()
                for x in o:
                    if x.kind == "call":
                        srcs.add(b.call_at(x).get("callee"))
                    else:
                        srcs.add(x.kind)
                n_ret += 1
                if kind == "recreate":
                    good = any((s or "").endswith("default::Default::default") for s in srcs)
                    ctx.require(good, RULE, inst + ":returns-fresh-value", "RecreateFromDefault must return the value created by Default::default(), returns %s" % sorted(map(str, srcs)), fn=co["def"], site=st.get("l"))
                else:
                    good = srcs <= {"upvar", "arg"} and srcs
                    ctx.require(good, RULE, inst + ":returns-same-value", "RestartOnly must return the actor value it was given, returns %s" % sorted(map(str, srcs)), fn=co["def"], site=st.get("l"))
    ctx.require(n_ret >= 1, RULE, inst + ":returns-a-value", "no `Ok(actor)` result found in the strategy (neither the by-value nor the in-place protocol is recognised)", fn=co["def"], site=co["loc"])
