"""C13 — stream-attached actors handle every item in order and end with the stream."""
import re
import core, nfa, loops, graph
from mir import Body, sinks
from props.c15 import roots
from props.c03 import run_loops

EXPL = ("R13.1 (A1) every path of the stream loop conforms to the incarnation protocol: each selected item / task is handled "
        "to completion before the next select, Stop / closed mailbox / exhausted stream / `complete` lead to finished() then "
        "stopped() exactly once, then the announcement and Ok. R13.2 (A3) what StreamHandler::handle receives is the item "
        "the select produced in this iteration; a Task is invoked once. R13.3 handler invocations are call sites of the loop "
        "coroutine itself — inside the select only the two `next()` futures are raced, so a handler that has begun is never "
        "dropped by the select. R13.4 fairness: the select shuffles its arms (select!) or, if biased, polls the mailbox "
        "first — otherwise an always-ready stream would starve Stop. R13.5 the stream and the mailbox are owned by the loop "
        "future and every iteration polls exactly those two. Trusted: Next futures are cancel-safe.")


def run(ctx):
    ctx.explanation = EXPL
    ctx.assumptions = ["StreamExt::next is cancel-safe (an item is taken only when Ready)", "futures select! polls each non-terminated arm"]
    cfgs = ["tokio"] if ctx.tier == "quick" else ["tokio", "smol", "asyncstd", "bare"]
    for cfg in cfgs:
        fx = ctx.facts(cfg) if cfg == "tokio" else ctx.try_facts(cfg)
        if fx is None:
            continue
        check_cfg(ctx, fx, cfg)
    return core.finish(ctx)


def check_cfg(ctx, fx, cfg):
    # R13.10 (shared with C01) "messages sent to its address are handled too": every payload that reaches the loop runs the
    # handler of its message on all its paths
    if cfg != "bare":
        from props import c01 as _c01
        core.shared(ctx, "R13.10", _c01.check_payloads, ctx, fx, cfg, "R13.10")
    # R13.11 (shared with C14) "the address resolves Ok" on every await of it, not only on the first: a handle whose own
    # termination future is polled in place keeps a share taken *before* the poll on every path on which the poll completed
    # (a clone of a completed Shared is dead: awaiting the address by reference and using the handle again would panic)
    from props import c14 as _c14
    n_inplace = _c14.check_inplace_polls(ctx, fx, "R13.11")
    ctx.floor("R13.11", "in-place polls of a handle's own termination future (%s)" % cfg, n_inplace, 1)
    # R13.6 the stream the loop polls is the user's stream itself: every caller of the stream-loop constructor hands over
    # its own parameter unmodified (a wrapping adapter sits between the items and the loop and can stall or drop them)
    found = loops.find_loops(fx)
    makers = graph.forwarding_closure(fx, loops.maker_params(fx, "stream", {"stream"}), roots, lambda g_: ctx.body(fx, g_))
    n_sites = 0
    for g, bi, t in graph.all_calls(fx, lambda t: t.get("callee") in makers):
        gb = ctx.body(fx, g)
        n_sites += 1
        ai, aproj = makers[t["callee"]]
        sty = t["argtys"][ai] if (len(t["argtys"]) > ai and not aproj) else ("S" if aproj else "")
        mop = graph.maker_operand(t, makers)
        rs = roots(gb, mop) if mop is not None else set()
        # (in the body of an `async fn` the function's own parameters are the coroutine's captures)
        own_upvar = g["kind"] == "coroutine" and (fx.fn(g.get("parent") or "") or {}).get("is_async")
        ok = bool(rs) and all(r.kind == "arg" or (own_upvar and r.kind == "upvar") for r in rs) and sty in ("S", "T")
        ctx.require(ok, "R13.6", "stream-handed-over-unwrapped:%s@%s" % (g["def"], cfg), "the stream given to the loop is not the caller's own stream parameter (type %s, roots %s)" % (sty[:60], sorted(map(str, rs))), fn=g["def"], site=t["l"])
    # counted: Environment::launch_on_stream + the two builder / spawner terminals; the latter are gated on a runtime feature
    # (every caller is judged; terminals sharing a helper lower the count, so the floor only guards against vacuity)
    ctx.floor("R13.6", "callers of the stream-loop constructor (%s)" % cfg, n_sites, 1 if cfg == "bare" else 2)
    # R13.7 closed list of hand-written poll functions in the crate (a poll that returns Pending without registering a
    # waker stalls the loop): today only `impl Future for Addr`
    polls = sorted((i.get("trait"), i["self"]) for i in fx.d["impls"] if i.get("trait") in ("futures_core::stream::Stream", "core::future::future::Future", "futures_core::future::FusedFuture", "futures_core::stream::FusedStream", "futures_sink::Sink"))
    ok = polls == [("core::future::future::Future", "addr::Addr<A>")]
    ctx.require(ok, "R13.7", "hand-written-polls@" + cfg, "a new hand-written Future / Stream implementation in the crate: its Pending paths must register a waker (not decidable here) — found %s" % polls, site=[i["loc"] for i in fx.d["impls"] if i.get("trait") in ("futures_core::stream::Stream", "futures_core::future::FusedFuture", "futures_core::stream::FusedStream")][:1] or None, detail=polls)
    # R13.9 dropping the last handle ends a stream-attached actor even with timers running: timer futures own nothing that
    # keeps the mailbox open, also while they sleep (shared with C05)
    from props import c05 as _c05
    if hasattr(_c05, "check_timers_own_nothing"):
        _c05.check_timers_own_nothing(ctx, fx, cfg, "R13.9")
    # R13.8 messages sent to the address keep their own order: one queue per mailbox, every submission the same kind of
    # send into it, the receiver read only by the dequeue (shared with C01)
    from props.c01 import check_single_queue
    check_single_queue(ctx, fx, cfg, "R13.8", "R13.8")
    res = run_loops(ctx, fx, "R13.1", {"L1", "L2", "L3", "L4", "L5", "L6", "L7", "L8", "L9", "L11", "L13"}, kinds=("stream",))
    for f, kind, b, n in res:
        if kind != "stream":
            continue
        inst = "stream-loop@" + cfg
        none_edges = [e for e in nfa.edges_labelled(n, "sw:Option::None@") if e[1].split("@")[1] in ("next", "mailbox")]
        stop_edges = nfa.edges_labelled(n, "sw:Payload::Stop")
        end_edges = [e for e in nfa.edges_labelled(n, "sw:Option::None@") if e[1].split("@")[1] in ("snext", "stream")]
        as_stop = [s_ for s_ in loops.closed_as_stop_sites(fx) if s_[0] in loops.loop_family(fx, f)]  # closed mailbox read as Stop
        ctx.require((len(none_edges) >= 1 or bool(as_stop)) and len(stop_edges) >= 1 and len(end_edges) >= 1, "R13.1", inst + ":has-all-exits", "the stream loop must have a branch for Stop, for the closed mailbox (last handle dropped) and for the exhausted stream: found %d / %d / %d" % (len(stop_edges), len(none_edges), len(end_edges)), fn=f["def"], site=f["loc"])
        up = f.get("upvars", [])
        # R13.5
        s_idx = [i for i, u in enumerate(up) if u == "S"]
        m_idx = loops.mailbox_rx_captures(fx, f)
        ctx.require(len(s_idx) == 1 and len(m_idx) == 1, "R13.5", inst + ":owns-stream-and-mailbox", "the loop future must own the stream and the mailbox: captures %s" % [u[:40] for u in up], fn=f["def"], site=f["loc"])
        nexts = [(bi, t) for bi, t in b.normal_calls() if (t.get("callee") or "").endswith("StreamExt::next")]
        got = set()
        for bi, t in nexts:
            for r in roots(b, t["args"][0]):
                got.add(r.site if r.kind == "upvar" else "?" + r.kind)
        n_next = len(nexts)
        if not nexts:
            # the two next() futures may be raced inside an awaited helper that is lent the loop's two sources
            for hbi, ht in b.normal_calls():
                h = fx.callee_fn(ht)
                if h is None or not h.get("is_async"):
                    continue
                hco = [c for c in fx.children_of(h["def"]) if c["kind"] == "coroutine"]
                if len(hco) != 1:
                    continue
                hb = ctx.body(fx, hco[0])
                hn = [(x, y) for x, y in hb.normal_calls() if (y.get("callee") or "").endswith("StreamExt::next")]
                for _x, y in hn:
                    n_next += 1
                    for r in roots(hb, y["args"][0]):
                        if r.kind == "upvar" and r.site < len(ht["args"]):
                            for r2 in roots(b, ht["args"][r.site]):
                                got.add(r2.site if r2.kind == "upvar" else "?" + r2.kind)
                        else:
                            got.add("?" + r.kind)
                if hn:
                    nexts = nexts or [(hbi, ht)]
        ok = n_next == 2
        if ok and s_idx and m_idx:
            ok = got == {s_idx[0], m_idx[0]}
        ctx.require(ok, "R13.5", inst + ":polls-both-sources", "each iteration must poll exactly the attached stream and the mailbox", fn=f["def"], site=nexts[0][1]["l"] if nexts else f["loc"])
        # R13.2
        sh = [(bi, t) for bi, t in b.normal_calls() if nfa.trait_method(loops.T_SH, "handle")(t)]
        b_plain = b
        if not sh:
            # the handler call may sit in a private async helper the loop awaits with the selected item
            # (`on_stream_item(stream_msg, &mut actor, &mut self.ctx).await`): judged with it inlined
            import inline
            b = inline.body(ctx, fx, f, inline.not_public)
            sh = [(bi, t) for bi, t in b.normal_calls() if nfa.trait_method(loops.T_SH, "handle")(t)]
        if ctx.require(len(sh) == 1, "R13.2", inst + ":one-item-handler-site", "expected exactly one StreamHandler::handle site", fn=f["def"], site=f["loc"]):
            bi, t = sh[0]
            rs = b.origins(t["args"][2])
            ok = all(o.kind == "await" for o in rs) and rs
            ar = roots(b, t["args"][0])
            cr = roots(b, t["args"][1])
            a_idx = [i for i, u in enumerate(up) if u == "A"]
            c_idx = [i for i, u in enumerate(up) if u.startswith("context::Context<")]
            ok2 = a_idx and c_idx and all(r.kind == "upvar" and r.site == a_idx[0] for r in ar) and all(r.kind == "upvar" and r.site == c_idx[0] for r in cr)
            b = b_plain
            ctx.require(ok and ok2, "R13.2", inst + ":item-from-select", "the item handled must be the one the select produced in this iteration, handled by the loop's actor with its context: item origins %s" % sorted(map(str, rs)), fn=f["def"], site=t["l"])
        # R13.3
        nested = loops.loop_family(fx, f)[1:]
        bad = []
        for g in nested:
            if g["kind"] != "closure":
                continue  # select arms are closures; a named helper the loop calls between selects is not an arm
            gb = ctx.body(fx, g)
            wrapped = {id(t) for _bi, t, _ok in loops.task_invokes(fx, gb)}
            for _, t in gb.normal_calls():
                if nfa.trait_method(loops.T_SH, "handle")(t) or id(t) in wrapped or nfa.trait_method(loops.T_SH, "finished")(t) or nfa.trait_method(loops.T_ACTOR, "stopped")(t):
                    bad.append((g["def"], t["callee"], t["l"]))
        ctx.require(not bad, "R13.3", inst + ":handlers-outside-select", "a handler runs inside a select arm: the select may drop it half-way when the other arm wins: %s" % bad, fn=f["def"], site=bad[0][2] if bad else f["loc"], detail={"nested_closures": len(nested)})
        # what the arms poll: only Next futures
        arm_polls = []
        for g in nested:
            if g["kind"] != "closure":
                continue  # (a helper's own await of the select future is not an arm)
            gb = ctx.body(fx, g)
            for _, t in gb.normal_calls():
                c = t.get("callee") or ""
                if c.endswith("poll_unpin") or c.endswith("Future::poll"):
                    arm_polls.append(t["argtys"][0])
        ok = len(arm_polls) == 2 and all(re.match(r"^&mut (core::pin::Pin<&mut )?futures_util::future::future::fuse::Fuse<futures_util::stream::stream::next::Next<", a) for a in arm_polls)
        ctx.require(ok, "R13.3", inst + ":arms-race-next-only", "the select must race exactly the two next() futures: %s" % [a[:70] for a in arm_polls], fn=f["def"], site=f["loc"], detail=[a[:90] for a in arm_polls])
        # R13.4
        shuffles = any((t.get("callee") or "").endswith("random::shuffle") for g in nested for _, t in ctx.body(fx, g).normal_calls())
        if shuffles:
            ctx.ok("R13.4", inst + ":fair-select", f["loc"], "select! shuffles its arms")
        else:
            # biased: the first arm closure must poll the mailbox
            first = sorted([g for g in nested if g["def"].endswith("{closure#0}::{closure#0}")], key=lambda g: g["def"])
            mailbox_first = False
            for g in first:
                for _, t in ctx.body(fx, g).normal_calls():
                    if (t.get("callee") or "").endswith(("poll_unpin", "Future::poll")) and loops.PAYLOAD in t["argtys"][0]:
                        mailbox_first = True
            ctx.require(mailbox_first, "R13.4", inst + ":fair-select", "a biased select must poll the mailbox first (an always-ready stream would starve Stop)", fn=f["def"], site=f["loc"])
