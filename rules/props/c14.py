"""C14 — stopped() / running() tell the truth without anyone awaiting the actor."""
import re
import core, nfa, graph
from mir import Body, sinks
from props.c15 import roots

EXPL = ("R14.1 (A4 + call graph + polarity): each liveness query (Addr::stopped, Addr::running, WeakAddr::stopped) must "
        "actively observe the shared termination future of its own handle — its call closure contains a poll "
        "(now_or_never / poll / poll_unpin) of a clone of the handle's RunningFuture — and report the right polarity "
        "(stopped = the poll is ready, running = its negation). A query that only peeks the Shared sees a result only "
        "after some clone was polled, i.e. lies when nobody awaited the actor. R14.2: Shared::peek is used nowhere, and "
        "nobody but the queries decides liveness (the registry operations call the queries). Not decided: a race inside "
        "Shared::poll between threads (primitive behaviour). R14.4: a handle whose own termination future is polled in place "
        "(impl Future for Addr) keeps a share, so it stays usable after it was awaited to completion.")

QUERIES = {"addr::Addr::<A>::stopped": "S", "addr::Addr::<A>::running": "R", "addr::weak_addr::WeakAddr::<A>::stopped": "S"}
SHARED = "futures_util::future::future::shared::Shared<futures_channel::oneshot::Receiver<()>>"
ACTIVE = ("FutureExt::now_or_never", "Future::poll", "FutureExt::poll_unpin")


def polarity(ctx, fx, b, operand, depth=0):
    """'S' if the bool is true exactly when the termination future is ready, 'R' for its negation, None unknown"""
    res = set()
    for o in b.origins(operand):
        if o.kind == "call":
            t = b.call_at(o)
            c = t.get("callee") or ""
            if c.endswith("::is_some") or c.endswith("::is_ready") or c.endswith("::is_none") or c.endswith("::is_pending"):
                inner = roots(b, t["args"][0])
                act = False
                for r in b.origins(t["args"][0]):
                    if r.kind == "call":
                        ct = b.call_at(r)
                        cc = ct.get("callee") or ""
                        if cc.endswith(ACTIVE) and SHARED in " ".join(ct.get("argtys", [])):
                            # the polled future is (a clone of) the handle's own field
                            if all(x.kind == "arg" for x in roots(b, ct["args"][0])):
                                act = True
                        if cc.endswith("::peek"):
                            res.add("PEEK")
                if act:
                    res.add("S" if c.endswith(("::is_some", "::is_ready")) else "R")
            elif c in QUERIES and depth < 2:
                res.add(QUERIES[c] if all(x.kind == "arg" for x in roots(b, t["args"][0])) else "OTHER")
            elif c in fx.fns and depth < 2 and fx.fns[c]["kind"] in ("fn", "assoc_fn") and t.get("destty") == "bool" and t["args"] and all(x.kind == "arg" for x in roots(b, t["args"][0])):
                # a crate-local helper applied to (a field of) the handle: its own polarity decides
                hb = ctx.body(fx, fx.fns[c])
                res |= polarity(ctx, fx, hb, [0], depth + 1)
            else:
                res.add("call:" + c)
        elif o.kind == "op":
            st = b.blocks[o.site[0]]["s"][o.site[1]]
            if st["r"]["k"] == "un" and st["r"]["op"] == "Not":
                inner = polarity(ctx, fx, b, st["r"]["o"], depth + 1)
                res |= {{"S": "R", "R": "S"}.get(x, x) for x in inner}
            else:
                res.add("op")
        else:
            res.add(o.kind)
    return res


def run(ctx):
    ctx.explanation = EXPL
    ctx.assumptions = ["polling a clone of a futures Shared drives the inner oneshot receiver and caches its output"]
    cfgs = ["tokio"] if ctx.tier == "quick" else ["tokio", "smol", "asyncstd"]
    for cfg in cfgs:
        fx = ctx.facts(cfg) if cfg == "tokio" else ctx.try_facts(cfg)
        if fx is None:
            continue
        ctx.cfg_tag = cfg
        run_cfg(ctx, fx)
    return core.finish(ctx)


def run_cfg(ctx, fx):
    check_queries(ctx, fx, "R14.1", "")
    check_rest(ctx, fx)
    # R14.3 the termination future completes only once the actor has terminated: the announcement follows the completed
    # stopped() hook (otherwise every handle reports `stopped` while the actor is still winding down)
    from props.c03 import run_loops
    run_loops(ctx, fx, "R14.3", {"L6"})
    check_announcers(ctx, fx, "R14.5")
    # R14.6 (shared with C08) the registry's dependents act on the truthful answer: a terminated entry is replaced by the
    # instance spawned on demand (what is inserted is the address of the loop that was spawned, unconditionally), lookups hand
    # out running instances only, already_running reports the entry's running()
    from props import c08 as _c08
    _c08.shared_subset(ctx, fx, fx.cfg, "R14.6", r"^(from_registry_and_spawn@%s:(inserted-is-spawned|reuse-only-if-running|order)|try_from_registry@%s|already_running@%s|register@%s)$" % ((re.escape(fx.cfg),) * 4), 4)
    # R14.7 (shared with C08) "register-if-stopped reacts to a termination nobody awaited": whether a registration is refused is
    # decided in one place, under the registry lock, on the entry's liveness — every other way to register (the builder's
    # `register()`) forwards to it on every path and neither refuses nor succeeds of its own
    # R14.8 (shared with C08) the lookup that respawns on demand reacts to a termination: `from_registry` / `setup` are the
    # spawn-on-demand operation and nothing else — no fast path of their own in front of it (one that holds a read guard while it
    # calls the operation deadlocks exactly when the entry has terminated)
    core.shared_from(ctx, _c08.check_cfg, fx, fx.cfg, "R14.8", ("R08.5",), r"^(from_registry|setup)@", 2, "lookup wrappers")
    core.shared_from(ctx, _c08.check_cfg, fx, fx.cfg, "R14.7", ("R08.7",), r"^(still-running-decided-under-lock|register-forwarder)", 2, "registration decided in one place")


def check_announcers(ctx, fx, RULE="R14.5"):
    """the termination is announced by the event loops only (their exit sequence, R14.3): every function from which
    StopNotifier::notify is reachable is a loop constructor or a helper used by nothing but the loops — an announcement
    reachable from a restart strategy, a handler or a context operation reports `stopped` for an actor that lives on"""
    import loops
    NOTIFY = "context::StopNotifier::notify"
    owners = {f["parent"] for f, _k in loops.find_loops(fx)}
    ctx.floor(RULE, "event loops", len(owners), 2)
    helpers = graph.private_helpers(fx, owners)
    cr = graph.caller_roots(fx)
    reach = {NOTIFY}
    frontier = [NOTIFY]
    seen_users = {}
    while frontier:
        d = frontier.pop()
        for u in sorted(cr.get(d, set()) - {d}):
            seen_users.setdefault(u, d)
            if u not in reach and u not in owners:
                reach.add(u)
                frontier.append(u)
    ctx.floor(RULE, "functions that announce the termination", len(seen_users), 1)
    for u, via in sorted(seen_users.items()):
        ok = u in owners or u in helpers
        f = fx.fn(u) or {}
        ctx.require(ok, RULE, "announcer:" + u, "the termination can be announced from outside the event loops' exit sequence: %s reaches StopNotifier::notify (through %s) and is used by %s" % (u, via, sorted(cr.get(u, set()) - owners - helpers)[:4]), fn=u, site=f.get("loc"))


def check_queries(ctx, fx, RULE, suffix):
    for q, want in QUERIES.items():
        f = fx.fn(q)
        if not ctx.require(f is not None, RULE, q + suffix, "liveness query %s not found" % q):
            continue
        b = ctx.body(fx, f)
        pol = polarity(ctx, fx, b, [0])
        ctx.require(pol == {want}, RULE, q + suffix, "the liveness query must poll its handle's termination future and report %s: derived %s%s" % ("stopped=ready" if want == "S" else "running=not ready", sorted(pol), " — Shared::peek only sees a result some clone has already polled out" if "PEEK" in pol or any("peek" in p for p in pol) else ""), fn=q, site=f["loc"], detail=sorted(pol))


class _RestoreOnReady(nfa.Spec):
    init = ("s0",)

    def step(self, st, label):
        ev = label.split("@")[0]
        ph = st[0]
        if ev == "call:poll":
            return ("polled",)
        if ph in ("polled", "ready") and ev in ("sw:Poll::Pending", "bool:is_ready=0", "bool:is_pending=1"):
            return ("pending",)
        if ph == "polled" and ev in ("sw:Poll::Ready", "bool:is_ready=1", "bool:is_pending=0"):
            return ("ready",)
        if ev == "stmt:restore" and ph in ("polled", "ready"):
            return ("restored",)
        if ev == "ret" and ph in ("polled", "ready"):
            return nfa.Err("a path on which the poll may have completed returns without keeping a share")
        return st


def check_inplace_polls(ctx, fx, RULE):
    """A Shared that is polled to completion *in place* gives up its share of the future: the handle could then not be
    cloned, awaited again or asked stopped() (cloning and polling it panics). Every in-place poll of a handle's own
    termination future must restore the share on the Ready path (keep a clone taken before the poll)."""
    n = 0
    for f in fx.d["fns"]:
        b = ctx.body(fx, f)
        for bi, t in b.normal_calls():
            c = t.get("callee") or ""
            if not (c.endswith(ACTIVE) and SHARED in " ".join(t.get("argtys", []))):
                continue
            direct = b.origins(t["args"][0], through_calls="plumbing")
            direct = {o for o in direct if o.kind in ("arg", "upvar")}
            if not direct:
                continue  # a clone (or something else than the handle's own field) is polled
            n += 1
            # restore idiom: a clone of the same place made in this function is assigned back to it
            restored = False
            for l, stores in list(b.partial.items()):
                for (_bi, _si, st) in stores:
                    if st["r"]["k"] != "use":
                        continue
                    for o in b.origins(st["r"]["o"], through_calls=False):
                        if o.kind == "call" and (b.call_at(o).get("callee") or "").endswith("Clone::clone") and SHARED in " ".join(b.call_at(o).get("argtys", [])):
                            src = b.origins(b.call_at(o)["args"][0], through_calls="plumbing")
                            if {(x.kind, x.site, x.proj) for x in src if x.kind in ("arg", "upvar")} == {(x.kind, x.site, x.proj) for x in direct}:
                                restored = True
            if restored:
                # ... on every path on which the poll was Ready (also the error outcome)
                def is_restore(body_, bi_, si_, st_):
                    if len(st_["p"]) < 2 or st_["r"]["k"] != "use":
                        return None
                    for o in body_.origins(st_["r"]["o"], through_calls=False):
                        if o.kind == "call" and (body_.call_at(o).get("callee") or "").endswith("Clone::clone") and SHARED in " ".join(body_.call_at(o).get("argtys", [])):
                            return "stmt:restore"
                    return None
                def is_share(x, _b=b, _direct=direct):
                    if not ((x.get("callee") or "").endswith("Clone::clone") and SHARED in " ".join(x.get("argtys", []))):
                        return False
                    src_ = _b.origins(x["args"][0], through_calls="plumbing")
                    return {(y.kind, y.site, y.proj) for y in src_ if y.kind in ("arg", "upvar")} == {(y.kind, y.site, y.proj) for y in _direct}
                # the share must have been taken before the poll: a clone of the handle's own field made strictly after the
                # in-place poll (reachable from it, the poll not reachable from the clone) may clone a completed Shared — a
                # dead share, polling it panics
                after_poll = b.reachable_from(bi) - {bi}
                late = [(cbi, x) for cbi, x in b.normal_calls() if is_share(x) and cbi in after_poll and bi not in b.reachable_from(cbi)]
                if late:
                    restored = False
                    ctx.viol(RULE, "in-place-poll-restores:%s" % f["def"], "the share is cloned from the handle's own field after the in-place poll may have completed: a clone of a completed Shared is a dead share (polling it panics)", fn=f["def"], site=late[0][1]["l"])
                    continue
                RA = nfa.Alphabet(calls=[("poll", lambda x, _t=t: x is _t), ("is_ready", nfa.callee_ends("poll::{impl#0}::is_ready", "Poll::is_ready")), ("is_pending", nfa.callee_ends("poll::{impl#0}::is_pending", "Poll::is_pending"))],
                                  adts={"core::task::poll::Poll": "Poll"}, bools={"is_ready", "is_pending"})
                RA.stmt_fn = is_restore
                rn = nfa.build(b, RA)
                rv, rps = nfa.check(rn, _RestoreOnReady())
                ctx.count_nfa(rn.stats(), rps)
                if rv:
                    restored = False
                    ctx.viol(RULE, "in-place-poll-restores:%s" % f["def"], "the share is restored on some outcomes of the in-place poll only: " + rv[0]["msg"], fn=f["def"], site=t["l"], trace=rv[0]["trace"])
                    continue
            ctx.require(restored, RULE, "in-place-poll-restores:%s" % f["def"], "the handle's own termination future is polled in place without keeping a share: after completion this handle (and clones / weak addresses made from it) panic on stopped(), clone().await, …", fn=f["def"], site=t["l"])
    return n


def check_rest(ctx, fx):
    check_inplace_polls(ctx, fx, "R14.4")
    peeks = [(f["def"], t["l"]) for f, bi, t in graph.all_calls(fx, lambda t: (t.get("callee") or "").endswith("::peek") and "shared" in (t.get("callee") or ""))]
    ctx.require(not peeks, "R14.2", "no-peek", "Shared::peek decides liveness somewhere: %s" % peeks, site=peeks[0][1] if peeks else "crate", detail={"positive_control": "callee suffix ::peek on futures_util::future::future::shared"})
    # who turns the termination future into a decision: the queries, the Future impl of Addr, and helpers only they call
    pollers = set()
    for f in fx.d["fns"]:
        gb = ctx.body(fx, f)
        for _, t in gb.normal_calls():
            c = t.get("callee") or ""
            if c.endswith(ACTIVE + ("::peek",)) and SHARED in " ".join(t.get("argtys", [])):
                pollers.add(f.get("root", f["def"]))
    poll_impl = fx.impl_fn("core::future::future::Future", "addr::Addr<", "poll")
    allowed = set(QUERIES) | ({poll_impl["def"]} if poll_impl else set())
    stray = []
    for p_ in sorted(pollers - allowed):
        who = graph.callers_of(fx, p_)
        if not who or not all(w.split("::{")[0] in allowed or w in pollers for w in who):
            stray.append(p_)
    ctx.require(not stray and pollers, "R14.2", "who-decides-liveness", "liveness is decided outside the three queries and the Future impl: %s" % stray, detail=sorted(pollers))
    # the registry uses the queries
    import json as _json
    REGISTRY_OPS = {f.get("root", f["def"]) for f in fx.d["fns"] if '"static": "actor::service::REGISTRY"' in _json.dumps(f["pre"])}
    uses = {}
    for f in fx.d["fns"]:
        if not (f["def"].startswith("actor::service::") or f.get("root", f["def"]) in REGISTRY_OPS):
            continue
        b = ctx.body(fx, f)
        for _, t in b.normal_calls():
            for a in t["args"]:
                if a.get("k") == "const" and a.get("fn") in QUERIES:
                    uses.setdefault(f.get("root", f["def"]), []).append(a["fn"])
            if t.get("callee") in QUERIES:
                uses.setdefault(f.get("root", f["def"]), []).append(t["callee"])
    ctx.floor("R14.2", "registry operations consulting the liveness queries", len(uses), 2)
    for k, v in sorted(uses.items()):
        ctx.ok("R14.2", "registry-uses-query:" + k, fx.fn(k)["loc"] if fx.fn(k) else None, v)
    return None
