"""C17 — OwningAddr hands back the actor's final state exactly once."""
import core, nfa, loops, graph, runtimes
from mir import Body, sinks, agg_sites
from props.c15 import roots
from props.c03 import run_loops

EXPL = ("R17.1 (A1 + A3) the loop's Ok result carries the loop's own actor place — the one every handler and stopped() "
        "borrowed — and is produced only after the completed stopped() and the announcement. R17.2 (A1 + A3, per runtime "
        "configuration) each spawner's join closure takes the runtime handle out of its Option under the lock (a second join "
        "finds None and yields None), awaits exactly that handle, and maps both failure levels to None without a panicking "
        "extractor. R17.3 (A3) join = the handle's join function; consume / consume_sync = stop, then that join; detach = "
        "ActorHandle::detach then the same address; to_addr / as_addr / as_ref expose the same address.")

PANICKY = ("::unwrap", "::expect", "::unwrap_unchecked", "panicking::panic", "panicking::panic_fmt")


class JoinSpec(nfa.Spec):
    init = ("s0",)

    def step(self, st, label):
        label = loops.norm(label)
        ev = label.split("@")[0]
        src = label.split("@")[1] if "@" in label else ""
        ph = st[0]
        if ev in ("unwind", "cancel") or ev.startswith("pend:"):
            return st
        if ev == "call:lock":
            return ("locking",) if ph == "s0" else nfa.Err("R17.2: the handle slot is locked twice")
        if ev == "done:lock":
            return ("locked",) if ph == "locking" else st
        if ev == "call:take":
            if ph == "locked":
                return ("taken",)
            return st
        if ev in ("sw:Option::Some", "sw:Res::Ok") and ph == "taken":
            return ("have",)
        if ev in ("sw:Option::None", "sw:Res::Err") and ph == "taken":
            return ("none",)
        if ev == "retval:residual":  # `slot.take().await?` in a function returning Option: None is handed back
            if ph != "none":
                return nfa.Err("R17.2: None is returned in phase %s" % ph)
            return ("ret",)
        if ev in ("done:opthandle", "done:opthandle|take"):
            # `OptionFuture::from(taken).await`: waits for the handle if there was one, yields None at once if there was none
            if ph != "taken":
                return nfa.Err("R17.2: an optional task handle is awaited in phase %s (must be what was just taken out of the slot)" % ph)
            return ("joined",)
        if ev in ("done:handle", "done:take"):
            if ph != "have":
                return nfa.Err("R17.2: a task handle is awaited in phase %s (must be the one just taken out of the slot)" % ph)
            return ("joined",)
        if ev == "retval:None":
            if ph not in ("none",):
                return nfa.Err("R17.2: None is returned in phase %s" % ph)
            return ("ret",)
        if ev.startswith("retval:") or (ev.startswith("call:") and ev.endswith("_to_ret")):
            return ("ret",) if ph == "joined" else nfa.Err("R17.2: a result is produced in phase %s (the task was not joined)" % ph)
        if ev == "ret":
            if ph in ("joined", "ret"):
                return st
            return nfa.Err("R17.2: join returns in phase %s" % ph)
        return st


def run(ctx):
    ctx.explanation = EXPL
    ctx.assumptions = ["the runtime's join handle resolves when the task's future has returned (after its last statement)", "async_lock::Mutex mutual exclusion"]
    for cfg in ("tokio", "smol", "asyncstd"):
        fx = ctx.facts(cfg) if cfg == "tokio" else ctx.try_facts(cfg)
        if fx is None:
            continue
        check_cfg(ctx, fx, cfg)
    return core.finish(ctx)


def check_cfg(ctx, fx, cfg):
    check_join_handle_is_inert(ctx, fx, cfg, "R17.5")
    # R17.7 (shared with C07) "yields the actor value in its final state": the value an owning handle hands back is the one the
    # configured restart strategy left in the loop — the builder's spawn_owning terminals run the loop with the builder's own
    # strategy, as their spawn twins do (`Environment::<A>::…` silently means RestartOnly: after a restart the joined value of a
    # recreate-from-default actor would still carry the state of the previous incarnation)
    if cfg != "bare":
        from props import c07 as _c07
        core.shared_from(ctx, _c07.check_cfg, fx, cfg, "R17.7", ("R07.4",), r"^terminal:.*spawn_owning", 2, "builder spawn_owning terminals")
    # R17.1
    res = run_loops(ctx, fx, "R17.1", {"L11a"})
    for f, kind, b, n in res:
        up = f.get("upvars", [])
        a_idx = [i for i, u in enumerate(up) if u == "A"]
        oks = [st for _bi, _si, st in agg_sites(b, adt="core::result::Result", variant="Ok") if st["p"] == [0]]
        good = bool(a_idx)  # no visible Ok(..) literal (e.g. `outcome.map(|_| actor)`): nothing to judge here
        for st in oks:
            for r in roots(b, st["r"]["ops"][0]):
                is_actor = loops.is_actor_root(fx, b, r, a_idx)
                if not is_actor:
                    good = False
        import inline
        ib = inline.body(ctx, fx, f, inline.not_public)
        if not oks and a_idx:
            # the result may be prepared by a private helper (`conclude(actor, stop)` = notify, then `Ok(actor)`): with it
            # inlined, follow the returned value through the Ok wrapper to what it is made from
            leaves, work, seen_ = [], [({"k": "move", "p": [0]}, 0)], set()
            while work:
                op_, d_ = work.pop()
                for o_ in ib.origins(op_):
                    k_ = (o_.kind, o_.site, o_.proj)
                    if k_ in seen_ or d_ > 8:
                        continue
                    seen_.add(k_)
                    if o_.kind == "agg":
                        r_ = ib.blocks[o_.site[0]]["s"][o_.site[1]]["r"]
                        if r_.get("variant") == "Ok" and r_.get("ops"):
                            for r2 in roots(ib, r_["ops"][0]):
                                leaves.append(r2)
                            continue
                        if r_.get("variant") == "Err":
                            continue
                    elif o_.kind == "call" and (ib.call_at(o_).get("callee") or "").endswith("from_residual"):
                        continue
            if leaves:
                good = all(loops.is_actor_root(fx, ib, r2, a_idx) for r2 in leaves)
        ctx.require(good, "R17.1", "%s-loop-returns-its-actor@%s" % (kind, cfg), "the loop must hand back the very actor value its handlers and stopped() worked on", fn=f["def"], site=oks[0].get("l") if oks else f["loc"])
        # stopped() borrowed the same place
        sb_ = b if any(nfa.trait_method(loops.T_ACTOR, "stopped")(t) for _, t in b.normal_calls()) else ib  # (`stop_actor(&mut actor, ctx).await`)
        for bi, t in sb_.normal_calls():
            if nfa.trait_method(loops.T_ACTOR, "stopped")(t) or loops.is_task_invoke(t):
                arg = t["args"][0] if not loops.is_task_invoke(t) else None
                if arg is not None:
                    ok = all((r.kind == "upvar" and r.site == a_idx[0]) or r.kind == "await" for r in roots(sb_, arg))
                    ctx.require(ok, "R17.1", "%s-loop-stopped-on-same-actor@%s" % (kind, cfg), "stopped() acts on a different value than the one returned", fn=f["def"], site=t["l"])
    # R17.4 the actor value the loop runs (and hands back) is the one given to the spawn entry point — or a fresh Default
    # where the API says so — handed over unmodified
    makers = graph.forwarding_closure(fx, loops.maker_params(fx, "actor"), roots, lambda g_: ctx.body(fx, g_))
    n_sites = 0
    for g, bi_, t_ in graph.all_calls(fx, lambda x: x.get("callee") in makers):
        gb = ctx.body(fx, g)
        n_sites += 1
        mop = graph.maker_operand(t_, makers)
        rs = roots(gb, mop) if mop is not None else set()
        kinds = {("default" if r.kind == "call:core::default::Default::default" else r.kind) for r in rs}
        # a maker given to the entry point instead of the value (`from_registry_or_spawn_with(make)` .. `create_loop(make())`):
        # the value is what the supplied callable returns; for an API without an actor parameter it must be `Default::default`
        if any(k.endswith(graph.CALLABLE_CALLS) for k in kinds):
            k2 = set()
            for r in rs:
                if r.kind.endswith(graph.CALLABLE_CALLS):
                    mk = graph.supplied_maker(fx, gb, g, r, roots, lambda g_: ctx.body(fx, g_))
                    k2 |= {"default" if graph.maker_is_default(fx, m_, roots, lambda g_: ctx.body(fx, g_)) else ("arg" if m_ == "arg" else "?:" + m_) for m_ in mk}
                else:
                    k2.add("default" if r.kind == "call:core::default::Default::default" else r.kind)
            kinds = k2
        # an entry point that is given no actor value (no parameter of the actor type) can only run a fresh default one
        rootf = fx.fn(g.get("root", g["def"])) or g
        actor_tys = ("A", "Self", "&mut A", "&mut Self")
        is_default_api = not any((i.get("ty") if isinstance(i, dict) else i) in actor_tys for i in (rootf.get("inputs") or []))
        ok = bool(rs) and (kinds <= {"arg", "upvar"} or (is_default_api and kinds == {"default"}))
        ctx.require(ok, "R17.4", "actor-handed-over:%s@%s" % (g["def"], cfg), "the actor value the loop runs is not the one given to this spawn entry point (roots %s)" % sorted(map(str, rs)), fn=g["def"], site=t_["l"])
    ctx.floor("R17.4", "callers of the loop constructors (%s)" % cfg, n_sites, 3)
    check_join(ctx, fx, cfg, "R17.2")
    check_forwarding(ctx, fx, cfg)
    # R17.5 a pending join must not itself keep the actor alive: nothing erased into JoinFuture<A> owns a mailbox sender or a
    # strong channel Arc (join resolves when the last strong handle is gone; a join future holding one would wait for itself)
    import own
    n_j = 0
    for key, ent in fx.dyn.items():
        if key.startswith("dyn core::future::future::Future + [Output=core::option::Option<A>]"):
            for s in ent["sources"]:
                n_j += 1
                o = fx.owns_of(s.get("def"), None) if s.get("def") else None
                ka = own.keepalive_atoms(o["atoms"]) if o else []
                ctx.require(o is not None and not ka, "R17.5", "join-future-holds-nothing-strong:%s@%s" % (s.get("def"), cfg), "a join future owns a strong handle (%s): with it pending the actor never sees its last handle dropped" % [a["ty"][:60] for _c, _p, a in ka][:2], fn=s.get("def"), site=(fx.fn(s["def"]) or {}).get("loc") if s.get("def") else None)
    ctx.floor("R17.5", "futures erased into JoinFuture (%s)" % cfg, n_j, 1)


def task_trait(fx):
    """(trait def, {method: [impl fn records]}) of the crate-local trait behind `ActorHandle`'s boxed task object
    (`Box<dyn SpawnedTask<A>>` with `join` / `detach`), when the handle holds one instead of a boxed join closure"""
    ah = fx.adts.get("actor::spawner::actor_handle::ActorHandle")
    if not ah:
        return None
    import re
    for fl in ah["variants"][0]["fields"]:
        m = re.match(r"alloc::boxed::Box<dyn ([\w:]+)<", fl["ty"])
        if m and m.group(1) in {tr["def"] for tr in fx.d["traits"]}:
            tr = m.group(1)
            impls = {}
            for g in fx.d["fns"]:
                if g.get("impl_trait_def") == tr and g["kind"] == "assoc_fn":
                    impls.setdefault(g["def"].split("::")[-1], []).append(g)
            return tr, impls
    return None


def handle_parts(ctx, fx, f):
    """for a Spawner::spawn_actor implementation f: (join implementation, detach implementation or None) — the closures given
    to `ActorHandle::new(join_fn)` / `.with_detach_fn(detach_fn)`, or the `join` / `detach` methods of the task object given
    to a constructor of the handle (`ActorHandle::from_task(SmolTask(slot))`)"""
    # (with crate-private helpers inlined: the handle may be put together by a shared constructor — `ActorHandle::join_once(task,
    # settle)` — or the closure built by a private function of the spawner's module)
    import inline

    def _helpers(g, t):
        # (a constructor that writes the handle's struct literal itself — `ActorHandle::from_task(task)` — stays a call: it
        # is what "the handle is built from" refers to)
        return inline.not_public(g, t) and not any(True for _ in agg_sites(ctx.body(fx, g), adt="actor::spawner::actor_handle::ActorHandle"))
    b = inline.body(ctx, fx, f, _helpers)
    join = detach = None
    mk = [t for _, t in b.normal_calls() if fx.callee_fn(t) is not None and (fx.callee_fn(t).get("output") or "").startswith("actor::spawner::actor_handle::ActorHandle<") and (fx.callee_fn(t).get("impl_self") or "").startswith("actor::spawner::actor_handle::ActorHandle<")]
    tt = task_trait(fx)
    for t in mk:
        for a in t["args"]:
            for o in b.origins(a):
                if o.kind != "agg":
                    continue
                r = b.blocks[o.site[0]]["s"][o.site[1]]["r"]
                if r.get("ak") == "closure" and fx.fn(r.get("def") or "") is not None:
                    if (t.get("callee") or "").endswith("::with_detach_fn"):
                        detach = fx.fn(r["def"])
                    elif join is None:
                        join = fx.fn(r["def"])
                elif r.get("ak") == "adt" and tt is not None:
                    for meth, impls in tt[1].items():
                        for g in impls:
                            if (g.get("impl_self") or "").split("<")[0] == r.get("def"):
                                if meth == "join":
                                    join = g
                                elif meth == "detach":
                                    detach = g
    return join, detach, mk


def reporting_task(ctx, fx, f, b, spawn_t):
    """if what spawn_actor hands to the runtime is an async block of its own (not the loop future itself): is it the reporting
    shape — await the captured loop future, send its result on a one-shot channel created here, whose receiver is what is
    stored for the joins? {"ok": bool, "why": str} or None when the loop future is spawned directly"""
    lit = None
    for o in b.origins(spawn_t["args"][0]):
        if o.kind == "agg":
            r = b.blocks[o.site[0]]["s"][o.site[1]]["r"]
            if r.get("ak") == "coroutine" and fx.fn(r.get("def") or "") is not None:
                lit = (fx.fn(r["def"]), r)
        elif o.kind == "call" and not o.proj:
            # the task is the future of a named crate-local `async fn` (`report(result_tx, future)`): its body is the async fn's
            # coroutine, which captures the parameters in their order
            ct = b.call_at(o)
            h = fx.callee_fn(ct)
            if h is not None and h.get("is_async") and h["kind"] in ("fn", "assoc_fn"):
                kids = [c for c in fx.children_of(h["def"]) if c["kind"] == "coroutine"]
                if len(kids) == 1:
                    lit = (kids[0], {"ops": list(ct["args"])})
    if lit is None:
        return None
    co, r = lit
    cb = ctx.body(fx, co)
    sends = [t for _, t in cb.normal_calls() if (t.get("callee") or "").startswith("futures_channel::oneshot::") and (t.get("callee") or "").endswith("::send")]
    if len(sends) != 1:
        return {"ok": False, "why": "%d one-shot sends in the spawned task" % len(sends)}
    val = cb.origins(sends[0]["args"][1])
    awaited_upvar = bool(val) and all(o.kind == "await" and all(p.kind == "upvar" for p in cb.polled_future_origins(o.site[0])) for o in val)
    if not awaited_upvar:
        return {"ok": False, "why": "what is sent is not the awaited result of the captured future"}
    # the captured future is spawn_actor's own parameter; the sender comes from a channel created here
    caps_ok = True
    fut_caps = 0
    for op in r["ops"]:
        rs = roots(b, op)
        if rs and all(x.kind == "arg" for x in rs):
            fut_caps += 1
        elif rs and all(x.kind.startswith("call:futures_channel::oneshot::channel") for x in rs):
            pass
        else:
            caps_ok = False
    if not caps_ok or fut_caps != 1:
        return {"ok": False, "why": "the spawned task captures something else than the loop future and the result channel"}
    # the task is detached at once (its handle must not be able to cancel the actor)
    sk = sinks(b, spawn_t["dest"][0]) if len(spawn_t["dest"]) == 1 else []
    crate, sem = runtimes.handle_kind(spawn_t.get("destty") or "")
    if sem == "cancels" and not any(x["k"] == "call" and (x["t"].get("callee") or "").endswith("::detach") for x in sk):
        return {"ok": False, "why": "the reporting task's handle is not detached"}
    return {"ok": True, "why": ""}


def join_futures(ctx, fx, jc):
    """the futures a join implementation builds: the async blocks written in it or in a synchronous function it forwards to
    (`move || join_task(&handle)`), and the bodies of the crate-local `async fn`s it calls to make the future
    (`Box::pin(join_reported(handle))`, `Box::pin(result.share().wait())`)"""
    cos = []
    for g_ in graph.with_forwarded(fx, jc, depth=2):
        gb = ctx.body(fx, g_)
        for _bi, _si, st in agg_sites(gb, ak="coroutine"):
            cos.append(fx.fn(st["r"]["def"]))
        for _bi, t in gb.normal_calls():
            h = fx.callee_fn(t)
            if h is not None and h.get("is_async") and h["kind"] in ("fn", "assoc_fn"):
                cos.extend(c for c in fx.children_of(h["def"]) if c["kind"] == "coroutine")
    out = []
    for c in cos:
        if c is not None and c["def"] not in {x["def"] for x in out}:
            out.append(c)
    return out


def check_join_handle_is_inert(ctx, fx, cfg, RULE="R17.5"):
    """what a join future waits on has no power over the actor, and a detach cannot take it away: (a) the value a join takes
    out of the slot and awaits is not a runtime task handle whose drop cancels the task (a join that is given up after its
    first poll — a timeout, the losing arm of a select — would take the actor down); (b) no detach implementation empties
    the slot a join reads (a join requested before the detach would find nothing and yield None while the actor lives on,
    its final state lost). Both were true of the smol spawner of the pinned tree (D7 / D8)."""
    spawners = [f for f in fx.impl_fns("actor::spawner::Spawner") if f["def"].endswith("::spawn_actor")]
    for f in spawners:
        sname = (f.get("impl_self") or "?").split("::")[-1]
        inst = "%s@%s" % (sname, cfg)
        jc, dc, mk_ = handle_parts(ctx, fx, f)
        if jc is None:
            continue
        # (a) what the join future awaits
        cos = join_futures(ctx, fx, jc)
        awaited = []
        for co in cos:
            if co is None:
                continue
            cb = ctx.body(fx, co)
            for bi, t in cb.normal_calls():
                if (t.get("callee") or "").endswith(("Future::poll", "::poll_unpin")):
                    ty = (t.get("argtys") or [""])[0]
                    crate, sem = runtimes.handle_kind(ty)
                    if crate is not None:
                        awaited.append((crate, sem, t["l"]))
        bad = [a for a in awaited if a[1] == "cancels"]
        ctx.require(not bad, RULE, inst + ":join-awaits-inert-handle", "the join future awaits a %s task handle: dropping the join future after its first poll cancels the actor" % (bad[0][0] if bad else "?"), fn=jc["def"], site=bad[0][2] if bad else jc["loc"], detail=awaited)
        # (b) the detach implementation does not empty the slot the join reads
        if dc is not None:
            takes = [t for g_ in graph.with_forwarded(fx, dc) for _, t in ctx.body(fx, g_).normal_calls() if (t.get("callee") or "").endswith("option::{impl#0}::take")]
            ctx.require(not takes, RULE, inst + ":detach-leaves-pending-join", "detaching takes the task handle out of the slot that a join requested earlier still has to read: that join yields None while the actor lives on", fn=dc["def"], site=takes[0]["l"] if takes else dc["loc"])
        else:
            ctx.ok(RULE, inst + ":detach-leaves-pending-join", f["loc"], "no detach implementation")


def check_join(ctx, fx, cfg, RULE):
    spawners = [f for f in fx.impl_fns("actor::spawner::Spawner") if f["def"].endswith("::spawn_actor")]
    ctx.floor(RULE, "Spawner::spawn_actor impls (%s)" % cfg, len(spawners), 1)
    for f in spawners:
        sname = (f.get("impl_self") or "?").split("::")[-1]
        inst = "%s@%s" % (sname, cfg)
        import inline
        b = inline.body(ctx, fx, f, inline.not_public)  # (`let result_rx = spawn_reporting(future);`)
        # the runtime handle of the spawned loop future is stored in the shared Option slot
        sp = [(bi, t) for bi, t in b.normal_calls() if t.get("callee") in runtimes.SPAWN_FNS]
        if not ctx.require(len(sp) == 1, RULE, inst + ":spawns-once", "spawn_actor must hand its future to the runtime exactly once", fn=f["def"], site=f["loc"]):
            continue
        reporting = reporting_task(ctx, fx, f, b, sp[0][1])
        ok = all(r.kind == "arg" for r in roots(b, sp[0][1]["args"][0])) or (reporting is not None and reporting["ok"])
        ctx.require(ok, RULE, inst + ":spawns-the-loop", "what is spawned is not the loop future given to spawn_actor", fn=f["def"], site=sp[0][1]["l"])
        if reporting is not None:
            # the loop runs in a detached task that reports its result through a one-shot channel; joins wait on the receiver
            ctx.require(reporting["ok"], RULE, inst + ":reports-loop-result", "the spawned task must await the loop future it was given and send exactly its result into the channel whose receiver the joins wait on: %s" % reporting["why"], fn=f["def"], site=sp[0][1]["l"])
        crate, sem = runtimes.handle_kind(sp[0][1]["destty"])
        ctx.require(crate is not None, RULE, inst + ":known-handle", "unknown runtime task handle type %s: its join/drop semantics must be confirmed" % sp[0][1]["destty"][:60], fn=f["def"], site=sp[0][1]["l"], detail={"handle": sp[0][1]["destty"][:80], "drop": sem})
        # the join closure: passed to ActorHandle::new
        jc, _dc, mk_ = handle_parts(ctx, fx, f)
        if not ctx.require(len(mk_) >= 1, RULE, inst + ":handle-built", "ActorHandle::new not called", fn=f["def"], site=f["loc"]):
            continue
        if not ctx.require(jc is not None, RULE, inst + ":join-closure", "join closure not found", fn=f["def"], site=f["loc"]):
            continue
        jb = ctx.body(fx, jc)
        # the future is built by the closure itself or by a named function it forwards to (`move || join_task(&handle)`)
        cos = join_futures(ctx, fx, jc)
        if not ctx.require(len(cos) == 1, RULE, inst + ":join-future", "the join closure must build exactly one future", fn=jc["def"], site=jc["loc"]):
            continue
        co = cos[0]
        cb = ctx.body(fx, co)
        A = nfa.Alphabet(
            calls=[("lock", lambda t: (t.get("callee") or "").startswith("async_lock::mutex::") and (t.get("callee") or "").endswith(("::lock", "::lock_arc"))),
                   ("take", nfa.callee_ends("option::{impl#0}::take")),
                   ("opthandle", lambda t: (t.get("resolved") or "").startswith("futures_util::future::option::") and (t.get("callee") or "").endswith("From::from"))],
            adts={"core::option::Option": "Option", "core::ops::control_flow::ControlFlow": "Res"}, retval=True,
            fut_types=[("futures_util::future::option::OptionFuture<", "opthandle")] + [(p[:-1], "handle") for p in runtimes.HANDLES] + [("futures_channel::oneshot::Receiver<core::result::Result<A,", "handle")])
        n = nfa.build(cb, A, fx, depth=2)  # the slot may be a small type of its own with an async `take`
        viols, ps = nfa.check(n, JoinSpec())
        ctx.count_nfa(n.stats(), ps)
        for v in viols:
            ctx.viol(RULE, inst + ":join-protocol", v["msg"], fn=co["def"], site=co["loc"], trace=v["trace"])
        if not viols:
            ctx.ok(RULE, inst + ":join-protocol", co["loc"], {"words": [" ".join(w) for w in nfa.words(n, limit=3)]})
        # no cloning of the runtime handle, no panicking extractor
        bad = [(t["callee"], t["l"]) for _, t in cb.normal_calls() if (t.get("callee") or "").endswith(PANICKY) and not t.get("exp")]
        ctx.require(not bad, RULE, inst + ":no-panic", "panicking extractor on the join path: %s" % bad, fn=co["def"], site=co["loc"])
        # the slot locked is the captured one which holds the spawned handle
        locks = [(g_, t) for g_ in loops.loop_family(fx, co) if g_["kind"] == "coroutine" for _, t in ctx.body(fx, g_).normal_calls() if (t.get("callee") or "").startswith("async_lock::mutex::") and (t.get("callee") or "").endswith("::lock")]
        ok = len(locks) == 1 and all(r.kind == "upvar" for r in roots(ctx.body(fx, locks[0][0]), locks[0][1]["args"][0]))
        ctx.require(ok, RULE, inst + ":locks-own-slot", "the join locks something else than the slot holding its task handle", fn=co["def"], site=co["loc"])
        # the result handed back derives from the awaited handle (the actor value), flattened with ok()/and_then()
        rv = set()
        for bi, blk in enumerate(cb.blocks):
            if blk["c"]:
                continue
            t = blk["t"]
            if t["k"] == "call" and t["dest"] == [0]:
                for r in roots(cb, t["args"][0]):
                    rv.add(r.kind if r.kind != "call:core::result::{impl#0}::ok" else "ok")
                    if r.kind.startswith("call:") and r.kind.endswith("::ok"):
                        ct = cb.call_at(r)
                        for r2 in roots(cb, ct["args"][0]):
                            rv.add(r2.kind)
            for st in blk["s"]:
                if st["k"] == "assign" and st["p"] == [0] and st["r"]["k"] == "use":
                    for r in roots(cb, st["r"]["o"]):
                        if r.kind.startswith("call:") and r.kind.endswith("::ok"):
                            ct = cb.call_at(r)
                            for r2 in roots(cb, ct["args"][0]):
                                rv.add(r2.kind)
                        else:
                            rv.add(r.kind)
        if "await" not in rv:
            # the flattening may sit in a small private helper / trait method (`handle.await.into_actor()`): with it inlined,
            # follow the returned value through the Option / Result adapters to what it is made from
            import inline
            ivb = inline.body(ctx, fx, co, inline.not_public)
            work, seen_ = [({"k": "move", "p": [0]}, 0)], set()
            while work:
                op_, d_ = work.pop()
                for o_ in ivb.origins(op_, through_calls=False):
                    k_ = (o_.kind, o_.site, o_.proj)
                    if k_ in seen_ or d_ > 10:
                        continue
                    seen_.add(k_)
                    if o_.kind == "call" and (ivb.call_at(o_).get("callee") or "").startswith(("core::result::", "core::option::")) and ivb.call_at(o_)["args"]:
                        work.append((ivb.call_at(o_)["args"][0], d_ + 1))
                    elif o_.kind == "agg" and ivb.blocks[o_.site[0]]["s"][o_.site[1]]["r"].get("variant") in ("Ready", "Some", "Ok") and ivb.blocks[o_.site[0]]["s"][o_.site[1]]["r"].get("ops"):
                        work.append((ivb.blocks[o_.site[0]]["s"][o_.site[1]]["r"]["ops"][0], d_ + 1))
                    else:
                        rv.add(o_.kind)
        ctx.require("await" in rv, RULE, inst + ":returns-joined-value", "the value a join yields must be what the awaited task returned: derives from %s" % sorted(rv), fn=co["def"], site=co["loc"], detail=sorted(rv))


def check_forwarding(ctx, fx, cfg):
    def own(gb, r, depth=0):
        if r.kind in ("arg", "upvar"):
            return True
        # an accessor of the handle itself (`self.as_addr()`): a crate function that hands back (part of) what it is given
        if r.kind.startswith("call:") and depth < 2:
            acc = fx.fn(r.kind[5:])
            if acc is not None and not acc.get("is_async") and acc["kind"] in ("fn", "assoc_fn"):
                ab = ctx.body(fx, acc)
                ars = roots(ab, {"k": "move", "p": [0]})
                if ars and all(x.kind == "arg" for x in ars):
                    ct = gb.blocks[r.site[0]]["t"]
                    return bool(ct.get("args")) and all(own(gb, y, depth + 1) for a_ in ct["args"][:1] for y in roots(gb, a_))
        return False
    # R17.3
    def one_call(fn_name, callee, inst, recv_field=None, RULE="R17.3"):
        f = fx.fn(fn_name)
        if not ctx.require(f is not None, RULE, inst + "@" + cfg, "%s not found" % fn_name):
            return None
        fam = [g for g in graph.family(fx, fn_name) if g["kind"] in ("assoc_fn", "fn", "coroutine")]
        # ... plus synchronous helper methods it calls on its own handle (`self.stop_and_join()`)
        for g in list(fam):
            gb0 = ctx.body(fx, g)
            for _b0, t0 in gb0.normal_calls():
                h0 = fx.callee_fn(t0)
                if h0 is None or h0["def"] == callee or h0["kind"] not in ("fn", "assoc_fn") or h0 in fam:
                    continue
                if h0.get("is_async") and h0.get("vis") == "pub":
                    continue
                if (h0.get("impl_self") or "") == (f.get("impl_self") or "?") and t0["args"] and all(r.kind in ("arg", "upvar") for r in roots(gb0, t0["args"][0])):
                    fam.append(h0)
                    # (a private `async fn try_join(&mut self)` awaited by the entry point: its body is its coroutine)
                    if h0.get("is_async"):
                        fam.extend(c for c in fx.children_of(h0["def"]) if c["kind"] == "coroutine" and c not in fam)
        hits = []
        for g in fam:
            gb = ctx.body(fx, g)
            hits += [(g, gb, t) for _, t in gb.normal_calls() if t.get("callee") == callee]
        if not ctx.require(len(hits) == 1, RULE, inst + "@" + cfg, "%s must call %s exactly once" % (fn_name, callee), fn=fn_name, site=f["loc"]):
            return None
        g, gb, t = hits[0]
        rs = roots(gb, t["args"][0]) if t["args"] else set()

        ctx.require(all(own(gb, r) for r in rs), RULE, inst + ":on-self@" + cfg, "%s acts on something else than its own handle" % fn_name, fn=fn_name, site=t["l"])
        return g, gb, t
    h = one_call("addr::OwningAddr::<A>::join", "actor::spawner::actor_handle::ActorHandle::<A>::join", "join-forwards")
    if h:
        g, gb, t = h
        ctx.require(any(s["k"] == "ret" for s in sinks(gb, t["dest"][0])) or t["dest"] == [0], "R17.3", "join-returns-handle-join@" + cfg, "OwningAddr::join must return the handle's join future", fn=g["def"], site=t["l"])
    ahj = fx.fn("actor::spawner::actor_handle::ActorHandle::<A>::join")
    if ctx.require(ahj is not None, "R17.3", "ActorHandle::join@" + cfg, "ActorHandle::join not found"):
        import inline
        gb = inline.body(ctx, fx, ahj, inline.not_public)  # (`self.join_fn.call()` with `JoinFn(Box<dyn FnMut() -> JoinFuture<A>>)`)
        ind = [t for _, t in gb.normal_calls() if (t.get("callee") or "").endswith(("FnMut::call_mut", "Fn::call", "FnOnce::call_once")) and "[Output=core::pin::Pin<alloc::boxed::Box<dyn core::future::future::Future + [Output=core::option::Option<A>]" in " ".join(t["argtys"])]
        tt_ = task_trait(fx)
        if not ind and tt_ is not None:
            # the handle holds a task object: `self.task.join()` on its boxed field
            ind = [t for _, t in gb.normal_calls() if t.get("trait") == tt_[0] and (t.get("callee") or "").endswith("::join") and all(r.kind == "arg" for r in roots(gb, t["args"][0]))]
        ok = len(ind) == 1 and (ind[0]["dest"] == [0] or any(s["k"] == "ret" for s in sinks(gb, ind[0]["dest"][0])))
        ctx.require(ok, "R17.3", "ActorHandle::join@" + cfg, "ActorHandle::join must invoke its join function and return that future", fn=ahj["def"], site=ahj["loc"])
    one_call("addr::OwningAddr::<A>::consume", "addr::OwningAddr::<A>::join", "consume-joins")
    one_call("addr::OwningAddr::<A>::consume_sync", "addr::OwningAddr::<A>::join", "consume_sync-joins")
    one_call("addr::OwningAddr::<A>::consume", "addr::Addr::<A>::stop", "consume-stops")
    one_call("addr::OwningAddr::<A>::consume_sync", "addr::Addr::<A>::stop", "consume_sync-stops")
    h = one_call("addr::OwningAddr::<A>::detach", "actor::spawner::actor_handle::ActorHandle::<A>::detach", "detach-detaches")
    if h:
        g, gb, t = h
        rs = roots(gb, {"k": "move", "p": [0]})
        ctx.require(all(r.kind == "arg" for r in rs) and rs, "R17.3", "detach-returns-own-addr@" + cfg, "detach must return the owning address's own Addr", fn=g["def"], site=g["loc"])
    # R17.6 "otherwise an OwningAddr behaves as a strong handle": its message operations are those of the address it owns — a
    # submission made through the owner waits, is ordered and is answered exactly as one made through `to_addr()`
    for op in ("send", "call", "ping"):
        if fx.fn("addr::OwningAddr::<A>::" + op) is None:
            continue
        h = one_call("addr::OwningAddr::<A>::" + op, "addr::Addr::<A>::" + op, op + "-is-the-address's", RULE="R17.6")
        if h:
            g, gb, t = h
            # ... and hands back what that operation answered
            ok = t["dest"] == [0] or any(s_["k"] == "ret" for s_ in sinks(gb, t["dest"][0])) or any(o.kind == "await" for o in gb.origins([0]))
            ctx.require(ok, "R17.6", "%s-answer@%s" % (op, cfg), "OwningAddr::%s must hand back what the address's %s answered" % (op, op), fn=g["def"], site=t["l"])
    for nm in ("to_addr", "as_addr"):
        f = fx.fn("addr::OwningAddr::<A>::" + nm)
        if ctx.require(f is not None, "R17.3", nm + "@" + cfg, "OwningAddr::%s not found" % nm):
            gb = ctx.body(fx, f)
            rs = roots(gb, {"k": "move", "p": [0]})
            ctx.require(all(own(gb, r) for r in rs) and rs, "R17.3", nm + "@" + cfg, "%s must expose the owning address's own Addr" % nm, fn=f["def"], site=f["loc"])
