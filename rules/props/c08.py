"""C08 — service registry: one live instance per type, spawned on demand, linearizable."""
import core, nfa, loops, graph, inline
from mir import Body, sinks, agg_sites
from props.c15 import roots

EXPL = ("R08.1 (A4) the REGISTRY static is referenced only by the registry operations of actor::service. R08.2 (A5 lock "
        "scope, all CFG paths): each operation acquires the registry lock exactly once, performs every map operation and "
        "the liveness decision, and — for spawn-on-demand — spawn, detach and insert while that one guard is held; "
        "mutating operations hold a write guard. R08.3 (A1 + polarity): register inserts only when there is no entry or "
        "the entry is stopped, otherwise returns ServiceStillRunning without touching the map; replace / unregister return "
        "what insert / remove returned; try_from_registry and spawn-on-demand hand out a registered address only behind "
        "the `running` filter; the spawned instance that is returned is the one inserted. R08.4 already_running reports "
        "running-polarity. Linearizability as such is not decided: it follows from these scopes plus the trusted "
        "async-lock RwLock.")

REG = "actor::service::REGISTRY"
LIVE = {"addr::Addr::<A>::running": "R", "addr::Addr::<A>::stopped": "S"}


OPS = ("addr::Addr::<A>::register", "addr::Addr::<A>::replace", "addr::Addr::<A>::unregister", "actor::service::Service::already_running",
       "actor::service::Service::try_from_registry", "actor::service::SpawnableService::from_registry_and_spawn")


def refs_registry(f):
    import json
    return '"static": "%s"' % REG in json.dumps(f["pre"])


ACQ_KINDS = ("write", "read", "try_read", "try_write", "upgradable_read", "write_blocking", "read_blocking")
_ACCESSORS = {}


def accessors(fx):
    """crate-local synchronous functions that do nothing but take the registry's lock and hand back the future / guard
    (`mod registry { pub(super) fn write() -> Write<'static, Table> { TABLE.write() } }`): {def: kind}"""
    key = id(fx)
    if key not in _ACCESSORS:
        out = {}
        for f in fx.d["fns"]:
            if f["kind"] not in ("fn", "assoc_fn") or f.get("is_async") or not refs_registry(f):
                continue
            b = Body(f)
            acq = [(bi, t) for bi, t in b.normal_calls() if _is_lock_call(t)]
            if len(acq) != 1:
                continue
            os_ = b.origins([0])
            if os_ and all(o.kind == "call" and o.site == (acq[0][0],) and not o.proj for o in os_):
                out[f["def"]] = acq[0][1]["callee"].split("::")[-1]
        _ACCESSORS[key] = out
    return _ACCESSORS[key]


def _is_lock_call(t):
    c = t.get("callee") or ""
    return c.startswith("async_lock::rwlock::") and c.endswith(tuple("::" + k for k in ACQ_KINDS))


def is_acquire(t):
    if _is_lock_call(t):
        return True
    fx = _FX[0]
    return fx is not None and (t.get("resolved") or t.get("callee")) in accessors(fx)


def acquire_kind(t):
    if _is_lock_call(t):
        return (t.get("callee") or "").split("::")[-1]
    fx = _FX[0]
    return accessors(fx).get(t.get("resolved") or t.get("callee")) if fx is not None else None


def is_mapop(t):
    c = t.get("callee") or ""
    return c.startswith("std::collections::hash::map::") and c.endswith(("::get", "::get_mut", "::insert", "::remove", "::entry", "::contains_key", "::remove_entry", "::get_or_insert_with", "::clear", "::retain"))


def is_entry_obj_op(t):
    """an operation on an entry object of the table (`registry.entry(key)` matched into Vacant / Occupied): the key was
    given to `entry`, these act on that slot"""
    st_ = t.get("self_ty") or ""
    return is_mapop(t) and ("hash::map::VacantEntry<" in st_ or "hash::map::OccupiedEntry<" in st_)


def live_fn_arg(t):
    for a in t["args"]:
        if a.get("k") == "const" and a.get("fn") in LIVE:
            return a["fn"]
    if t.get("callee") in LIVE:
        return t["callee"]
    return None


_FX = [None]  # facts of the configuration being checked (set by check_cfg): closure bodies for the polarity below
_POL = {}


def closure_polarity(name, depth=0):
    """'dead' / 'live' when the bool a crate-local closure / function returns is (the negation of) a liveness query of an
    entry: `|e| !e.downcast_ref::<Addr<A>>().is_some_and(Addr::stopped)` is 'live'"""
    fx = _FX[0]
    key = (id(fx), name)
    if key in _POL:
        return _POL[key]
    _POL[key] = None
    f = fx.fn(name) if fx is not None else None
    if f is None or depth > 2:
        return None
    b = Body(f)
    neg = False
    cur = b.origins([0])
    for _ in range(3):
        ops = [x for x in cur if x.kind == "op"]
        if len(ops) == 1 and len(cur) == 1:
            st = b.blocks[ops[0].site[0]]["s"][ops[0].site[1]]
            if st["r"]["k"] == "un" and st["r"]["op"] == "Not":
                neg = not neg
                cur = b.origins(st["r"]["o"])
                continue
        break
    pols = set()
    for x in cur:
        pols.add(call_liveness(b.call_at(x), depth + 1) if x.kind == "call" else None)
    if len(pols) == 1 and None not in pols:
        p = next(iter(pols))
        _POL[key] = ({"dead": "live", "live": "dead"}[p]) if neg else p
    return _POL[key]


def call_liveness(t, depth=0):
    """'dead' / 'live' if the bool result of this call tells whether a registered entry has terminated / is running"""
    if t.get("destty") != "bool":
        return None
    fn_ = live_fn_arg(t)
    if fn_ is not None:
        return "dead" if fn_ == "addr::Addr::<A>::stopped" else "live"
    if (t.get("callee") or "").endswith(("::is_some_and", "::is_ok_and")):
        for a in t.get("argtys", [])[1:]:
            if a.startswith("{closure:") and a.endswith("}"):
                return closure_polarity(a[len("{closure:"):-1], depth)
    return None


class LockScope(nfa.Spec):
    def __init__(self, mutating, spawns):
        self.mutating = mutating
        self.spawns = spawns
        self.init = ("free", False)  # (lock phase, write?)

    def step(self, st, label):
        ev = label.split("@")[0]
        src = label.split("@")[1] if "@" in label else ""
        ph, wr = st
        if ev in ("unwind", "cancel") or ev.startswith("pend:"):
            return st
        # a try-acquire that came back empty-handed holds nothing (`match R.try_write() { Some(g) => g, None => R.write().await }`)
        if ev == "sw:Option::None" and src.startswith("acq_try_") and ph == "held":
            return ("free", False)
        if ev.startswith("call:acq_"):
            if ph != "free":
                return nfa.Err("R08.2: the registry lock is acquired a second time (check-then-act split over two critical sections, or self-deadlock)")
            kind = ev[len("call:acq_"):]
            w = kind in ("write", "try_write", "write_blocking")
            if kind.startswith("try_"):
                return ("held", w)
            return ("acquiring", w)
        if ev.startswith("done:acq_"):
            return ("held", wr) if ph == "acquiring" else st
        if ev == "drop:guard" or ev == "call:memdrop_guard":
            if ph == "held":
                return ("released", wr)
            return st
        if ev in ("call:mapinsert", "call:mapremove"):
            ev = "call:mapwrite"
        if ev in ("call:mapread", "call:mapwrite", "call:live", "call:spawn", "call:detach"):
            if ev in ("call:spawn", "call:detach") and not self.spawns:
                return st
            if ph != "held":
                return nfa.Err("R08.2: %s while the registry lock is not held (phase %s)" % (ev[5:], ph))
            if ev == "call:mapwrite" and not wr:
                return nfa.Err("R08.2: the registry is modified under a read guard")
            return st
        if ev == "ret":
            if ph in ("acquiring",):
                return nfa.Err("R08.2: returns while acquiring")
        return st


class _HandOutOnlyLive(nfa.Spec):
    """Some(..) is returned only on paths on which the entry's liveness query said `running`"""
    init = ("unknown",)

    def step(self, st, label):
        ev = label.split("@")[0]
        if ev in ("bool:live=1", "bool:dead=0"):
            return ("live",)
        if ev in ("bool:live=0", "bool:dead=1"):
            return ("dead",)
        if ev == "retval:Some" and st[0] != "live":
            return nfa.Err("R08.3: an address is handed out on a path on which the entry was not found running (%s)" % st[0])
        return st


class _TryThenWait(nfa.Spec):
    """an operation that tried to take the registry without waiting and failed goes on to wait for it; it does not return"""
    init = ("s0",)

    def step(self, st, label):
        ev = label.split("@")[0]
        src = label.split("@")[1] if "@" in label else ""
        ph = st[0]
        if ev in ("call:acq_try_read", "call:acq_try_write"):
            return ("tried",)
        if ev == "sw:Option::Some" and src.startswith("acq_try_") and ph == "tried":
            return ("have",)
        if ev == "sw:Option::None" and src.startswith("acq_try_") and ph == "tried":
            return ("missed",)
        if ev.startswith("call:acq_") and not ev.startswith("call:acq_try_") and ph in ("tried", "missed"):
            return ("have",)
        if ev == "retval:residual" and ph == "tried":
            return nfa.Err("R08.8: `?` on a try-acquire: the operation answers None / fails because the lock was busy")
        if (ev == "ret" or ev.startswith("retval:")) and ph == "missed":
            return nfa.Err("R08.8: the operation answers on the path on which its try-acquire failed")
        return st


class RegisterSpec(nfa.Spec):
    """insert only when no entry / entry stopped; otherwise Err without insert"""
    init = ("s0",)

    def step(self, st, label):
        ev = label.split("@")[0]
        ph = st[0]
        if "@" in label and label.split("@")[1].startswith("acq_"):
            return st  # the outcome of a try-acquire says nothing about the table
        if ev in ("sw:Option::None", "sw:Entry::Vacant") and ph == "s0":
            return ("absent",)
        if ev in ("sw:Option::Some", "sw:Entry::Occupied") and ph == "s0":
            return ("present",)
        # `contains_key(key)` first, the liveness of the entry second
        if ev == "bool:has=1" and ph == "s0":
            return ("present",)
        if ev == "bool:has=0" and ph == "s0":
            return ("absent",)
        # one combined test `get(key).is_some_and(|e| <live>)`: true = a live entry, false = none or a terminated one
        if ev == "bool:live=1" and ph == "s0":
            return ("alive",)
        if ev == "bool:live=0" and ph == "s0":
            return ("dead",)
        if ev == "bool:dead=1" and ph == "s0":
            return ("dead",)
        if ev == "bool:dead=0" and ph == "s0":
            return ("present",)
        if ev in ("bool:dead=1", "bool:live=0") and ph == "present":
            return ("dead",)
        if ev in ("bool:dead=0", "bool:live=1") and ph == "present":
            return ("alive",)
        if ev == "call:mapremove":
            if ph in ("alive", "present"):
                return nfa.Err("R08.3: register changes the registry although a live instance may be registered")
            return st
        if ev == "call:mapinsert":
            if ph == "alive":
                return nfa.Err("R08.3: register overwrites a live service")
            if ph == "present":
                return nfa.Err("R08.3: register inserts over an existing entry without checking that it is stopped")
            if ph == "inserted":
                return nfa.Err("R08.3: register inserts twice")
            return ("inserted",)
        if ev in ("retval:Err", "retval:residual"):  # `?` hands on the failure the critical section decided on
            if ph != "alive":
                return nfa.Err("R08.3: register fails although no live instance is registered (phase %s)" % ph)
            return ("errret",)
        if ev == "retval:Ok":
            if ph != "inserted":
                return nfa.Err("R08.3: register reports success without having registered (phase %s)" % ph)
            return ("okret",)
        if ev == "ret" and ph not in ("okret", "errret"):
            return nfa.Err("R08.3: register returns in phase %s" % ph)
        return st


def registry_alphabet(fx=None):
    launchers = loops.launch_helpers(fx) if fx is not None else {}

    def acq(kind):
        return lambda t: is_acquire(t) and acquire_kind(t) == kind
    calls = [("acq_" + k, acq(k)) for k in ("write", "read", "try_read", "try_write", "upgradable_read", "write_blocking", "read_blocking")]
    calls += [
        # (`entry(key)` alone changes nothing: what is done with the entry does — `or_insert*`, or `insert` on the matched slot)
        ("mapinsert", lambda t: (is_mapop(t) and (t.get("callee") or "").endswith(("::insert", "::get_or_insert_with"))) or ((t.get("callee") or "").startswith("std::collections::hash::map::") and (t.get("callee") or "").endswith(("::or_insert", "::or_insert_with", "::or_insert_with_key", "::or_default", "::insert_entry")))),
        ("mapremove", lambda t: is_mapop(t) and (t.get("callee") or "").endswith(("::remove", "::remove_entry", "::clear", "::retain"))),
        ("has", lambda t: is_mapop(t) and (t.get("callee") or "").endswith("::contains_key")),
        ("mapread", lambda t: is_mapop(t)),
        ("dead", lambda t: call_liveness(t) == "dead"),
        ("live", lambda t: live_fn_arg(t) is not None or call_liveness(t) == "live"),
        # spawn_actor itself, or a shared helper that creates the loop for the given actor, spawns it and returns (addr, handle)
        ("spawn", lambda t: nfa.trait_method("actor::spawner::Spawner", "spawn_actor")(t) or (t.get("resolved") or t.get("callee")) in launchers or t.get("callee") in launchers),
        ("detach", nfa.callee_is("actor::spawner::actor_handle::ActorHandle::<A>::detach")),
        ("memdrop_guard", lambda t: (t.get("callee") == "core::mem::drop") and "async_lock::rwlock::RwLock" in " ".join(t.get("argtys", []))),
    ]
    a = nfa.Alphabet(calls=calls, adts={"core::option::Option": "Option", "core::result::Result": "Res", "std::collections::hash::map::Entry": "Entry"}, bools={"dead", "live", "has"}, retval=True)
    a.drop_types = [("async_lock::rwlock::RwLockWriteGuard<", "guard"), ("async_lock::rwlock::RwLockReadGuard<", "guard"), ("async_lock::rwlock::RwLockUpgradableReadGuard<", "guard")]
    return a


def chain(b, operand, depth=0):
    """callees along the first-argument chain that produced a value (combinator pipelines)"""
    return _chain_from(b, b.origins(operand, through_calls=False), depth)


def _chain_from(b, origs, depth):
    out = []
    for o in origs:
        if o.kind == "call" and depth < 16:
            t = b.call_at(o)
            out.append(t)
            if t["args"]:
                fields = [e for e in o.proj if isinstance(e, str) and e.startswith("f") and e[1:].isdigit()]
                if (t.get("callee") or "").endswith("Try::branch") and fields[:1] == ["f0"] and t["args"][0].get("k") in ("move", "copy"):
                    # `x?`: the payload of Continue is the payload of the Ok / Some that was tested (visible when the
                    # tested value is a literal `Ok(v)` of an inlined helper or closure)
                    out.extend(_chain_from(b, b.origins_operand(t["args"][0], ("f0",), False, set()), depth + 1))
                else:
                    out.extend(chain(b, t["args"][0], depth + 1))
    return out


def run(ctx):
    ctx.explanation = EXPL
    ctx.assumptions = ["async_lock::RwLock provides mutual exclusion for writers and excludes writers while readers hold it", "TypeId::of::<A>() identifies the service type"]
    cfgs = ["tokio"] if ctx.tier == "quick" else ["tokio", "smol", "asyncstd", "bare"]
    for cfg in cfgs:
        fx = ctx.facts(cfg) if cfg == "tokio" else ctx.try_facts(cfg)
        if fx is None:
            continue
        check_cfg(ctx, fx, cfg)
    return core.finish(ctx)


def check_cfg(ctx, fx, cfg):
    _FX[0] = fx
    acc = accessors(fx)
    # the registry operations: whoever refers to the static, or takes its lock through an accessor function
    users = [f for f in fx.d["fns"] if (refs_registry(f) and f["def"] not in acc) or any((t.get("resolved") or t.get("callee")) in acc for _, t in ctx.body(fx, f).normal_calls())]
    # an operation may reach the table only through a private helper that takes the lock and runs the closure it is given
    # under it (`with_registry_mut(|table| ..).await`): its value rules are judged on the body with such helpers (and the
    # closure) inlined, its event rules on the automaton with the same helpers spliced
    inl_users = {}
    plain_roots = {f.get("root", f["def"]) for f in users}
    for f in fx.d["fns"]:
        if f.get("root", f["def"]) in plain_roots or f["kind"] == "closure":
            continue
        rec = inline.inlined(fx, f, inline.not_public)
        if rec["inlined_from"] and refs_registry(rec):
            inl_users[f["def"]] = rec
    # the outermost body of each such operation only (its closures are part of the inlined body)
    for d_ in sorted(inl_users):
        f = fx.fn(d_)
        if not any(d_ != e_ and e_ in inl_users and (d_.startswith(e_ + "::")) for e_ in inl_users) or f["kind"] == "coroutine" and fx.fn(f.get("parent") or "") is not None and (fx.fn(f["parent"]) or {}).get("is_async") and f["parent"] in inl_users:
            users.append(f)
    users = [f for i, f in enumerate(users) if f["def"] not in {g["def"] for g in users[:i]}]
    # an async fn and its coroutine: the coroutine is the body
    users = [f for f in users if not (f["def"] in inl_users and f.get("is_async") and any(g.get("parent") == f["def"] and g["def"] in inl_users for g in users))]
    roots_ = sorted({f.get("root", f["def"]) for f in users})
    ctx.floor("R08.1", "registry operations (%s)" % cfg, len(roots_), 1 if cfg == "bare" else 3)
    for r in roots_:
        # the registry operations: methods of the Service traits and the service methods of Addr (whichever module the
        # impl block is written in); every one of them is judged by R08.2 / R08.3 below
        rf = fx.fn(r) or {}
        is_op = r.startswith(("actor::service::", "addr::Addr::<A>::")) and rf.get("kind") in ("fn", "assoc_fn")
        ctx.require(is_op, "R08.1", "registry-user:%s@%s" % (r, cfg), "the service registry is accessed outside the registry operations", fn=r, site=rf.get("loc"))
    if cfg != "bare":
        check_forwarders(ctx, fx, cfg, None)
    # R08.7 "register fails exactly when a live instance is registered" is decided in one place, under the lock: the
    # ServiceStillRunning error is constructed only by registry operations, and every other caller of Addr::register
    # (the builder's register) is a plain forwarder that reaches it on every path
    from mir import agg_sites
    made = []
    for f in fx.d["fns"]:
        fb = ctx.body(fx, f)
        for _bi, _si, st in agg_sites(fb, adt="error::ActorError", variant="ServiceStillRunning"):
            made.append((f.get("root", f["def"]), f["def"], st.get("l")))
    if cfg != "bare":
        ctx.floor("R08.7", "constructions of ServiceStillRunning (%s)" % cfg, len(made), 1)
    # (a crate-private helper used by nothing but registry operations — `register_in(&self, table)`, handed the locked
    # table — is part of them)
    op_helpers = graph.private_helpers(fx, set(roots_))
    for root, fn_, loc in made:
        ctx.require(root in roots_ or root in op_helpers, "R08.7", "still-running-decided-under-lock:%s@%s" % (fn_, cfg), "ServiceStillRunning is reported outside the registry's critical section (an unlocked check-then-act: the answer can be stale, and a terminated entry is not replaced)", fn=fn_, site=loc)
    REG = "addr::Addr::<A>::register"
    from props.c04 import check_forward_always
    n_fw = 0
    for g in fx.d["fns"]:
        if g.get("root", g["def"]) in roots_:
            continue
        gb = ctx.body(fx, g)
        if any(t.get("callee") == REG for _, t in gb.normal_calls()):
            n_fw += 1
            check_forward_always(ctx, fx, "R08.7", "register-forwarder:%s@%s" % (g["def"], cfg), g, lambda x: x.get("callee") == REG)
    if cfg != "bare":
        ctx.floor("R08.7", "forwarders to Addr::register (%s)" % cfg, n_fw, 1)
    # R08.6 the liveness the registry decides on is truthful for every termination cause (shared with C14)
    from props import c14
    c14.check_queries(ctx, fx, "R08.6", "@" + cfg)
    A = registry_alphabet(fx)
    judged = set()
    for f in users:
        # value rules see the operation with its crate-private helpers inlined (the typed wrapper methods of the table, the
        # lock helper and its closure, lookup helpers): what they do to the map is judged in the operation's own terms
        b = inline.body(ctx, fx, f, inline.not_public) if (f["def"] in inl_users or inline.inlined(fx, f, inline.not_public)["inlined_from"]) else ctx.body(fx, f)
        root = f.get("root", f["def"])
        short = root.split("::")[-1]
        if root not in OPS and (fx.fn(root) or {}).get("vis") != "pub":
            # a private function that one of the operations merely forwards to (`fn from_registry_and_spawn() -> impl Future
            # { get_or_spawn::<Self, S>() }`) is that operation's body
            fw = sorted({g.get("root", g["def"]) for g, _bi, _t in graph.all_calls(fx, lambda x, r_=root: (x.get("resolved") or x.get("callee")) == r_ or x.get("callee") == r_)} & (set(OPS) - set(roots_)))
            if fw:
                short = fw[-1].split("::")[-1]
        inst = "%s@%s" % (short, cfg)
        n = nfa.build(ctx.body(fx, f), A, fx, depth=2)  # helpers that are lent the locked table run inside the critical section
        # a second view of the same code: the automaton of the body with the private helpers inlined (what a helper that was lent the
        # lock itself answers — `self.register_in(&REGISTRY).await` — is then the operation's own answer). Both views contain every
        # path of the operation; a monitor that accepts either of them accepts the operation
        n_inl = [None]

        def inl_view():
            if n_inl[0] is None:
                n_inl[0] = nfa.build(inline.body(ctx, fx, f, inline.not_public), A, fx, depth=2)
            return n_inl[0]
        writes = len(nfa.edges_labelled(n, "call:mapinsert")) + len(nfa.edges_labelled(n, "call:mapremove")) > 0
        spawns = len(nfa.edges_labelled(n, "call:spawn")) > 0
        viols, ps = nfa.check(n, LockScope(writes, spawns))
        ctx.count_nfa(n.stats(), ps)
        for v in viols:
            ctx.viol("R08.2", inst, v["msg"], fn=f["def"], site=f["loc"], trace=v["trace"])
        acqs = [t for _, t in b.normal_calls() if is_acquire(t)]
        if not viols:
            # (a try-acquire in front of the waiting one is one acquisition on every path: the monitor above has checked that)
            waiting = [t for t in acqs if not (acquire_kind(t) or "").startswith("try_")]
            ctx.require(len(acqs) == 1 or (len(waiting) == 1 and len(acqs) == 2), "R08.2", inst, "expected exactly one lock acquisition site, found %d" % len(acqs), fn=f["def"], site=f["loc"], detail={"acquire": [t["callee"].split("::")[-1] for t in acqs], "map_ops": [t["callee"].split("::")[-1] for _, t in b.normal_calls() if is_mapop(t)]})
        for t in acqs:
            # it is the REGISTRY that is locked
            rs = b.origins(t["args"][0]) if t["args"] else set()
            on_reg = (t.get("resolved") or t.get("callee")) in acc  # an accessor is, by construction, on the registry
            for o in rs:
                if o.kind == "call":
                    ct = b.call_at(o)
                    on_reg = on_reg or any(a.get("static") == REG for a in ct["args"])
                if o.kind == "const":
                    on_reg = True
            ctx.require(on_reg, "R08.2", inst + ":locks-registry", "the lock taken is not the registry's", fn=f["def"], site=t["l"])
        # every map operation acts on the guarded map, with the key TypeId::of::<Self/A>
        for _, t in b.normal_calls():
            if is_mapop(t):
                rs = roots(b, t["args"][0])
                # (`REGISTRY.try_read().map(RegistryView)`: the constructor of a crate-local newtype used as a function value
                # wraps the guard, it is not a source of the table)
                rs = {r for r in rs if not (r.kind == "const" and r.site in fx.adts)}
                if is_entry_obj_op(t):
                    # the slot came from `<guarded map>.entry(key)`: judged by where that map came from
                    rs2 = set()
                    for r_ in rs:
                        if r_.kind.startswith("call:std::collections::hash::map::") and r_.kind.endswith("::entry"):
                            rs2 |= roots(b, b.blocks[r_.site[0]]["t"]["args"][0])
                        else:
                            rs2.add(r_)
                    rs = rs2
                ok = all(r.kind in ("await", "call:" + a_["callee"]) or r.kind.startswith("call:async_lock") for r in rs for a_ in acqs) if acqs else False
                ok = ok or all(r.kind == "await" or r.kind.startswith("call:async_lock::rwlock") for r in rs)
                ctx.require(ok, "R08.2", inst + ":map-under-guard:" + t["callee"].split("::")[-1], "a map operation does not go through the guard: %s" % sorted(map(str, rs)), fn=f["def"], site=t["l"])
                if len(t["args"]) > 1 and not is_entry_obj_op(t):
                    kr = b.origins(t["args"][1])
                    def is_key(ct_):
                        if (ct_.get("callee") or "").endswith("::of") and (ct_.get("gargs") or [None])[0] in ("A", "Self"):
                            return True
                        # a crate-local function that is `TypeId::of::<T>()` for its own type parameter (`registry::key_of::<A>()`)
                        h_ = fx.callee_fn(ct_)
                        if h_ is None or h_.get("is_async") or (ct_.get("gargs") or [None])[0] not in ("A", "Self"):
                            return False
                        hb_ = ctx.body(fx, h_)
                        ho_ = hb_.origins([0])
                        gen_ = h_.get("generics") or []
                        return bool(ho_) and all(x.kind == "call" and (hb_.call_at(x).get("callee") or "").endswith("::of") and (hb_.call_at(x).get("gargs") or [None])[0] == (gen_[0] if gen_ else None) for x in ho_)
                    def key_origin_ok(body_, fn_, o, depth=0):
                        if o.kind == "call":
                            return is_key(body_.call_at(o))
                        if o.kind == "upvar" and depth < 3:
                            # computed before the async block / closure and moved in (`let key = TypeId::of::<Self>(); async move { .. }`),
                            # possibly as a field of a small struct (`service.key` with `service = ServiceId::of::<Self>()`)
                            cap = graph.capture_operand(fx, fn_, o.site)
                            if cap is not None:
                                pf, pop = cap
                                pb_ = inline.body(ctx, fx, pf, inline.not_public)
                                flds = [e for e in o.proj if e != "*" and not str(e).startswith("<part:")]
                                if flds and pop.get("k") in ("move", "copy"):
                                    pop = dict(pop, p=list(pop["p"]) + flds)
                                elif flds:
                                    return False
                                pos = pb_.origins(pop)
                                return bool(pos) and all(key_origin_ok(pb_, pf, x, depth + 1) for x in pos)
                        return False
                    kok = bool(kr) and all(key_origin_ok(b, f, o) for o in kr)
                    ctx.require(kok, "R08.2", inst + ":key:" + t["callee"].split("::")[-1], "the registry key is not TypeId::of the service type", fn=f["def"], site=t["l"])
        judged.add(short)
        # R08.8 what an operation answers comes from the table, not from the state of the lock: only the operation whose contract
        # is "try" (`try_from_registry`, which may answer None for any reason) acquires the registry without waiting — for every
        # other one a `try_read()?` / `try_write()` turns "somebody else is using the registry" into "not registered" / a failure
        tries = [(t.get("callee"), t["l"]) for _, t in b.normal_calls() if is_acquire(t) and (acquire_kind(t) or "").startswith("try_")]
        gives_up = False
        if tries and short != "try_from_registry":
            # a try-acquire as a fast path in front of the waiting one is fine (`match R.try_write() { Some(g) => g, None => R.write().await }`):
            # what must not happen is that the operation *answers* on the path on which the try failed
            tv, tps = nfa.check(n, _TryThenWait())
            ctx.count_nfa({}, tps)
            gives_up = bool(tv)
        ctx.require(not gives_up, "R08.8", inst + ":waits-for-the-registry",
                    "%s gives up when the registry lock is contended (%s): its answer then reflects the lock, not the table" % (short, [c for c, _ in tries]), fn=f["def"], site=tries[0][1] if tries else f["loc"])
        if short == "register":
            viols, ps = nfa.check(n, RegisterSpec())
            ctx.count_nfa({}, ps)
            if viols:
                v2_, ps2_ = nfa.check(inl_view(), RegisterSpec())
                ctx.count_nfa({}, ps2_)
                if not v2_:
                    viols = []
            for v in viols:
                ctx.viol("R08.3", inst, v["msg"], fn=f["def"], site=f["loc"], trace=v["trace"])
            if not viols:
                ctx.ok("R08.3", inst, f["loc"], {"words": [" ".join(w) for w in nfa.words(n, limit=3)]})
            check_returns_map_result(ctx, fx, f, b, inst, "insert", tuple_field=1)
            # what is inserted is (a clone of) the address being registered
            for _, t in b.normal_calls():
                if is_mapop(t) and t["callee"].endswith("::insert"):
                    vr = roots(b, t["args"][-1])  # (key, value) on the map, (value) on a matched entry
                    ctx.require(all(r.kind == "upvar" for r in vr), "R08.3", inst + ":inserts-self", "register must insert the address it was called on", fn=f["def"], site=t["l"])
        elif short == "replace":
            check_returns_map_result(ctx, fx, f, b, inst, "insert")
        elif short == "unregister":
            check_returns_map_result(ctx, fx, f, b, inst, "remove")
        elif short == "try_from_registry":
            ch = chain(b, {"k": "move", "p": [0]})
            names = [t["callee"].split("::")[-1] for t in ch]
            filt = [t for t in ch if t["callee"].endswith("::filter")]
            has_get = "get" in names
            for ct_ in ch:
                h_ = fx.callee_fn(ct_)
                if not has_get and h_ is not None and not h_.get("is_async"):
                    # the map lookup may be a small helper that is lent the locked table (`registered::<Self>(&registry)`)
                    hnames = [x["callee"].split("::")[-1] for x in chain(ctx.body(fx, h_), {"k": "move", "p": [0]})]
                    has_get = "get" in hnames or "get_mut" in hnames
            ok = has_get and len(filt) == 1 and filter_is_running(ctx, fx, b, filt[0])
            if not ok and not filt:
                # explicit form: `let addr = registry.get(&key)?.downcast_ref()?; addr.running().then(|| addr.clone())`
                thens = [x for x in ch if (x.get("callee") or "").endswith(("bool::{impl#0}::then", "bool::{impl#0}::then_some", "::then", "::then_some")) and (x.get("argtys") or [""])[0] == "bool"]
                gets = [x for _, x in b.normal_calls() if is_mapop(x) and x["callee"].endswith(("::get", "::get_mut"))]
                if len(thens) == 1 and gets:
                    cond = b.origins(thens[0]["args"][0], through_calls=False)
                    ok = bool(cond) and all(o.kind == "call" and call_liveness(b.call_at(o)) == "live" for o in cond)
                    names = names + ["(live).then"]
            if not ok:
                # any other spelling of the same pipeline, seen with private helpers (`peek(&registry, |a| ..)`) inlined
                ib = inline.body(ctx, fx, f, inline.not_public)
                gets = [x for _, x in ib.normal_calls() if is_mapop(x) and x["callee"].endswith(("::get", "::get_mut"))]
                ok = bool(gets) and yields_only_live(ctx, fx, ib, ib.origins([0], through_calls=False))
                if ok:
                    names = names + ["(live-only pipeline)"]
            if not ok:
                # spelled as control flow: `if addr.running() { Some(addr.clone()) } else { None }` — on every path that returns
                # Some(..) the entry's running() was found true
                somes = nfa.edges_labelled(n, "retval:Some")
                gets = [x for _, x in b.normal_calls() if is_mapop(x) and x["callee"].endswith(("::get", "::get_mut"))]
                if somes and gets:
                    hv, hps = nfa.check(n, _HandOutOnlyLive())
                    ctx.count_nfa({}, hps)
                    ok = not hv
                    if ok:
                        names = names + ["(Some only on the running() == true path)"]
            ctx.require(ok, "R08.3", inst, "try_from_registry must hand out the registered address only behind the `running` filter: pipeline %s" % names, fn=f["def"], site=f["loc"], detail=names)
        elif short == "already_running":
            lives = []
            for g in graph.family(fx, root):
                gb = ctx.body(fx, g)
                for _, t in gb.normal_calls():
                    lf = live_fn_arg(t)
                    if lf:
                        lives.append((lf, t["callee"].split("::")[-1]))
            nots = any(st["r"].get("op") == "Not" for g in graph.family(fx, root) for blk in g["pre"]["blocks"] for st in blk["s"] if st["k"] == "assign" and st["r"]["k"] == "un")
            ok = len(lives) == 1 and ((lives[0][0] == "addr::Addr::<A>::running" and not nots) or (lives[0][0] == "addr::Addr::<A>::stopped" and nots))
            ctx.require(ok, "R08.4", inst, "already_running must report Some(true) for a live and Some(false) for a terminated instance: it maps the entry through %s%s" % (lives, " with a negation" if nots else ""), fn=root, site=f["loc"], detail=lives)
        elif short == "from_registry_and_spawn":
            check_spawn_on_demand(ctx, fx, f, b, n, inst)
    # fail closed: every registry operation the crate defines was found to use the registry and was judged above (an
    # operation that reaches the table through a construct this analysis does not see through must not pass silently)
    for op_ in OPS:
        if fx.fn(op_) is not None:
            ctx.require(op_.split("::")[-1] in judged, "R08.1", "operation-analysed:%s@%s" % (op_.split("::")[-1], cfg), "the registry operation %s was not found to use the registry: it cannot be judged" % op_, fn=op_, site=fx.fn(op_)["loc"])


def check_forwarders(ctx, fx, cfg, spawn_op):
    """R08.5 Service::from_registry and ::setup are the spawn-on-demand operation (and nothing else)"""
    for name in ("actor::service::Service::from_registry", "actor::service::Service::setup"):
        f = fx.fn(name)
        if not ctx.require(f is not None, "R08.5", "%s@%s" % (name.split("::")[-1], cfg), "%s not found" % name):
            continue
        b = ctx.body(fx, f)
        calls = [t for _, t in b.normal_calls() if (t.get("callee") or "").endswith("::from_registry_and_spawn")]
        ok = len(calls) == 1
        if ok:
            sk = sinks(b, calls[0]["dest"][0])
            ok = calls[0]["dest"] == [0] or any(s["k"] == "ret" for s in sk) or any(s["k"] == "call" and (s["t"].get("callee") or "").endswith("FutureExt::map") for s in sk)
        ctx.require(ok, "R08.5", "%s@%s" % (name.split("::")[-1], cfg), "%s must be the spawn-on-demand lookup" % name, fn=name, site=f["loc"])


def filter_is_running(ctx, fx, b, t):
    a = t["args"][1]
    if a.get("k") == "const" and a.get("fn") == "addr::Addr::<A>::running":
        return True
    # a closure |addr| addr.running()
    for o in b.origins(a):
        if o.kind == "agg":
            st = b.blocks[o.site[0]]["s"][o.site[1]]
            c = fx.fn(st["r"].get("def"))
            if c:
                cb = ctx.body(fx, c)
                calls = [x for _, x in cb.normal_calls()]
                if len(calls) == 1 and calls[0].get("callee") == "addr::Addr::<A>::running" and any(s["k"] == "ret" for s in sinks(cb, calls[0]["dest"][0])):
                    return True
    return False


def _closure_of(ctx, fx, b, operand):
    """the crate-local closure / function a callable operand denotes (literal or fn item), or None"""
    if operand.get("k") == "const" and operand.get("fn") in fx.fns:
        return fx.fns[operand["fn"]]
    for o in b.origins(operand):
        if o.kind == "agg" and not o.proj:
            st = b.blocks[o.site[0]]["s"][o.site[1]]
            c = fx.fn(st["r"].get("def") or "")
            if c is not None and st["r"].get("ak") == "closure":
                return c
    return None


def yields_only_live(ctx, fx, b, origs, depth=0):
    """is this Option<address> `Some` only for an entry whose `running()` was just found true?  A small expression grammar
    over the combinator pipeline (looking into the closures it is given):
        filter(X, running) | cloned / copied / map(clone-like) / inspect (Y live-only) | and_then(X, C) , map(X, C).flatten()
        with C's result live-only | cond.then(..) / then_some(..) with cond = running() of the entry"""
    if depth > 6 or not origs:
        return False
    for o in origs:
        if o.kind == "agg" and not o.proj and b.blocks[o.site[0]]["s"][o.site[1]]["r"].get("variant") == "None":
            continue  # hands out nothing
        if o.kind != "call" or o.proj:
            return False
        t = b.call_at(o)
        c = t.get("callee") or ""
        nm = c.split("::")[-1]
        if c.endswith("FromResidual::from_residual"):
            continue  # the `?` exit: None
        if nm == "filter" and len(t["args"]) == 2 and filter_is_running(ctx, fx, b, t):
            continue
        if nm in ("then", "then_some") and (t.get("argtys") or [""])[0] == "bool":
            cond = b.origins(t["args"][0], through_calls=False)
            if cond and all(x.kind == "call" and call_liveness(b.call_at(x)) == "live" for x in cond):
                continue
            return False
        if nm in ("cloned", "copied", "inspect", "flatten") and t["args"]:
            if nm == "flatten":
                # map(X, C).flatten(): C's own result must be live-only
                inner = b.origins(t["args"][0], through_calls=False)
                okf = bool(inner)
                for x in inner:
                    ti = b.call_at(x) if x.kind == "call" else None
                    if ti is None or not (ti.get("callee") or "").endswith("::map") or len(ti["args"]) != 2:
                        okf = False
                        break
                    cl = _closure_of(ctx, fx, b, ti["args"][1])
                    if cl is None:
                        okf = False
                        break
                    cb = ctx.body(fx, cl)
                    if not yields_only_live(ctx, fx, cb, cb.origins([0], through_calls=False), depth + 1):
                        okf = False
                        break
                if okf:
                    continue
                return False
            if yields_only_live(ctx, fx, b, b.origins(t["args"][0], through_calls=False), depth + 1):
                continue
            return False
        if nm == "map" and len(t["args"]) == 2:
            a = t["args"][1]
            clone_like = a.get("k") == "const" and (a.get("fn") or "").endswith(("::clone", "::to_owned"))
            if clone_like and yields_only_live(ctx, fx, b, b.origins(t["args"][0], through_calls=False), depth + 1):
                continue
            return False
        if nm == "and_then" and len(t["args"]) == 2:
            cl = _closure_of(ctx, fx, b, t["args"][1])
            if cl is not None:
                cb = ctx.body(fx, cl)
                if yields_only_live(ctx, fx, cb, cb.origins([0], through_calls=False), depth + 1):
                    continue
            return False
        return False
    return True


def _is_op_or_wrapper(ctx, fx, x, op, depth=0):
    """the map operation itself, or a crate-local synchronous method that hands back what the map operation returned
    (`Registry::insert(&mut self, addr) -> Option<Addr<A>> { self.0.insert(..).and_then(Self::unbox) }`)"""
    if is_mapop(x) and x["callee"].endswith("::" + op):
        return True
    h = fx.callee_fn(x)
    if h is None or h.get("is_async") or depth > 1:
        return False
    hb = ctx.body(fx, h)
    ch = chain(hb, {"k": "move", "p": [0]})
    return any(_is_op_or_wrapper(ctx, fx, y, op, depth + 1) for y in ch)


def check_returns_map_result(ctx, fx, f, b, inst, op, tuple_field=None):
    """the returned previous entry is what the map operation returned"""
    good = False
    cands = []
    rets = b.return_aliases()  # (the return place, and — with a helper inlined — the local its answer is handed back through)
    for bi, blk in enumerate(b.blocks):
        for st in blk["s"]:
            if st["k"] == "assign" and len(st["p"]) == 1 and st["p"][0] in rets:
                r = st["r"]
                if r["k"] == "agg" and r.get("variant") == "Ok":
                    # Ok((self, replaced))
                    inner = r["ops"][0]
                    for o in b.origins(inner):
                        if o.kind == "agg":
                            ist = b.blocks[o.site[0]]["s"][o.site[1]]
                            if tuple_field is not None and len(ist["r"]["ops"]) > tuple_field:
                                cands.append(ist["r"]["ops"][tuple_field])
                elif r["k"] == "use":
                    cands.append(r["o"])
        t = blk["t"]
        if t["k"] == "call" and t["dest"] == [0] and not blk["c"]:
            cands.append(None)
            ch = [t] + chain(b, t["args"][0]) if t["args"] else [t]
            if any(_is_op_or_wrapper(ctx, fx, x, op) for x in ch):
                good = True
    for c in cands:
        if c is None:
            continue
        ch = chain(b, c)
        if any(_is_op_or_wrapper(ctx, fx, x, op) for x in ch):
            good = True
    ctx.require(good, "R08.3", inst + ":returns-previous", "the previous entry returned must be what HashMap::%s returned" % op, fn=f["def"], site=f["loc"])


def check_spawn_on_demand(ctx, fx, f, b, n, inst):
    # reuse branch: get -> ... -> filter(running)
    reuse_ok = False
    # the lookup and the spawn may each sit in a synchronous helper that is lent the locked table
    bodies = [b] + [ctx.body(fx, g_) for g_ in graph.with_forwarded(fx, f)[1:]] + [inline.body(ctx, fx, f, inline.not_public)]
    for b_ in bodies:
        for _, t in b_.normal_calls():
            if (t.get("callee") or "").endswith("::filter") and filter_is_running(ctx, fx, b_, t):
                names = [x["callee"].split("::")[-1] for x in chain(b_, t["args"][0])]
                if any(nm in ("get", "get_mut") for nm in names):
                    reuse_ok = True
    if not reuse_ok:
        # spelled as control flow in a lookup helper (`let addr = entry?.downcast_ref()?.to_owned(); if addr.running() { Some(addr)
        # } else { None }`): with the helper inlined, every `Some(<address>)` that is built lies on a running() == true path
        ib = inline.body(ctx, fx, f, inline.not_public)
        gets = [x for _, x in ib.normal_calls() if is_mapop(x) and x["callee"].endswith(("::get", "::get_mut"))]
        A2 = registry_alphabet(fx)

        def some_addr(body_, bi_, si_, st_):
            r_ = st_["r"]
            if r_["k"] == "agg" and r_.get("def") == "core::option::Option" and r_.get("variant") == "Some" and r_.get("ops"):
                o_ = r_["ops"][0]
                if o_.get("k") in ("move", "copy") and body_.locals[o_["p"][0]]["ty"].startswith("addr::Addr<"):
                    return "stmt:some-addr"
            return None
        A2.stmt_fn = some_addr
        n2 = nfa.build(ib, A2)
        n_some = len(nfa.edges_labelled(n2, "stmt:some-addr"))

        class _SomeOnlyLive(nfa.Spec):
            init = ("unknown",)

            def step(self, st, label):
                ev = label.split("@")[0]
                if ev in ("bool:live=1", "bool:dead=0"):
                    return ("live",)
                if ev in ("bool:live=0", "bool:dead=1"):
                    return ("dead",)
                if ev == "stmt:some-addr" and st[0] != "live":
                    return nfa.Err("an address is taken out of the registry for reuse on a path on which it was not found running (%s)" % st[0])
                return st
        if gets and n_some >= 1:
            v2, p2 = nfa.check(n2, _SomeOnlyLive())
            ctx.count_nfa(n2.stats(), p2)
            reuse_ok = not v2
    ctx.require(reuse_ok, "R08.3", inst + ":reuse-only-if-running", "a registered instance must be reused only if it is running", fn=f["def"], site=f["loc"])
    # spawn branch
    cl = [(bi, t) for bi, t in b.normal_calls() if (t.get("callee") or "").endswith("::create_loop")]
    launchers = loops.launch_helpers(fx)
    lc = [(bi, t) for bi, t in b.normal_calls() if (t.get("resolved") or t.get("callee")) in launchers or t.get("callee") in launchers]
    if not cl and lc:
        # `let (addr, handle) = Environment::unbounded().launch::<S>(Self::default())`: the helper's summary says that the loop
        # created for the actor it is given is the one spawned, and which field of its result is that loop's address
        if not ctx.require(len(lc) == 1, "R08.3", inst + ":one-create", "expected exactly one loop creation in spawn-on-demand", fn=f["def"], site=f["loc"]):
            return
        lbi, lt = lc[0]
        h = launchers.get(lt.get("resolved")) or launchers.get(lt.get("callee"))
        ar = roots(b, lt["args"][h["actor"]])
        ctx.require(bool(ar) and all(r.kind == "call:core::default::Default::default" for r in ar), "R08.3", inst + ":fresh-default", "the on-demand instance must be a fresh Default value", fn=f["def"], site=lt["l"])
        ins = [t for _, t in b.normal_calls() if is_mapop(t) and t["callee"].endswith("::insert")]
        ins_val = ins[0]["args"][2] if len(ins) == 1 else None
        if not ins:
            ins = [t for _, t in b.normal_calls() if fx.callee_fn(t) is not None and _is_op_or_wrapper(ctx, fx, t, "insert")]
            if len(ins) == 1:
                vi = [i for i, a in enumerate(ins[0].get("argtys", [])) if a.startswith("addr::Addr<")]
                ins_val = ins[0]["args"][vi[0]] if vi else None
        ok = len(ins) == 1 and ins_val is not None
        if ok:
            def from_launch(op, depth=0):
                os_ = b.origins(op)
                if not os_:
                    return False
                for o in os_:
                    if o.kind == "call" and o.site == (lbi,):
                        if o.proj[:1] != (h["addr"],):
                            return False
                    elif o.kind == "call" and depth < 3 and b.call_at(o)["args"]:
                        if not from_launch(b.call_at(o)["args"][0], depth + 1):
                            return False
                    else:
                        return False
                return True
            ok = from_launch(ins_val)
        ctx.require(ok, "R08.3", inst + ":inserted-is-spawned", "the address inserted must be the address of the loop that is spawned", fn=f["def"], site=f["loc"])
        _order(ctx, fx, f, n, inst)
        return
    if not cl:
        for b_ in bodies[1:]:
            if any((t.get("callee") or "").endswith("::create_loop") for _, t in b_.normal_calls()):
                b = b_
                cl = [(bi, t) for bi, t in b.normal_calls() if (t.get("callee") or "").endswith("::create_loop")]
                break
    if not ctx.require(len(cl) == 1, "R08.3", inst + ":one-create", "expected exactly one create_loop in spawn-on-demand", fn=f["def"], site=f["loc"]):
        return
    cbi, ct = cl[0]
    # the actor is a fresh Default
    ar = roots(b, ct["args"][1])

    def _is_default(r):
        if r.kind == "call:core::default::Default::default":
            return True
        # `create_loop(make())` with the maker handed down from the operation itself (`Self::from_registry_or_spawn_with(Self::default)`)
        if r.kind.endswith(graph.CALLABLE_CALLS):
            return all(graph.maker_is_default(fx, m_, roots, lambda g_: ctx.body(fx, g_)) for m_ in graph.supplied_maker(fx, b, getattr(b, "f", None) or f, r, roots, lambda g_: ctx.body(fx, g_)))
        return False
    ctx.require(bool(ar) and all(_is_default(r) for r in ar), "R08.3", inst + ":fresh-default", "the on-demand instance must be a fresh Default value", fn=f["def"], site=ct["l"])
    ins = [t for _, t in b.normal_calls() if is_mapop(t) and t["callee"].endswith("::insert")]
    ins_val = ins[0]["args"][2] if len(ins) == 1 else None
    if not ins:
        # a typed wrapper of the table: `registry.insert(addr.clone())`
        ins = [t for _, t in b.normal_calls() if fx.callee_fn(t) is not None and _is_op_or_wrapper(ctx, fx, t, "insert")]
        if len(ins) == 1:
            vi = [i for i, a in enumerate(ins[0].get("argtys", [])) if a.startswith("addr::Addr<")]
            ins_val = ins[0]["args"][vi[0]] if vi else None
    sp = [t for _, t in b.normal_calls() if nfa.trait_method("actor::spawner::Spawner", "spawn_actor")(t)]
    ok = len(ins) == 1 and len(sp) == 1 and ins_val is not None
    if ok:
        def from_create(op, field, depth=0):
            """the operand is field `field` of the create_loop pair, possibly cloned / boxed / wrapped in a newtype on the way"""
            os_ = b.origins(op)
            if not os_ or depth > 6:
                return False
            for o in os_:
                if o.kind == "call" and o.site == (cbi,):
                    if (o.proj[0] if o.proj else None) != field:
                        return False
                elif o.kind == "call" and b.call_at(o)["args"]:
                    if not from_create(b.call_at(o)["args"][0], field, depth + 1):
                        return False
                elif o.kind == "agg":
                    ops_ = b.blocks[o.site[0]]["s"][o.site[1]]["r"].get("ops") or []
                    if not ops_ or not all(from_create(x, field, depth + 1) for x in ops_ if x.get("k") in ("move", "copy")):
                        return False
                else:
                    return False
            return True
        ok = from_create(ins_val, "f1") and from_create(sp[0]["args"][0], "f0")
    ctx.require(ok, "R08.3", inst + ":inserted-is-spawned", "the address inserted must be the address of the loop that is spawned", fn=f["def"], site=f["loc"])
    _order(ctx, fx, f, n, inst)


def _order(ctx, fx, f, n, inst):
    # the address returned on the spawn path is that same address
    # spawn before insert, handle detached, all under the guard (LockScope) — and order: spawn -> detach -> insert
    class Order(nfa.Spec):
        init = ("s0",)

        def step(self, st, label):
            ev = label.split("@")[0]
            ph = st[0]
            if ev == "call:spawn":
                return ("spawned",)
            if ev == "call:detach":
                return ("detached",) if ph == "spawned" else st
            if ev == "call:mapinsert":
                if ph != "detached":
                    return nfa.Err("R08.3: the new instance is registered in phase %s (expected after spawn and detach)" % ph)
                return ("inserted",)
            if ev == "ret" and ph in ("spawned", "detached"):
                return nfa.Err("R08.3: a spawned instance is returned without being registered")
            return st
    viols, ps = nfa.check(n, Order())
    ctx.count_nfa({}, ps)
    for v in viols:
        ctx.viol("R08.3", inst + ":order", v["msg"], fn=f["def"], site=f["loc"], trace=v["trace"])
    if not viols:
        ctx.ok("R08.3", inst + ":order", f["loc"], None)


def shared_subset(ctx, fx, cfg, RULE, pattern, floor):
    """re-run this module's rules for one configuration and report those instances of R08.2 / R08.3 / R08.4 whose name matches
    `pattern` under the caller's rule id (properties whose statement includes a clause about the registry share the rule
    that decides that clause, and only that)"""
    import re
    sub = core.Ctx(ctx.prop, ctx.tier, repo=ctx.repo, seed=ctx.seed)
    sub._bodies = ctx._bodies
    check_cfg(sub, fx, cfg)
    want = re.compile(pattern)
    n = 0
    for i in sub.instances:
        if i["rule"] in ("R08.2", "R08.3", "R08.4") and want.match(i["instance"]):
            n += 1
            if i["ok"]:
                ctx.ok(RULE, i["instance"], i.get("site"), i.get("detail"))
    for v in sub.violations:
        if v["rule"] in ("R08.2", "R08.3", "R08.4") and want.match(v["instance"]):
            ctx.viol(RULE, v["instance"], v["msg"], fn=v.get("fn"), site=v.get("site"), trace=v.get("trace"))
    ctx.floor(RULE, "shared registry rules (%s)" % cfg, n, floor)
    ctx.states += sub.states
    ctx.transitions += sub.transitions


def check_no_live_eviction(ctx, fx, cfg, RULE):
    """the registry is a strong holder of the services registered in it: an entry is overwritten only by the explicit
    `replace` / removed by `unregister`, or — in `register` and spawn-on-demand — after it was found absent or stopped under
    the same lock (shared with C05: a registered service nobody stopped keeps running). The four rule instances of this
    module that say so are re-run and reported under the caller's rule id."""
    import re
    sub = core.Ctx(ctx.prop, ctx.tier, repo=ctx.repo, seed=ctx.seed)
    sub._bodies = ctx._bodies
    check_cfg(sub, fx, cfg)
    want = re.compile(r"^(register|from_registry_and_spawn)@%s(:reuse-only-if-running)?$" % re.escape(cfg))
    n = 0
    for i in sub.instances:
        if i["rule"] in ("R08.2", "R08.3") and want.match(i["instance"]):
            n += 1
            if i["ok"]:
                ctx.ok(RULE, i["instance"], i.get("site"), i.get("detail"))
    for v in sub.violations:
        if v["rule"] in ("R08.2", "R08.3") and want.match(v["instance"]):
            ctx.viol(RULE, v["instance"], v["msg"], fn=v.get("fn"), site=v.get("site"), trace=v.get("trace"))
    ctx.floor(RULE, "registry eviction rules (%s)" % cfg, n, 3)
    ctx.states += sub.states
    ctx.transitions += sub.transitions
