"""C10 — timers respect their period/delay, die with the actor and never prolong it."""
import core, nfa, loops, graph, own, timers
from mir import Body, sinks, agg_sites
from props.c15 import roots
from props import c06, c05

EXPL = ("R10.1 (A1 on the four timer coroutines): interval / interval_with submit only after a completed sleep since the "
        "previous submit, every cycle passes through the sleep, a failed submit ends the task; delayed_send / delayed_exec "
        "sleep once, then submit once / await the user future once. R10.2 (A3): the Duration given to sleep is the API's "
        "parameter unmodified, and each runtime's Spawner::sleep forwards it unmodified to the runtime's own sleep and "
        "awaits it. R10.3: timers are registered abortable and aborted when the context is dropped (shared with C06), "
        "hold only weak senders while they sleep (shared with C05) and submit through a WeakSender created from the "
        "context itself. Not decided: measured tick counts and spacing (they follow from these rules plus the trusted "
        "runtime sleep; no clock is run).")

PERIODIC = ("interval", "interval_with")
ONESHOT = ("delayed_send", "delayed_exec")


def is_submit(t):
    c = t.get("callee") or ""
    return c in ("addr::weak_sender::WeakSender::<M>::try_force_send", "addr::weak_sender::WeakSender::<M>::try_send", "addr::sender::Sender::<M>::force_send", "addr::sender::Sender::<M>::send")


class TimerSpec(nfa.Spec):
    def __init__(self, periodic, exec_):
        self.periodic = periodic
        self.exec_ = exec_
        self.init = ("start", 0)  # (phase, submits)

    def step(self, st, label):
        label = loops.norm(label)
        ev = label.split("@")[0]
        src = label.split("@")[1] if "@" in label else ""
        ph, n = st
        if ev in ("unwind", "cancel") or ev.startswith("pend:"):
            return st
        if ev == "call:sleep":
            if ph == "ending":
                return nfa.Err("R10.1: the timer keeps running after a failed submit (its actor is gone)")
            if not self.periodic and ph != "start":
                return nfa.Err("R10.1: a one-shot timer sleeps again")
            if ph == "submitting":
                return nfa.Err("R10.1: sleeps again before the pending submit completed")
            if ph == "unchecked" and self.periodic:
                return nfa.Err("R10.1: sleeps again without having looked at the outcome of the submit (a timer whose actor is gone must end)")
            return ("sleeping", n)
        if ev == "done:sleep":
            return ("slept", n) if ph == "sleeping" else st
        if ev in ("call:submit", "call:userfut", "pend:userfut", "done:userfut"):
            if ev == "done:userfut":
                return ("submitted", n) if ph in ("submitting", "slept") else st
            if ph == "submitting" and ev != "call:submit":
                return st
            if ph != "slept":
                return nfa.Err("R10.1: fires without a completed sleep since the previous firing / the start (phase %s)" % ph)
            if not self.periodic and n >= 1:
                return nfa.Err("R10.1: a one-shot timer fires more than once")
            return ("submitting", min(n + 1, 2))
        if ev == "done:submit":
            return ("unchecked", n) if ph == "submitting" else st
        # the outcome that is looked at must be the submit's own (`@submit`): a helper that swallows the error and hands
        # back a constant Ok gives the timer nothing to end on
        if (ev in ("bool:is_err=1", "bool:is_ok=0") or ev == "sw:Res::Err") and src == "submit":
            return ("ending", n)
        if (ev in ("bool:is_err=0", "bool:is_ok=1") or ev == "sw:Res::Ok") and src == "submit":
            return ("submitted", n)
        if ev == "ret":
            if self.periodic and ph != "ending":
                return nfa.Err("R10.1: a periodic timer ends although its last submit succeeded (phase %s)" % ph)
            if not self.periodic and n != 1 and not (self.exec_ and ph == "submitted"):
                return nfa.Err("R10.1: a one-shot timer ends without having fired (phase %s, %d firings)" % (ph, n))
            return st
        return st


def run(ctx):
    ctx.explanation = EXPL
    ctx.assumptions = ["the runtimes' sleep(d) does not complete before d", "AbortHandle::abort ends the timer task at its next poll"]
    cfgs = ["tokio", "smol", "asyncstd"]
    for cfg in cfgs:
        fx = ctx.facts(cfg) if cfg == "tokio" else ctx.try_facts(cfg)
        if fx is None:
            continue
        check_cfg(ctx, fx, cfg)
    return core.finish(ctx)


def check_timer_protocol(ctx, fx, cfg, RULE="R10.1"):
    """R10.1 the protocol of every timer body (sleep, submit, look at the outcome, end on a refused tick and only then). Also
    armed under C15 (a timer of a live actor keeps firing). Returns the analysed bodies for the rules that follow."""
    per = []
    tcs = timers.timer_coroutines(fx)
    ctx.floor(RULE, "timer coroutines (%s)" % cfg, len(tcs), 2)  # at least one periodic and one one-shot body (APIs may share bodies)
    A = nfa.Alphabet(
        calls=[("sleep", nfa.trait_method(timers.T_SPAWNF, "sleep")), ("submit", is_submit), ("is_err", nfa.callee_ends("::is_err")), ("is_ok", nfa.callee_ends("::is_ok"))],
        adts={"core::result::Result": "Res", "core::ops::control_flow::ControlFlow": "Res"}, bools={"is_err", "is_ok"}, fut_types=[("core::pin::Pin<&mut F>", "userfut")])
    A.bool_srcs = True
    seen = set()
    for f in tcs:
        crs = timers.creations(fx, f)
        # the submit may sit in a small awaited helper (`self_send.send_next().await`): the automaton is built from the body
        # with crate-private helpers inlined, so that the outcome the loop looks at can be traced to the submit
        import inline
        b = inline.body(ctx, fx, f, inline.not_public)
        n = nfa.build(b, A)
        # one body may serve several public APIs, told apart by a constant it captures (`Schedule::Once` / `Repeatedly`):
        # each (API, constants) instance is followed on its own
        insts = timers.creation_instances(fx, f) or [(fx.fn(f.get("parent") or "") or f, None, {})]
        api = None
        for api_fn, _cr, consts in insts:
            api = api_fn["def"].split("::")[-1]
            seen.add(api)
            inst = "%s@%s" % (api, cfg)
            if api not in PERIODIC + ONESHOT:
                ctx.note("timer coroutine in unknown API %s: checked as periodic" % api)
            init = {"%s#upvar%d" % (b.name, i): v for i, v in consts.items()}
            viols, ps = nfa.check(n, TimerSpec(api not in ONESHOT, api == "delayed_exec"), init_corr=init or None)
            ctx.count_nfa(n.stats(), ps)
            for v in viols:
                ctx.viol(RULE, inst, v["msg"], fn=f["def"], site=f["loc"], trace=v["trace"])
            if not viols:
                ctx.ok(RULE, inst, f["loc"], {"words": [" ".join(w) for w in nfa.words(n, limit=2)], "nfa": n.stats(), "bound": consts})
        per.append((f, crs, b, api))
    return per, seen


def check_cfg(ctx, fx, cfg):
    # R10.4 a tick is refused only when the actor is gone (the timers end on the first refused tick): shared with C15
    from props.c15 import check_forcing_never_refuses
    check_forcing_never_refuses(ctx, fx, cfg, "R10.4")
    # R10.5 (shared with C07) a restart ends the timers of the incarnation it replaces
    from props import c07 as _c07
    core.shared(ctx, "R10.5", _c07.check_restart_aborts_timers, ctx, fx, cfg, "R10.5")
    # R10.6 (shared with C04 / C13) "timers never keep the actor alive": once a loop has decided to end (Stop, closed mailbox,
    # exhausted stream) it takes nothing more out of the mailbox — a loop that drains "what is still queued" first is kept going by
    # the ticks its own timers keep adding
    from props.c03 import run_loops
    run_loops(ctx, fx, "R10.6", {"L9"})
    # R10.7 (shared with C15) a timer delivers as long as its actor lives: it submits through a weak sender, whose upgrade needs both
    # halves of the channel alive — so every strong handle kind that can be the last one keeping the actor alive keeps both
    from props import c15 as _c15
    core.shared(ctx, "R10.7", _c15.check_strong_kinds, ctx, fx, cfg, "R10.7")
    per, seen = check_timer_protocol(ctx, fx, cfg)
    for f, crs, b, api in per:
        # the submit's result must be looked at (periodic): is_err/is_ok or a match
        if api in PERIODIC:
            for bi, t in b.normal_calls():
                if is_submit(t):
                    pass
        # R10.2 duration
        parent = fx.fn(f["parent"])
        pb = ctx.body(fx, parent)
        for bi, t in b.normal_calls():
            if nfa.trait_method(timers.T_SPAWNF, "sleep")(t):
                rs = roots(b, t["args"][0])
                ok = all(r.kind == "upvar" for r in rs) and rs
                src_ok = False
                if ok:
                    idx = next(iter(rs)).site
                    src_ok = bool(crs)
                    for cr in crs:
                        prs = roots(cr.body, cr.caps[idx]) if idx in cr.caps else set()
                        src_ok = src_ok and bool(prs) and all(r.kind == "arg" for r in prs) and all(cr.body.locals[r.site]["ty"] == "core::time::Duration" for r in prs)
                ctx.require(ok and src_ok, "R10.2", "duration:%s@%s" % (api, cfg), "the timer must sleep for exactly the duration it was given: sleep argument roots %s" % sorted(map(str, rs)), fn=f["def"], site=t["l"])
            if is_submit(t):
                # submits through the weak sender captured from the API function, which made it from the context itself
                rs = roots(b, t["args"][0])
                ok = all(r.kind == "upvar" for r in rs) and rs
                src_ok = False
                if ok:
                    idx = next(iter(rs)).site
                    fpath = [e for e in next(iter(rs)).proj if e != "*" and not str(e).startswith("<part:")]
                    src_ok = bool(crs) and len({(r.site, tuple(e for e in r.proj if e != "*")) for r in rs}) == 1
                    for cr in crs:
                        one = False
                        cap = cr.caps.get(idx)
                        if cap is not None and fpath and cap.get("k") in ("move", "copy"):
                            cap = dict(cap, p=list(cap["p"]) + fpath)  # a field of a captured struct (`SelfSend { myself, message_fn }`)
                        for o in (cr.body.origins(cap) if cap is not None else ()):
                            if o.kind == "call":
                                ct = cr.body.call_at(o)
                                if ct.get("callee") == "context::Context::<A>::weak_sender" and all(r.kind == "arg" for r in roots(cr.body, ct["args"][0])):
                                    one = True
                        src_ok = src_ok and one
                ctx.require(ok and src_ok, "R10.3", "self-weak-sender:%s@%s" % (api, cfg), "the timer must submit through a weak sender of its own context", fn=f["def"], site=t["l"])
    # an API may hand its (sleep-less) submitting future to another timer API (`delayed_send` = `delayed_exec(async { send }, d)`):
    # it is then covered by that API's protocol; what it submits through is still judged here
    for name in PERIODIC + ONESHOT:
        if name in seen:
            continue
        af = fx.fn("context::Context::<A>::" + name)
        if af is None:
            continue
        ab = ctx.body(fx, af)
        deleg = [t for _, t in ab.normal_calls() if (t.get("resolved") or t.get("callee") or "").startswith("context::Context::<A>::") and (t.get("resolved") or t.get("callee")).split("::")[-1] in seen]
        if len(deleg) != 1:
            continue
        ok_all = True
        n_sub = 0
        for _bi, _si, st in agg_sites(ab, ak="coroutine"):
            co = fx.fn(st["r"]["def"])
            if co is None:
                continue
            cb = ctx.body(fx, co)
            for _cb, ct in cb.normal_calls():
                if is_submit(ct):
                    n_sub += 1
                    rs = roots(cb, ct["args"][0])
                    good = bool(rs) and all(r.kind == "upvar" for r in rs)
                    if good:
                        idx = next(iter(rs)).site
                        good = any(o.kind == "call" and ab.call_at(o).get("callee") == "context::Context::<A>::weak_sender" and all(r.kind == "arg" for r in roots(ab, ab.call_at(o)["args"][0])) for o in ab.origins(st["r"]["ops"][idx]))
                    ok_all = ok_all and good
        ctx.require(ok_all and n_sub >= 1, "R10.3", "self-weak-sender:%s@%s" % (name, cfg), "the timer must submit through a weak sender of its own context", fn=af["def"], site=af["loc"])
        seen.add(name)
    ctx.require(set(PERIODIC + ONESHOT) <= seen, "R10.1", "api-set@" + cfg, "timer APIs missing: %s" % sorted(set(PERIODIC + ONESHOT) - seen), detail=sorted(seen))
    # R10.2 per-runtime sleep
    for f in fx.impl_fns("actor::spawner::Spawner"):
        if not f["def"].endswith("::sleep"):
            continue
        fam = graph.family(fx, f["def"])
        found = False
        import inline

        def _sleep_helpers(g_, t_):  # private helpers, and the crate's own `runtime::sleep` shim (`crate::runtime::sleep(d).await`)
            return inline.not_public(g_, t_) or g_["def"].startswith("runtime::")
        for g in fam:
            b = inline.body(ctx, fx, g, _sleep_helpers)
            for bi, t in b.normal_calls():
                c = t.get("callee") or ""
                if t.get("callee_local") or not t["args"]:
                    continue
                if any("core::time::Duration" == a for a in t.get("argtys", [])) and not c.startswith("core::"):
                    rs = roots(b, t["args"][t["argtys"].index("core::time::Duration")])
                    okd = all(r.kind in ("upvar", "arg") for r in rs) and rs
                    # and the sleep future is awaited
                    fsk = sinks(b, t["dest"][0])
                    awaited = any(s["k"] == "call" and (s["t"].get("callee") or "").endswith("Future::poll") for s in fsk) or any(s["k"] == "ret" for s in fsk)
                    found = True
                    ctx.require(okd and awaited, "R10.2", "runtime-sleep:%s@%s" % (f.get("impl_self", "?").split("::")[-1], cfg), "Spawner::sleep must forward its duration unmodified to the runtime's sleep and await it: callee %s roots %s awaited %s" % (c, sorted(map(str, rs)), awaited), fn=g["def"], site=t["l"], detail={"runtime_sleep": c})
        ctx.require(found, "R10.2", "runtime-sleep-found:%s@%s" % (f.get("impl_self", "?").split("::")[-1], cfg), "no runtime sleep call taking the duration found in Spawner::sleep", fn=f["def"], site=f["loc"])
    sf = fx.fn("actor::spawner::SpawnFutures::sleep")
    if ctx.require(sf is not None, "R10.2", "SpawnFutures::sleep@" + cfg, "SpawnFutures::sleep not found"):
        b = ctx.body(fx, sf)
        calls = [t for _, t in b.normal_calls() if nfa.trait_method("actor::spawner::Spawner", "sleep")(t)]
        ok = len(calls) == 1 and all(r.kind == "arg" for r in roots(b, calls[0]["args"][0])) and any(s["k"] == "ret" for s in sinks(b, calls[0]["dest"][0]))
        ctx.require(ok, "R10.2", "SpawnFutures::sleep@" + cfg, "SpawnFutures::sleep must forward to the spawner's sleep with the same duration", fn=sf["def"], site=sf["loc"])
    # R10.3 shared rules
    ab = timers.aborters(ctx, fx)
    for name, a in ab.items():
        ctx.require(not a["viols"], "R10.3", "abort-all:%s@%s" % (name, cfg), "not every timer handle is aborted", fn=name, site=a["fn"]["loc"])
    c06.check_drop_aborts(ctx, fx, cfg, ab, "R10.3")
    c06.check_timer_list(ctx, fx, cfg, ab, "R10.3", "R10.3")
    regs = [r for r in timers.registrars(fx) if r.startswith("context::")]
    for r in regs:
        c06.check_registrar(ctx, fx, fx.fn(r), cfg)
    for f, _crs, _b, _api in per:
        co = fx.coroutines.get(f["def"])
        bad = []
        if co and "suspensions" in co:
            bad = [a["ty"] for _c, _p, a in own.keepalive_atoms(co["upvar_atoms"])]
            for s in co["suspensions"]:
                if timers.is_sleeping_suspension(fx, co, s):  # (also: parked in a private helper that sleeps)
                    bad += [a["ty"] for _c, _p, a in timers.held_while_sleeping(fx, s)]
        ctx.require(co is not None and not bad, "R10.3", "weak-while-sleeping:%s@%s" % ((f.get("parent") or "").split("::")[-1], cfg), "a timer holds a strong handle while it sleeps: %s" % bad[:2], fn=f["def"], site=f["loc"])
