"""C05 — strong handles keep an actor alive, weak never do; last drop drains, then stops."""
import core, nfa, loops, graph, own, chan
from mir import Body, agg_sites
from props.c03 import run_loops

EXPL = ("Ownership graph over types (A2): owns*(T) is computed by the extractor through ADT fields, Box/Arc/PhantomData, "
        "closure and coroutine captures, coroutine saved locals per suspension point and `dyn` via the table of erased "
        "types. Decided: the context, the loop coroutines (captures and every suspension point), the timer coroutines "
        "at their sleep, the three weak handle kinds and the broker state own no mailbox sender and no strong channel "
        "Arc of the actor (the child table holds other actors' senders only); every strong kind owns a mailbox sender; "
        "strong channel Arcs are created only in the two channel constructors; the closed-mailbox edge of both loops takes "
        "the graceful exit. Valid for all handle-manipulation programs because it is a fact about types.")


def timer_coroutines(fx):
    out = []
    for f in fx.d["fns"]:
        if f["kind"] != "coroutine":
            continue
        b = Body(f)
        if any(nfa.trait_method("actor::spawner::SpawnFutures", "sleep")(t) for _, t in b.normal_calls()):
            out.append(f)
    return out



def check_timers_own_nothing(ctx, fx, cfg, RULE="R05.3"):
    """timer futures capture nothing strong and hold nothing strong while they sleep"""
    if cfg != "bare":
        timers = timer_coroutines(fx)
        ctx.floor(RULE, "timer coroutines in " + cfg, len(timers), 2)  # at least one periodic and one one-shot body (APIs may share bodies)
        # ... and the futures that await a sleeping private helper (`async move { .. send_every(myself, msg, d).await .. }`):
        # what they hold while the helper sleeps is held while sleeping
        import timers as _tm
        outer = [g for g in _tm.timer_coroutines(fx) if g["def"] not in {t_["def"] for t_ in timers}]
        for f in timers + outer:
            co = fx.coroutines.get(f["def"])
            inst = "%s@%s" % (f["def"].split("::")[-2], cfg)
            if not ctx.require(co is not None and "suspensions" in co, RULE, inst, "coroutine layout missing", fn=f["def"]):
                continue
            bad = [("captures", c, a["ty"]) for c, p, a in own.keepalive_atoms(co["upvar_atoms"])]
            n_sleep = 0
            for s in co["suspensions"]:
                if _tm.is_sleeping_suspension(fx, co, s):
                    n_sleep += 1
                    for c, p, a in _tm.held_while_sleeping(fx, s):
                        bad.append(("sleep@" + s["loc"], c, a["ty"]))
            ctx.require(not bad, RULE, inst, "a timer task holds a strong handle while it sleeps: %s" % bad[:3], fn=f["def"], site=f["loc"], detail={"sleep_suspensions": n_sleep})
            ctx.require(n_sleep >= 1, RULE, inst + ":sleep-found", "no suspension point holding the sleep future found", fn=f["def"], site=f["loc"])

def run(ctx):
    ctx.explanation = EXPL
    ctx.assumptions = ["mpsc receiver yields None iff all senders are gone and the queue is empty", "Arc/Weak semantics", "user code storing its own Addr inside the actor is outside the property (documented leak potential)"]
    cfgs = ["tokio"] if ctx.tier == "quick" else ["tokio", "smol", "asyncstd", "bare"]
    for cfg in cfgs:
        fx = ctx.facts(cfg) if cfg == "tokio" else ctx.try_facts(cfg)
        if fx is None:
            continue
        check_cfg(ctx, fx, cfg)
    return core.finish(ctx)


def check_cfg(ctx, fx, cfg):
    # R05.1 context
    o = fx.owns_of("context::Context", "adt")
    if ctx.require(o is not None, "R05.1", "Context@" + cfg, "ownership closure of Context<A> missing"):
        bad = []
        via = 0
        for c, p, a in own.keepalive_atoms(o["atoms"]):
            if not own.existential(p) or not own.via_children(a):
                bad.append((c, a["ty"], a["paths"][0]))
            else:
                via += 1
        ctx.require(not bad, "R05.1", "Context@" + cfg, "the actor's own context keeps its mailbox / channel alive: %s" % bad[:3], fn="context::Context", site=fx.adts["context::Context"]["loc"], detail={"keepalive_atoms_only_through_child_table": via})
    # R05.2 loop coroutines
    found = loops.find_loops(fx)
    ctx.floor("R05.2", "loop coroutines", len(found), 2)
    for f, kind in found:
        co = fx.coroutines.get(f["def"])
        if not ctx.require(co is not None and "suspensions" in co, "R05.2", "%s-loop@%s" % (kind, cfg), "coroutine layout missing", fn=f["def"]):
            continue
        bad = []
        for c, p, a in own.keepalive_atoms(co["upvar_atoms"]):
            if not (own.existential(p) and own.via_children(a)):
                bad.append(("captures", c, a["ty"], a["paths"][0]))
        for s in co["suspensions"]:
            for c, p, a in own.keepalive_atoms(s["atoms"]):
                if not (own.existential(p) and own.via_children(a)):
                    bad.append(("await@" + s["loc"], c, a["ty"], a["paths"][0]))
        # it must own the receiver (so every exit closes the mailbox)
        has_rx = any(own.classify(a)[0] == "receiver" and not own.existential(own.classify(a)[1]) for a in co["upvar_atoms"])
        ctx.require(not bad, "R05.2", "%s-loop@%s" % (kind, cfg), "the event loop future keeps its own actor alive: %s" % bad[:3], fn=f["def"], site=f["loc"], detail={"suspension_points": len(co["suspensions"])})
        ctx.require(has_rx, "R05.2", "%s-loop-owns-receiver@%s" % (kind, cfg), "the event loop future does not own the mailbox receiver", fn=f["def"], site=f["loc"])
    check_timers_own_nothing(ctx, fx, cfg)
    # R05.12 a parent's child list keeps its children alive for as long as the parent lives: nothing empties or replaces the
    # table (shared with C16)
    if cfg == "tokio":
        from props import c16 as _c16
        _c16.check_child_table_access(ctx, fx, "R05.12")
    # R05.4 weak kinds
    for k in own.WEAK_KINDS:
        o = fx.owns_of(k, "adt")
        inst = "%s@%s" % (k.split("::")[-1], cfg)
        if not ctx.require(o is not None, "R05.4", inst, "weak handle kind %s not found" % k):
            continue
        bad = [(c, a["ty"], a["paths"][0]) for c, p, a in own.keepalive_atoms(o["atoms"])]
        weak = [a for a in o["atoms"] if (own.classify(a)[0] or "").startswith("weakch")]
        ctx.require(not bad, "R05.4", inst, "a weak handle owns a strong reference: %s" % bad[:2], fn=k, site=fx.adts[k]["loc"], detail={"weak_refs": [a["ty"] for a in weak]})
    # R05.5 broker
    if cfg != "bare":
        o = fx.owns_of("broker::Broker", "adt")
        if ctx.require(o is not None, "R05.5", "Broker@" + cfg, "broker::Broker not found"):
            bad = [(c, a["ty"], a["paths"][0]) for c, p, a in own.keepalive_atoms(o["atoms"])]
            ctx.require(not bad, "R05.5", "Broker@" + cfg, "the broker's subscriber table keeps subscribers alive: %s" % bad[:2], fn="broker::Broker", site=fx.adts["broker::Broker"]["loc"])
    # R05.6 strong atoms are created only in the channel constructors
    ctors = sorted({f["def"] for f, _b, _t in graph.all_calls(fx, lambda t: (t.get("callee") or "") in ("futures_channel::mpsc::channel", "futures_channel::mpsc::unbounded"))})
    ctx.floor("R05.6", "channel constructors", len(ctors), 2)
    ctor_helpers = graph.private_helpers(fx, set(ctors))
    for key, ent in fx.dyn.items():
        if key.startswith("dyn channel::TxFn<") or key.startswith("dyn channel::ForceTxFn<"):
            sites = [s.get("in") or s.get("param_of") for s in ent["sites"]]
            ctx.require(all(s in ctors or s in ctor_helpers for s in sites) and sites, "R05.6", "%s@%s" % (key, cfg), "a submit closure is created outside the channel constructors: %s" % [s for s in sites if s not in ctors], site=ent["sites"][0]["loc"] if ent["sites"] else None, detail=sites)
    # R05.9 closed list of crate types whose values keep an actor alive
    import loops as _loops, timers as _timers
    loop_defs = {f_["def"] for f_, _k in _loops.find_loops(fx)}
    timer_defs = {f_["def"] for f_ in _timers.timer_coroutines(fx)}
    HOLDERS = {
        "addr::Addr": "strong handle kind", "addr::OwningAddr": "strong handle kind", "addr::sender::Sender": "strong handle kind", "addr::caller::Caller": "strong handle kind",
        "channel::Channel": "construction: the two submit closures before they are split up",
        "environment::Environment": "construction: holds the first Addr until create_loop hands it out",
        "actor::builder::ActorBuilderWithChannel": "construction: holds the Channel until a terminal spawns",
        "actor::builder::StreamActorBuilder": "construction: holds the Channel until a terminal spawns",
        "context::Context": "child table only (R05.1)",
    }
    LONG_LIVED = ("context::Context", "broker::Broker", "addr::Addr", "addr::OwningAddr", "addr::sender::Sender", "addr::caller::Caller", "addr::weak_addr::WeakAddr", "addr::weak_sender::WeakSender", "addr::weak_caller::WeakCaller")

    def stored_long_lived(adt):
        """is a value of this type kept inside something that outlives a call: a static, the context, the broker's state,
        a handle, or something a loop / timer future owns?"""
        short = adt.split("::")[-1]
        needle = "/%s." % short
        for s_ in fx.d.get("statics", []):
            if s_["def"] == "actor::service::REGISTRY":
                continue  # the service registry is where strong addresses of services live (C08): its slot type may hold them
            if adt in s_["ty"] or short in s_["ty"]:
                return True
        for o2 in fx.owns:
            long_lived = (o2["kind"] == "adt" and o2["def"] in LONG_LIVED) or (o2["kind"] == "coroutine" and (o2["def"] in loop_defs or o2["def"] in timer_defs))
            if not long_lived or o2["def"] == adt:
                continue
            for a2 in o2["atoms"]:
                # (a wrapper type around the context's child table is part of that table: R05.1 judges what it may hold)
                if any(needle in p2 and "/Context.children/" not in p2[:p2.index(needle) + 1] + "/" and not p2[:p2.index(needle)].endswith("/Context.children") for p2 in a2.get("paths", [])):
                    return True
        return False
    import chan as _chan
    for _k, _cf, _key in _chan.submit_closures(fx):
        if _cf is not None and _cf.get("_adt"):
            HOLDERS[_cf["_adt"]] = "a named submit object (stands for one of the two submit closures; created in the channel constructors, R05.6)"
    # a named type standing in for one of the closures inside a strong handle (`struct ActorCall { tx, _force_tx }` implementing
    # `CallerFn<M>`, erased into `Caller`'s `Box<dyn CallerFn<M>>`): the handle's internals, alive exactly as long as the handle
    HANDLE_TRAIT_MODULES = ("addr::",)  # the handle types and their private helper traits / structs live in `addr` and its submodules
    handle_objects = set()
    for key_, ent_ in fx.dyn.items():
        if key_.startswith(tuple("dyn " + m_ for m_ in HANDLE_TRAIT_MODULES)):
            for s_ in ent_["sources"]:
                if s_.get("kind") == "adt" and (s_.get("def") or "").startswith(HANDLE_TRAIT_MODULES):
                    handle_objects.add(s_["def"])
    for ho_ in handle_objects:
        HOLDERS.setdefault(ho_, "a named object inside a strong handle (stands for one of its closures)")
    # ... likewise a private struct of a handle's module that the handle's closures capture (`struct ChannelHalves { tx, force_tx }`
    # inside `Caller::new`'s call closure): it is held by nothing but strong handles and the closures of that module
    for a_ in fx.d["adts"]:
        d_ = a_["def"]
        if d_ in HOLDERS or not d_.startswith(HANDLE_TRAIT_MODULES) or a_.get("vis") == "pub":
            continue
        needle_ = "/%s." % d_.split("::")[-1]
        strong_ = tuple("/%s." % k_.split("::")[-1] for k_ in own.STRONG_KINDS)
        seen_, inside_ = False, True
        for o2 in fx.owns:
            if o2["def"] == d_:
                continue
            for a2 in o2["atoms"]:
                for p2 in a2.get("paths", []):
                    if needle_ not in p2:
                        continue
                    seen_ = True
                    pre_ = p2[:p2.index(needle_) + 1]
                    # reached through a strong handle that the owner holds, or directly from a closure of the handle's own module
                    via_handle = any(s_ in pre_ for s_ in strong_) or (o2["kind"] == "adt" and o2["def"] in own.STRONG_KINDS)
                    own_closure = o2["kind"] in ("closure", "coroutine") and o2["def"].startswith(HANDLE_TRAIT_MODULES)
                    if not (via_handle or own_closure):
                        inside_ = False
        if seen_ and inside_:
            HOLDERS[d_] = "a private struct captured by the closures of a strong handle (part of the handle)"
    for o in fx.owns:
        if o["kind"] != "adt":
            continue
        ka = own.keepalive_atoms(o["atoms"])
        if ka and o["def"] not in HOLDERS and not stored_long_lived(o["def"]):
            # a value type passed between functions (a named pair instead of a tuple, the parts of a channel on their
            # way into the environment): it lives as long as the call that passes it
            ctx.ok("R05.9", "holder:%s@%s" % (o["def"], cfg), fx.adts[o["def"]]["loc"] if o["def"] in fx.adts else None, "transient value type: stored in no static, context, broker or handle")
        elif ka and o["def"] not in HOLDERS:
            c, p_, a = ka[0]
            ctx.viol("R05.9", "holder:%s@%s" % (o["def"], cfg), "a type outside the closed list holds a strong handle (its values keep actors alive): %s via %s" % (a["ty"][:80], a["paths"][0][:120]), fn=o["def"], site=fx.adts[o["def"]]["loc"] if o["def"] in fx.adts else None)
        elif ka:
            ctx.ok("R05.9", "holder:%s@%s" % (o["def"], cfg), fx.adts[o["def"]]["loc"] if o["def"] in fx.adts else None, HOLDERS[o["def"]])
    # R05.11 "first handles every message already accepted": what sits in the queue runs its handler unconditionally when it
    # is drained (shared with C01)
    from props.c01 import check_payloads
    check_payloads(ctx, fx, cfg, "R05.11")
    # R05.10 closed list of closures / futures that own a strong handle (each is a handle's internals, an operation that was
    # given the handle by value, a transient upgrade during one send, or construction); a new one is reported for review
    CLOSURE_HOLDERS = (
        "actor::builder::ActorBuilderWithChannel::<A, P, R>::register::", "addr::Addr::<A>::register::", "addr::Addr::<A>::replace::",
        "actor::service::SpawnableService::from_registry_and_spawn::", "actor::service::Service::from_registry_and_spawn::",
        "addr::caller::Caller::<M>::call::", "addr::caller::Caller::<M>::new::", "addr::sender::Sender::<M>::new::",
        "addr::weak_addr::WeakAddr::<A>::try_halt::", "addr::weak_caller::WeakCaller::<M>::try_call::", "addr::weak_sender::WeakSender::<M>::try_send::",
        "addr::Addr::<A>::halt::", "addr::Addr::<A>::send::", "addr::OwningAddr::<A>::consume::", "addr::OwningAddr::<A>::send::", "addr::OwningAddr::<A>::call::",
        "channel::Channel::<A>::bounded::", "channel::Channel::<A>::unbounded::",
        "environment::Environment::<A, R>::create_loop::", "environment::Environment::<A, R>::create_loop_on_stream::",
        "broker::Broker::<T>::publish::", "broker::Broker::<T>::try_publish::", "broker::Broker::<T>::subscribe::",
        "<broker::Broker<T> as handler::Handler<broker::Publish<T>>>::handle::", "context::Context::<A>::publish::", "context::Context::<A>::subscribe::",
        "actor::service::Service::setup::", "actor::service::Service::from_registry::",
    )
    n_async_fn = []
    listed = {f["def"] for f in fx.d["fns"] if f["kind"] in ("fn", "assoc_fn") and (f["def"] + "::") in CLOSURE_HOLDERS}
    # code extracted from a listed function into a private helper used only there belongs to the same entry
    listed_helpers = graph.private_helpers(fx, listed)
    def exempt(d):
        if any((d + "::").startswith(pfx) or d.startswith(pfx) for pfx in CLOSURE_HOLDERS):
            return "listed"
        if (fx.fn(d) or {}).get("root") in listed_helpers:
            return "helper of a listed function"
        # the body of a named submit object's `send` (`impl TxFn for BoundedTx`) is the submit closure of the constructors
        # written as a method: its future holds a sender clone for the duration of one send (R01.3 judges it)
        rootf = fx.fn((fx.fn(d) or {}).get("root") or "") or {}
        if rootf.get("impl_trait_def") in (chan.TX_TRAIT, chan.FORCE_TRAIT) and (rootf.get("impl_self") or "").startswith("channel::"):
            return "submit object"
        # likewise the method body of a named object inside a strong handle (`impl CallerFn<M> for ActorCall<A>`: the future of
        # one call holds the channel halves for the duration of that call, as the closure it replaces did)
        if (rootf.get("impl_trait_def") or "").startswith(HANDLE_TRAIT_MODULES) and (rootf.get("impl_self") or "").split("<")[0] in handle_objects:
            return "handle object"
        # the body of an `async fn` holds what its caller handed in (and what it makes from it) for the duration of that
        # call only: the future is returned to the caller, nothing keeps it beyond the await. What is listed above and
        # reported below are closures and async blocks — the things that get stored or spawned.
        df = fx.fn(d) or {}
        pf = fx.fn(df.get("parent") or "") or {}
        if df.get("kind") == "coroutine" and pf.get("is_async") and pf.get("kind") in ("fn", "assoc_fn") and not pf.get("impl_trait"):
            return "async fn"
        # a closure literal handed straight to a combinator of `Option` / `Result` / an iterator (`addr.stop().map(|()| addr)`): it is
        # called or dropped before that call returns, nothing can keep it
        if df.get("kind") == "closure" and pf:
            from mir import sinks as _sinks
            pb_ = ctx.body(fx, pf)
            sites_ = [(st_["p"][0]) for _bi, _si, st_ in agg_sites(pb_, ak="closure") if st_["r"].get("def") == d and len(st_["p"]) == 1]
            if len(sites_) == 1:
                sk_ = _sinks(pb_, sites_[0])
                if sk_ and all(x["k"] == "call" and (x["t"].get("callee") or "").startswith(("core::option::", "core::result::", "core::iter::")) and not x["t"].get("callee_local") for x in sk_):
                    return "transient combinator argument"
        return None

    def through_exempt(path, d):
        """the path from the owner `d` to the atom goes through a future / closure that is itself an accepted holder (the
        future of one `try_send` awaited by a timer body): the owner holds the handle only as long as that operation runs"""
        # (only futures nested directly in the owner count — `[owner].saved1/[try_send::{closure#0}].saved0/Sender..`; a handle
        # the owner itself holds — `[owner].saved0/Sender.send_fn/<dyn ..>/[Sender::new::{closure#0}]..` — is its own)
        segs = [x for x in path.split("/") if x]
        for sg in segs[1:]:
            m = re.match(r"\[([^\]]+)\]", sg)
            if not m:
                return False
            c = m.group(1)
            cf = fx.fns.get(c)
            if cf is None or cf["kind"] != "coroutine":
                return False
            if c != d and exempt(c):
                return True
        return False

    import re
    for o in fx.owns:
        if o["kind"] not in ("closure", "coroutine"):
            continue
        ka = own.keepalive_atoms(o["atoms"])
        if not ka:
            continue
        d = o["def"]
        why = exempt(d)
        if why == "async fn":
            n_async_fn.append(d)
        if why:
            continue
        ka = [(c_, p_, a) for c_, p_, a in ka if any(not through_exempt(pp, d) for pp in a.get("paths", []))]
        if not ka:
            continue
        c_, p_, a = ka[0]
        ctx.viol("R05.10", "closure-holder:%s@%s" % (d, cfg), "a closure / future outside the closed list owns a strong handle (while it exists the actor cannot see its last handle dropped): %s via %s" % (a["ty"][:70], a["paths"][0][:100]), fn=d, site=(fx.fn(d) or {}).get("loc"))
    ctx.ok("R05.10", "closure-holders@" + cfg, "crate", {"closed_list": len(CLOSURE_HOLDERS)})
    # R05.13 (shared with C08) the service registry, a strong holder, lets go of a registered service only when told to
    # (replace / unregister) or after it found the entry stopped under the same lock
    if cfg != "bare":
        from props import c08 as _c08
        _c08.check_no_live_eviction(ctx, fx, cfg, "R05.13")
        # R05.14 (shared with C17) "an actor that nobody stopped keeps running as long as at least one strong handle exists": what a
        # join future takes out of the slot and waits on has no power over the task — giving a join up (a timeout, a lost select)
        # does not cancel the actor while other strong handles are in use
        from props import c17 as _c17
        core.shared(ctx, "R05.14", _c17.check_join_handle_is_inert, ctx, fx, cfg, "R05.14")
        core.shared(ctx, "R05.14", _c17.check_join, ctx, fx, cfg, "R05.14")
    check_closed_mailbox_exit(ctx, fx, cfg)
    # R05.8 every strong kind owns a mailbox sender
    for k in own.STRONG_KINDS:
        o = fx.owns_of(k, "adt")
        inst = "%s@%s" % (k.split("::")[-1], cfg)
        if not ctx.require(o is not None, "R05.8", inst, "strong handle kind %s not found" % k):
            continue
        mb = [a for a in o["atoms"] if own.classify(a)[0] == "mailbox"]
        ctx.require(len(mb) >= 1, "R05.8", inst, "a strong handle kind owns no mailbox sender (it would not keep the actor alive)", fn=k, site=fx.adts[k]["loc"], detail=[a["ty"] for a in mb])


def check_closed_mailbox_exit(ctx, fx, cfg, RULE="R05.7"):
    """closed mailbox -> graceful exit (shared with C16: a released child with no other strong handle notices)"""
    res57 = run_loops(ctx, fx, RULE, {"L9", "L13"})
    for lf, kind, lb, ln in res57:
        # must-have: the loop can observe the closed mailbox at all (a dequeue that never yields None — e.g.
        # select_next_some on a fused mailbox — keeps the actor running with no handle left)
        none_edges = [e for e in nfa.edges_labelled(ln, "sw:Option::None@") if e[1].split("@")[1] in ("next", "mailbox")]
        # ... or reads it as a stop request (`dequeued.unwrap_or(Payload::Stop)`) and has the Stop exit
        as_stop = [s_ for s_ in loops.closed_as_stop_sites(fx) if s_[0] in loops.loop_family(fx, lf)] and nfa.edges_labelled(ln, "sw:Payload::Stop")
        ctx.require(len(none_edges) >= 1 or bool(as_stop), RULE, "%s-loop-sees-closed-mailbox@%s" % (kind, cfg), "the loop has no branch for the closed mailbox (None from the dequeue): dropping the last strong handle would not end the actor", fn=lf["def"], site=lf["loc"], detail={"edges": len(none_edges)})
