"""C01 — mailbox is FIFO: sequential, in-order, at-most-once message handling."""
import core, nfa, loops, graph, chan
from mir import Body, sinks, agg_sites
from props.c03 import run_loops
from props.c15 import roots

EXPL = ("Proof sketch discharged by the rules: every submission enqueues into the actor's single queue before it "
        "returns (R01.1 one queue, R01.2 both submit closures and the receive closure hold ends of that one channel, "
        "R01.3 forcing closures enqueue synchronously / waiting closures await the enqueue before completing, R01.4 every "
        "payload built by the API goes only into the submit closure of the addressed actor and a waiting send's future is "
        "awaited or returned); the loop dequeues at one site, invokes a dequeued task exactly once and drives its future to "
        "completion before the next dequeue (R01.5); the payload is a boxed FnOnce borrowing the actor exclusively and is "
        "not Clone (R01.6); the crate is unsafe-free (R01.7). With a linearizable FIFO queue (trusted) this yields the "
        "property for all programs and schedules. The queue's own linearizability is not decided.")


class EnqueueOnce(nfa.Spec):
    def __init__(self, waiting):
        self.waiting = waiting
        self.init = ("s0",)

    def step(self, st, label):
        label = loops.norm(label)
        ev = label.split("@")[0]
        src = label.split("@")[1] if "@" in label else ""
        ph = st[0]
        if ev in ("unwind", "cancel") or ev.startswith("pend:"):
            return st
        if ev == "call:enq":
            if ph != "s0":
                return nfa.Err("R01.3: payload enqueued more than once")
            return ("called",)
        if ev == "done:enq":
            return ("done",) if ph == "called" else st
        if ev in ("sw:Res::Ok", "sw:Res::Err") and src == "enq":
            if ev.endswith("Err"):
                return ("enq_failed",)
            return ("enq_ok",) if ph in ("called", "done") and (not self.waiting or ph == "done") else nfa.Err("R01.3: success of an enqueue that was not driven to completion")
        if ev == "retval:call" and src == "enq" and (ph == "done" or (ph == "called" and not self.waiting)):
            # the enqueue's own outcome is the closure's result (`tx.start_send(event).map_err(ActorError::from)`)
            return ("okret",)
        if ev == "retval:Ok":
            need = "enq_ok"
            if ph != need:
                return nfa.Err("R01.3: submit closure reports Ok without having enqueued the payload (phase %s)" % ph)
            return ("okret",)
        if ev in ("retval:residual", "retval:Err"):
            if ph != "enq_failed":
                return nfa.Err("R01.3: error reported in phase %s" % ph)
            return ("errret",)
        if ev == "ret":
            if ph in ("okret", "errret"):
                return st
            return nfa.Err("R01.3: submit closure returns in phase %s" % ph)
        return st


class AwaitBeforeReturn(nfa.Spec):
    """a waiting send's future, once created, is driven to completion before the function returns"""
    init = ("idle",)

    def step(self, st, label):
        ev = label.split("@")[0]
        if ev == "call:wsend":
            return ("pending",)
        if ev == "done:wsend":
            return ("idle",)
        if ev == "ret" and st[0] == "pending":
            return nfa.Err("R01.4: returns although the future of the waiting send was not driven to completion on this path")
        return st


class _AwaitLab(nfa.Spec):
    init = ("idle",)

    def __init__(self, lab):
        self.lab = lab

    def step(self, st, label):
        ev = label.split("@")[0]
        if ev == "call:" + self.lab:
            return ("pending",)
        if ev == "done:" + self.lab:
            return ("idle",)
        if ev == "ret" and st[0] == "pending":
            return nfa.Err("returns although the future of the waiting submission was not driven to completion on this path")
        return st


def run(ctx):
    ctx.explanation = EXPL
    ctx.assumptions = ["futures-channel mpsc is a linearizable FIFO; a fresh Sender clone is never parked, so SinkExt::send enqueues on first poll", "Box<dyn FnOnce> can be invoked at most once (language)"]
    cfgs = ["tokio"] if ctx.tier == "quick" else ["tokio", "smol", "asyncstd", "bare"]
    for cfg in cfgs:
        fx = ctx.facts(cfg) if cfg == "tokio" else ctx.try_facts(cfg)
        if fx is None:
            continue
        check_cfg(ctx, fx, cfg)
    return core.finish(ctx)


class _HandlerOnAllPaths(nfa.Spec):
    """an accepted message is handled when its payload runs: no path through the payload skips the handler"""
    init = ("s0",)

    def step(self, st, label):
        ev = label.split("@")[0]
        if ev == "call:handle":
            return ("called",)
        if ev == "done:handle":
            return ("done",)
        if ev == "ret" and st[0] == "s0":
            return nfa.Err("a path through the message payload returns without running the handler (an accepted message would be dropped)")
        return st


def check_payloads(ctx, fx, cfg, RULE):
    # R01.8 each payload closure runs the handler of its own message exactly once on the loop's (actor, ctx)
    n_pl = 0
    for key, ent in fx.dyn.items():
        tt_ = loops.task_trait(fx)
        if not ((tt_ is not None and key.startswith("dyn %s<" % tt_[0])) or key.startswith("dyn core::ops::function::FnOnce<(&mut A, &mut context::Context<A>)>") and "[Output=core::pin::Pin<alloc::boxed::Box<dyn core::future::future::Future + [Output=()]" in key):
            continue
        for s in ent["sources"]:
            pc = fx.fn(s.get("def") or "")
            if pc is None:
                continue
            n_pl += 1
            fam = [pc] + fx.descendants(pc["def"])
            hs = []
            for g in fam:
                gb = ctx.body(fx, g)
                for bi, t in gb.normal_calls():
                    if t.get("trait") == loops.T_H and (t.get("callee") or "").endswith("::handle"):
                        hs.append((g, gb, t))
            inst = "payload:%s@%s" % (pc["def"], cfg)
            is_ping = "::ping::" in pc["def"] or loops.is_ping_payload(fx, pc["def"])
            if is_ping:
                ctx.require(not hs, RULE, inst, "ping must not run a handler", fn=pc["def"], site=pc["loc"])
                continue
            if not ctx.require(len(hs) == 1, RULE, inst, "a message payload must invoke Handler::handle exactly once, found %d sites" % len(hs), fn=pc["def"], site=pc["loc"]):
                continue
            g, gb, t = hs[0]
            # in the payload closure itself: actor = arg 2, ctx = arg 3; in a nested coroutine they arrive as captures
            ra = roots(gb, t["args"][0])
            rc = roots(gb, t["args"][1])
            rm = roots(gb, t["args"][2])
            if g["def"] == pc["def"]:
                ok = all(r.kind == "arg" and r.site == 2 for r in ra) and all(r.kind == "arg" and r.site == 3 for r in rc) and all(r.kind == "upvar" for r in rm)
            else:
                ok = all(r.kind == "upvar" for r in ra | rc | rm) and len({r.site for r in ra | rc | rm}) == 3
            ctx.require(ok, RULE, inst, "the payload must run the handler on the loop's actor and context with its own message: actor %s ctx %s msg %s" % (sorted(map(str, ra)), sorted(map(str, rc)), sorted(map(str, rm))), fn=g["def"], site=t["l"])
            HA = nfa.Alphabet(calls=[("handle", lambda x: x.get("trait") == loops.T_H and (x.get("callee") or "").endswith("::handle"))])
            hn = nfa.build(gb, HA)
            hv, hps = nfa.check(hn, _HandlerOnAllPaths())
            ctx.count_nfa(hn.stats(), hps)
            for v in hv:
                ctx.viol(RULE, inst + ":handler-on-all-paths", v["msg"], fn=g["def"], site=t["l"], trace=v["trace"])
            if not hv:
                ctx.ok(RULE, inst + ":handler-on-all-paths", t["l"], None)
            # the handler future is the payload's future: returned boxed or awaited inside it
            fsk = sinks(gb, t["dest"][0])
            ok2 = any(x["k"] == "ret" for x in fsk) or any(x["k"] == "call" and (x["t"].get("callee") or "").endswith("Future::poll") for x in fsk)
            ctx.require(ok2, RULE, inst + ":drives-handler", "the handler future is neither returned as the payload's future nor awaited in it", fn=g["def"], site=t["l"])
    ctx.floor(RULE, "payload closures (%s)" % cfg, n_pl, 3)  # call, ping and at least one send-style closure (the send-style ones may share a constructor)


def check_single_queue(ctx, fx, cfg, r1="R01.1", r2="R01.2"):
    """one mpsc queue per actor, created in the two constructors; the waiting, forcing and receive closures hold ends of
    that one channel (shared by the properties whose ordering argument rests on the single FIFO)"""
    # R01.1 one queue
    ctors = chan.constructors(fx)
    ctx.floor(r1, "mailbox queue constructors (%s)" % cfg, len(ctors), 2)
    for fn_, calls in sorted(ctors.items()):
        f = fx.fn(fn_)
        ok = len(calls) == 1 and f["kind"] in ("assoc_fn", "fn") and f.get("impl_self", "").startswith("channel::Channel<")
        ctx.require(ok, r1, "ctor:%s@%s" % (fn_, cfg), "the mailbox queue must be created once, in a constructor of channel::Channel (a second queue breaks the single FIFO)", fn=fn_, site=calls[0][1]["l"], detail={"calls": len(calls)})
    ctx.require(len(ctors) == 2, r1, "ctor-count@" + cfg, "expected exactly the bounded and the unbounded constructor, found %s" % sorted(ctors), detail=sorted(ctors))
    # R01.2 the three closures of each constructor hold ends of that one channel
    subs = chan.submit_closures(fx)
    n_pairs = 0
    for fn_, calls in sorted(ctors.items()):
        f = fx.fn(fn_)
        b = ctx.body(fx, f)
        chan_bb = calls[0][0]
        kinds = []

        def end_of(o):
            """(all roots are the one channel call, set of tuple fields of its result that reach the operand)"""
            rs = roots(b, o)
            good = bool(rs) and all(r.kind.startswith("call:futures_channel::mpsc::") and r.site == (chan_bb,) for r in rs)
            # the projection (which end) is visible on the un-expanded origins
            ends = set()
            for r0 in b.origins(o):
                if r0.kind == "call" and r0.site == (chan_bb,):
                    ends.add(r0.proj[0] if r0.proj else None)
                elif r0.kind == "call":
                    t0 = b.call_at(r0)
                    for r1 in (b.origins(t0["args"][0]) if t0["args"] else []):
                        if r1.kind == "call" and r1.site == (chan_bb,):
                            ends.add(r1.proj[0] if r1.proj else None)
            return good, ends, rs

        def role_of(body_, local):
            """which trait object the literal in `local` becomes (follows moves, Arc::new / Box::new / Pin::new and the
            unsizing cast): 'waiting' | 'forcing' | 'receive' | None — one named type may implement both submit traits"""
            seen, work = set(), [local]
            while work:
                l = work.pop()
                if l in seen:
                    continue
                seen.add(l)
                for blk in body_.blocks:
                    if blk["c"]:
                        continue
                    for st in blk["s"]:
                        if st["k"] != "assign" or len(st["p"]) != 1:
                            continue
                        r = st["r"]
                        o = r.get("o") if r["k"] in ("use", "cast") else None
                        if o and o.get("k") in ("move", "copy") and o["p"] == [l]:
                            if r["k"] == "cast" and "dyn " in (r.get("to") or ""):
                                to = r["to"]
                                if "dyn channel::TxFn<" in to:
                                    return "waiting"
                                if "dyn channel::ForceTxFn<" in to:
                                    return "forcing"
                                if "dyn core::ops::function::FnMut<(&mut core::task::wake::Context,)>" in to:
                                    return "receive"
                            work.append(st["p"][0])
                    tt = blk["t"]
                    if tt["k"] == "call" and (tt.get("callee") or "").endswith("::new") and (tt.get("callee") or "").startswith(("alloc::sync::", "alloc::boxed::", "core::pin::")) and tt["args"] and tt["args"][0].get("k") in ("move", "copy") and tt["args"][0]["p"] == [l] and len(tt["dest"]) == 1:
                        work.append(tt["dest"][0])
            return None

        def closures_in(body_, resolve, tyof=None):
            """submit / receive closures built in body_; resolve(operand of body_) -> (good, ends, roots) in the constructor"""
            lits = list(agg_sites(body_, ak="closure")) + [x for x in agg_sites(body_, ak="adt") if any(cf and cf.get("_adt") == x[2]["r"].get("def") for _k, cf, _ in subs)]
            for bi, si, st in lits:
                cdef = st["r"]["def"]
                kind = [k for k, cf, _ in subs if cf and (cf["def"] == cdef or cf.get("_adt") == cdef)]
                if not kind:
                    continue
                if len(set(kind)) > 1:
                    # one type behind both submit traits: the role of this literal is the trait object it is turned into
                    rl = role_of(body_, st["p"][0]) if len(st["p"]) == 1 else None
                    kind = [rl] if rl in kind else kind
                kinds.append(kind[0])
                for o in st["r"]["ops"]:
                    if o["k"] not in ("copy", "move"):
                        continue
                    ty = body_.locals[o["p"][0]]["ty"]
                    if "futures_channel::mpsc::" not in ty and tyof is not None:
                        ty = tyof(o) or ty  # a generic helper: the type the constructor passes for this parameter
                    if "futures_channel::mpsc::" not in ty:
                        continue
                    want = "f1" if "Receiver<" in ty else "f0"
                    good, ends, rs = resolve(o)
                    ctx.require(good and ends == {want}, r2, "%s-closure:%s@%s" % (kind[0], fn_, cfg), "a submit / receive closure holds an end of a different channel (ends %s, roots %s)" % (ends, sorted(map(str, rs))), fn=fn_, site=st.get("l"), detail={"captures": ty[:70], "end": sorted(map(str, ends))})

        closures_in(b, end_of)
        # the receive side may be the receiver itself, erased to a boxed `dyn Stream<Item = Payload<A>>` (no closure)
        for blk_ in b.blocks:
            for st_ in blk_["s"] if not blk_["c"] else []:
                r_ = st_["r"] if st_["k"] == "assign" else {}
                if r_.get("k") == "cast" and "dyn futures_core::stream::Stream" in (r_.get("to") or "") and loops.PAYLOAD + "<" in r_["to"] and r_["o"].get("k") in ("move", "copy"):
                    good, ends, rs = end_of(r_["o"])
                    if "receive" not in kinds:  # the coercion may be spelled in two steps (Box -> Pin<Box> -> dyn)
                        kinds.append("receive")
                    ctx.require(good and ends == {"f1"}, r2, "receive-closure:%s@%s" % (fn_, cfg), "the receive side holds an end of a different channel (ends %s, roots %s)" % (ends, sorted(map(str, rs))), fn=fn_, site=st_.get("l"))
        # a closure may be built by a private helper of the constructor that is given the channel end as an argument
        helpers = graph.private_helpers(fx, set(ctors))
        for hbi, ht in b.normal_calls():
            h = fx.fn(ht.get("callee") or "")
            if h is None or h["def"] not in helpers:
                continue
            hb = ctx.body(fx, h)

            def via_helper(o, _hb=hb, _ht=ht):
                hr = roots(_hb, o)
                if not hr or not all(r.kind == "arg" and not r.proj for r in hr):
                    return False, set(), hr
                good, ends, rs = True, set(), set()
                for r in hr:
                    g2, e2, r2_ = end_of(_ht["args"][r.site - 1])
                    good, ends, rs = good and g2, ends | e2, rs | r2_
                return good, ends, rs

            def arg_ty(o, _hb=hb, _ht=ht):
                hr = roots(_hb, o)
                tys = {_ht["argtys"][r.site - 1] for r in hr if r.kind == "arg" and not r.proj and r.site - 1 < len(_ht["argtys"])}
                return next(iter(tys)) if len(tys) == 1 else None

            closures_in(hb, via_helper, arg_ty)
        n_pairs += len(kinds)
        ctx.require(sorted(kinds) == ["forcing", "receive", "waiting"], r2, "closure-set:%s@%s" % (fn_, cfg), "constructor must build exactly one waiting, one forcing and one receive closure, found %s" % sorted(kinds), fn=fn_, site=f["loc"])
    ctx.floor(r2, "submit/receive closures built by the constructors (%s)" % cfg, n_pairs, 6)
    return ctors, subs


def check_dequeue_discipline(ctx, fx, cfg, RULE, families):
    """each loop takes a payload out of the mailbox at one site and dispatches it before it takes the next (shared with
    C12 as L8 alone: a receiving side that looks ahead holds a payload outside the queue, which adds to its capacity)"""
    res = run_loops(ctx, fx, RULE, families)
    for f, kind, b, n in res:
        fam = loops.loop_family(fx, f)
        deq = []
        for g in fam:
            gb = ctx.body(fx, g)
            deq += [t["l"] for _, t in gb.normal_calls() if loops.is_mailbox_next(t)]
        ctx.require(len(deq) == 1, RULE, "%s-loop-one-dequeue-site@%s" % (kind, cfg), "expected exactly one dequeue site per loop, found %s" % deq, fn=f["def"], site=f["loc"], detail=deq)
    return res


def check_cfg(ctx, fx, cfg):
    ctors, subs = check_single_queue(ctx, fx, cfg)
    # R01.3 enqueue before return
    A = nfa.Alphabet(calls=[("enq", chan.is_enqueue)], adts={"core::ops::control_flow::ControlFlow": "Res", "core::result::Result": "Res"}, retval=True)
    n_sub = 0
    for kind, cf, key in subs:
        if cf is None or kind == "receive":
            continue
        n_sub += len(chan.concrete_instances(fx, cf))  # a closure shared through a generic helper counts once per instantiation
        inst = "%s:%s@%s" % (kind, cf["def"], cfg)
        if kind == "forcing":
            b = ctx.body(fx, cf)
            n = nfa.build(b, A, fx)
            viols, ps = nfa.check(n, EnqueueOnce(False))
            ctx.count_nfa(n.stats(), ps)
            for v in viols:
                ctx.viol("R01.3", inst, v["msg"], fn=cf["def"], site=cf["loc"], trace=v["trace"])
            if not viols:
                ctx.ok("R01.3", inst, cf["loc"], {"words": [" ".join(w) for w in nfa.words(n, limit=3)]})
            check_enq_operands(ctx, fx, cf, b, inst, payload_from="arg")
        else:
            # the closure must hand its payload to exactly one coroutine which it returns; that coroutine enqueues and awaits
            b = ctx.body(fx, cf)
            cos = list(agg_sites(b, ak="coroutine"))
            if not ctx.require(len(cos) == 1, "R01.3", inst, "waiting closure must build exactly one future", fn=cf["def"], site=cf["loc"]):
                continue
            bi, si, st = cos[0]
            sk = sinks(b, st["p"][0])
            returned = any(s["k"] == "ret" for s in sk)
            spawned = [s for s in sk if s["k"] == "call" and not (s["t"].get("callee") or "").startswith(("alloc::boxed::", "core::pin::"))]
            ctx.require(returned and not spawned, "R01.3", inst + ":returns-its-future", "the waiting closure must return the enqueueing future to the caller (not spawn / drop it): sinks %s" % [(s["k"], s.get("t", {}).get("callee")) for s in sk], fn=cf["def"], site=st.get("l"))
            co = fx.fn(st["r"]["def"])
            cb = ctx.body(fx, co)
            n = nfa.build(cb, A, fx)
            viols, ps = nfa.check(n, EnqueueOnce(True))
            ctx.count_nfa(n.stats(), ps)
            for v in viols:
                ctx.viol("R01.3", inst, v["msg"], fn=co["def"], site=co["loc"], trace=v["trace"])
            if not viols:
                ctx.ok("R01.3", inst, co["loc"], {"words": [" ".join(w) for w in nfa.words(n, limit=3)]})
            check_enq_operands(ctx, fx, co, cb, inst, payload_from="upvar")
    ctx.floor("R01.3", "submit closures (%s)" % cfg, n_sub, 4)
    # R01.4 payloads go to the submit closure of the addressed actor only
    pctors = loops.payload_ctors(fx)
    ppairs = loops.payload_pair_ctors(fx)
    own_default = {(g_["def"], st_.get("l")) for g_, _bi, st_ in loops.closed_as_stop_sites(fx)}
    n_sites = 0
    for f in fx.d["fns"]:
        b = ctx.body(fx, f)
        sites = []
        if f["def"] in pctors or f["def"] in ppairs:
            continue  # a constructor hands its payload back; the sites that call it are judged
        for bi, t in b.normal_calls():
            if (t.get("resolved") or t.get("callee") or "") in pctors:
                sites.append(("task", t["dest"][0], t["l"]))
            elif (t.get("resolved") or t.get("callee") or "") in ppairs:
                # the payload is one field of the pair the constructor returns: the local it is moved into
                fld = ppairs[(t.get("resolved") or t.get("callee"))]
                parts = [l_ for l_, defs_ in b.assigns.items() for (_x, _y, st_) in defs_ if st_["r"]["k"] == "use" and st_["r"]["o"].get("k") in ("move", "copy") and st_["r"]["o"]["p"] == [t["dest"][0], fld]]
                if len(parts) == 1:
                    sites.append(("task", parts[0], t["l"]))
                else:
                    sites.append(("task", t["dest"][0], t["l"]))
        for bi, si, st in agg_sites(b, adt=loops.PAYLOAD):
            if (f["def"], st.get("l")) in own_default:
                continue  # the event loop's own reading of a closed mailbox (`dequeued.unwrap_or(Payload::Stop)`)
            if st["r"].get("variant") in ("Stop", "Restart") and f["def"] not in pctors:
                sites.append((st["r"]["variant"], st["p"][0], st.get("l")))
        for kind, local, loc in sites:
            n_sites += 1
            inst = "%s in %s@%s" % (kind, f["def"], cfg)
            sk = graph.value_sinks(fx, b, local)
            calls = [s for s in sk if s["k"] == "call"]
            other = [s["k"] for s in sk if s["k"] in ("agg", "store", "ret", "yield")]
            ok = len(calls) == 1 and calls[0]["t"].get("trait") in (chan.FORCE_TRAIT, chan.TX_TRAIT) and calls[0]["idx"] == 1 and not other
            if not ok and not calls and other == ["ret"] and f["kind"] == "closure":
                # the payload is the result of a closure that is given to a helper which invokes it and submits what it
                # returns in place (`self.request(|tx| Payload::task(..))` with `send(into_task(tx))` inside)
                via = payload_closure_submitted(ctx, fx, f)
                if via is not None:
                    n_sites -= 0
                    ctx.ok("R01.4", inst, loc, {"submitted_by": via})
                    continue
            if not ctx.require(ok, "R01.4", inst, "a payload must be handed to the submit closure in place: flows to %s %s" % ([(s["t"].get("callee"), s["idx"]) for s in calls], other), fn=f["def"], site=loc):
                continue
            t = calls[0]["t"]
            if calls[0].get("fn") and calls[0]["fn"] != b.name and fx.fn(calls[0]["fn"]):
                # the submission sits in a helper the payload was handed to: judge it there
                b = ctx.body(fx, fx.fn(calls[0]["fn"]))
            rs = roots(b, t["args"][0])
            ctx.require(all(r.kind in ("arg", "upvar") for r in rs), "R01.4", inst + ":own-channel", "the payload is submitted to a channel that is not the handle's own: %s" % sorted(map(str, rs)), fn=f["def"], site=t["l"])
            if t.get("trait") == chan.TX_TRAIT:
                # the waiting future must be awaited here or returned
                fsk = sinks(b, t["dest"][0])
                awaited = any(s["k"] == "call" and (s["t"].get("callee") or "").endswith("Future::poll") for s in fsk)
                returned = any(s["k"] == "ret" for s in fsk)
                bad = [s for s in fsk if s["k"] == "call" and not (s["t"].get("callee") or "").endswith(("Future::poll", "get_context"))]
                ctx.require((awaited or returned) and not bad, "R01.4", inst + ":send-future-driven", "the future of a waiting send is neither awaited in place nor returned to the caller (it would enqueue later or never)", fn=f["def"], site=t["l"], detail={"awaited": awaited, "returned": returned})
                if awaited and not returned:
                    # ... and on every path: no return between the creation of the future and its completion
                    WA = nfa.Alphabet(calls=[("wsend", lambda x: x.get("trait") == chan.TX_TRAIT)], adts={"core::ops::control_flow::ControlFlow": "Res", "core::result::Result": "Res"}, retval=True)
                    wn = nfa.build(b, WA)
                    wv, wps = nfa.check(wn, AwaitBeforeReturn())
                    ctx.count_nfa(wn.stats(), wps)
                    for v in wv:
                        ctx.viol("R01.4", inst + ":send-future-driven-on-all-paths", v["msg"], fn=f["def"], site=t["l"], trace=v["trace"])
                    if not wv:
                        ctx.ok("R01.4", inst + ":send-future-driven-on-all-paths", t["l"], {"nfa": wn.stats()})
    ctx.floor("R01.4", "payload construction sites (%s)" % cfg, n_sites, 5)  # call, ping, a send, Stop, Restart at least
    # R01.5 loops
    res = check_dequeue_discipline(ctx, fx, cfg, "R01.5", {"L7", "L8"})

    for f, kind, b, n in res:
        inv3 = loops.task_invokes(fx, b)
        inv_body = b
        if not inv3:
            # the invocation may sit in a helper the loop awaits, which is lent the loop's actor and context
            for g in loops.loop_family(fx, f)[1:]:
                gi = loops.task_invokes(fx, ctx.body(fx, g))
                if gi:
                    inv_body = ctx.body(fx, g)
                    ok_args = False
                    for _hbi, ht in b.normal_calls():
                        h = fx.fn(ht.get("resolved") or "") or fx.fn(ht.get("callee") or "")
                        if h is not None and (g["def"] == h["def"] or g.get("parent") == h["def"]):
                            tys = ht.get("argtys", [])
                            ok_args = ok_args or (("&mut A" in tys or "A" in tys) and "&mut context::Context<A>" in tys)
                    inv3 += [(x, y, z and ok_args) for x, y, z in gi]
        inv = [t for _bi, t, _ok in inv3]
        ok = len(inv3) == 1 and inv3[0][2]
        ctx.require(ok, "R01.5", "%s-loop-one-invoke-site@%s" % (kind, cfg), "expected exactly one task invocation with (&mut actor, &mut ctx)", fn=f["def"], site=inv[0]["l"] if inv else f["loc"], detail=[t["argtys"] for t in inv])
        # the handler future must not escape: it is awaited directly or handed to the local wrapper whose future is awaited
        if inv:
            fsk = sinks(inv_body, inv[0]["dest"][0])
            esc = [s for s in fsk if s["k"] == "call" and not ((s["t"].get("callee") or "").endswith(("Future::poll", "get_context")) or loops.local_wrapper(s["t"]))] + [s for s in fsk if s["k"] in ("agg", "store", "ret")]
            ctx.require(not esc, "R01.5", "%s-loop-handler-future-local@%s" % (kind, cfg), "the handler future escapes the loop iteration (spawned / stored): %s" % [(s["k"], s.get("t", {}).get("callee")) for s in esc], fn=f["def"], site=inv[0]["l"])
    # R01.10 the only sanctioned way a dequeued handler is not run to completion is the timeout wrapper; it must follow its
    # protocol (timer armed per invocation with the configured limit, nothing abandoned without a limit) — shared with C11
    from props import c11
    for f, kind, b, n in res:
        if kind != "plain":
            continue
        wraps = [(bi, t) for g in loops.loop_family(fx, f) if g["kind"] == "coroutine" for bi, t in ctx.body(fx, g).normal_calls() if loops.local_wrapper(t)]
        if ctx.require(len(wraps) == 1, "R01.10", "wrapper-site@" + cfg, "expected exactly one timeout wrapper call in the plain loop", fn=f["def"], site=f["loc"]):
            wco = [c for c in fx.children_of(wraps[0][1]["callee"]) if c["kind"] == "coroutine"]
            if ctx.require(len(wco) == 1, "R01.10", "wrapper-body@" + cfg, "body of the timeout wrapper not found", fn=f["def"], site=f["loc"]):
                before = len(ctx.violations)
                c11.check_wrapper(ctx, fx, wco[0], c11.wrapper_sig(fx, wraps[0][1]) or (0, 1, "option", -1))
                # re-key what the shared rule reported under this property's rule id
                for v in ctx.violations[before:]:
                    v["rule"] = "R01.10"
                    v["key"] = "%s/R01.10/%s" % (ctx.prop, v["instance"])
    # R01.13 (shared with C07) "the state seen by later messages is the sequential fold of exactly the handled messages": the loop hands
    # its actor to the restart strategy only for a dequeued Restart request — a refresh on any other path (after a timed-out task, say)
    # replaces or re-initialises the state behind the back of the messages already answered
    run_loops(ctx, fx, "R01.13", {"L10"}, kinds=("plain",))
    # R01.11 the queue the builder created is the one the environment runs on: terminals hand their Channel over unmodified
    if cfg != "bare":
        n_t = 0
        _prim, _ctors = loops.env_ctors(fx)
        ctx.require(_prim is not None, "R01.11", "environment-constructor@" + cfg, "the function that builds the Environment from a Channel was not found")
        for g, bi_, t_ in graph.all_calls(fx, lambda x: x.get("callee") in _ctors):
            gb = ctx.body(fx, g)
            rs = roots(gb, t_["args"][_ctors[t_["callee"]]])
            n_t += 1
            def _made_here(r):
                if r.kind == "arg" or r.kind.startswith("call:channel::Channel::<A>::"):
                    return True
                # one of the two constructors, picked by an Option (`capacity.map_or_else(Channel::unbounded, Channel::bounded)`)
                if r.kind.startswith("call:core::option::{impl#0}::map"):
                    ct = gb.blocks[r.site[0]]["t"]
                    fns_ = [a.get("fn") for a in ct["args"][1:] if a.get("k") == "const"]
                    return len(fns_) == len(ct["args"]) - 1 and all((x or "").startswith("channel::Channel::<A>::") for x in fns_)
                return False
            okc = bool(rs) and all(_made_here(r) for r in rs)
            ctx.require(okc, "R01.11", "channel-handed-over:%s@%s" % (g["def"], cfg), "the channel the loop runs on is not the one created for this actor (roots %s)" % sorted(map(str, rs)), fn=g["def"], site=t_["l"])
        # every caller is judged; the floor only guards against the constructor having been renamed away (the count itself
        # changes when terminals share a helper): the environment's own two constructors + at least one builder path
        ctx.floor("R01.11", "callers of the environment constructor (%s)" % cfg, n_t, 3)
    # R01.12 a submission API answers Ok only for a message it has itself put into the mailbox (a call / ping that rides on
    # somebody else's submission is answered from that submission's queue position: program order of the caller is lost)
    from props.c04 import check_submit_on_ok
    SUBMITTERS = ["addr::Addr::<A>::call", "addr::Addr::<A>::ping", "addr::Addr::<A>::send", "addr::Addr::<A>::force_send"]
    for e in SUBMITTERS:
        if fx.fn(e) is None:
            ctx.viol("R01.12", "exists:%s@%s" % (e, cfg), "submission API %s not found" % e)
            continue
        check_submit_on_ok(ctx, fx, "R01.12", e, set(), any_path=True)
    # R01.6 types
    pa = fx.adts.get(loops.PAYLOAD)
    if ctx.require(pa is not None, "R01.6", "payload-type@" + cfg, "environment::payload::Payload not found"):
        task = [v for v in pa["variants"] if v["name"] == "Task"]
        ty = task[0]["fields"][0]["ty"] if task and task[0]["fields"] else ""
        # look through crate-local single-field newtypes (`struct Task<A>(TaskFn<A>)`)
        for _ in range(3):
            inner = fx.adts.get(ty.split("<")[0])
            if inner and len(inner["variants"]) == 1 and len(inner["variants"][0]["fields"]) == 1:
                ty = inner["variants"][0]["fields"][0]["ty"]
            else:
                break
        want = "alloc::boxed::Box<dyn core::ops::function::FnOnce<(&mut A, &mut context::Context<A>)> + [Output=core::pin::Pin<alloc::boxed::Box<dyn core::future::future::Future + [Output=()] + core::marker::Send"
        tt_ = loops.task_trait(fx)
        ctx.require(ty.startswith(want) or (tt_ is not None and ty.startswith("alloc::boxed::Box<dyn %s<" % tt_[0])), "R01.6", "task-is-boxed-FnOnce@" + cfg, "Payload::Task must hold a boxed FnOnce(&mut A, &mut Context<A>) -> boxed future: %s" % ty[:120], site=pa["loc"], detail=ty[:160])
        clones = [i for i in fx.d["impls"] if i.get("trait") in ("core::clone::Clone", "core::marker::Copy") and i["self"].startswith(loops.PAYLOAD + "<")]
        ctx.require(not clones, "R01.6", "payload-not-clone@" + cfg, "Payload implements Clone/Copy: a message could be duplicated", site=pa["loc"])
        ctx.require(sorted(v["name"] for v in pa["variants"]) == ["Restart", "Stop", "Task"], "R01.6", "payload-variants@" + cfg, "Payload variants changed: %s" % [v["name"] for v in pa["variants"]], site=pa["loc"])
    for f, kind in loops.find_loops(fx):
        ctx.require("A" in f.get("upvars", []), "R01.6", "%s-loop-owns-actor-by-value@%s" % (kind, cfg), "the loop future must own the actor value itself (type A), found captures %s" % [u[:40] for u in f.get("upvars", [])], fn=f["def"], site=f["loc"])
    # R01.9 the future of every waiting submission is driven where it is created (or handed to the caller): a spawned or
    # parked send would enqueue later — after submissions that began after this one returned
    WAITING_FUTS = ("addr::sender::SenderFn::send", "addr::sender::Sender::<M>::send", "addr::caller::CallerFn::call", "addr::caller::Caller::<M>::call",
                    "addr::Addr::<A>::send", "addr::Addr::<A>::call", "addr::Addr::<A>::ping", "addr::weak_sender::WeakSender::<M>::try_send", "addr::weak_caller::WeakCaller::<M>::try_call",
                    "addr::OwningAddr::<A>::send", "addr::OwningAddr::<A>::call", "addr::OwningAddr::<A>::ping")
    n_wf = 0
    for f in fx.d["fns"]:
        b = ctx.body(fx, f)
        for bi, t in b.normal_calls():
            c = t.get("callee")
            if c not in WAITING_FUTS and t.get("trait") != chan.TX_TRAIT:
                continue
            if len(t["dest"]) != 1:
                continue
            n_wf += 1
            inst = "%s<-%s@%s" % (f["def"], (c or "").split("::")[-2:], cfg)
            inst = "%s<-%s@%s" % (f["def"], "::".join((c or "").split("::")[-2:]), cfg)
            fsk = sinks(b, t["dest"][0])
            awaited = any(s["k"] == "call" and (s["t"].get("callee") or "").endswith("Future::poll") for s in fsk)
            returned = any(s["k"] == "ret" for s in fsk) or t["dest"] == [0]
            stray = [(s["t"].get("callee")) for s in fsk if s["k"] == "call" and not (s["t"].get("callee") or "").endswith(("Future::poll", "get_context"))] + [s["k"] for s in fsk if s["k"] in ("agg", "store", "yield")]
            ok = (awaited or returned) and not stray
            if ok and awaited and not returned:
                lab = "wf%d" % bi
                WA = nfa.Alphabet(calls=[(lab, lambda x, _t=t: x is _t)], retval=False)
                wn = nfa.build(b, WA)
                spec = AwaitBeforeReturn()
                spec.lab = lab
                wv, wps = nfa.check(wn, _AwaitLab(lab))
                ctx.count_nfa(wn.stats(), wps)
                ok = not wv
            ctx.require(ok, "R01.9", inst, "the future of a waiting submission must be awaited in place on every path, or returned to the caller — not spawned, stored or dropped (stray uses: %s)" % stray, fn=f["def"], site=t["l"])
    # counted by hand: 17 with a runtime (11 handle-level submissions + 2 timers + 4 broker), 11 without (timers and broker are gated)
    ctx.floor("R01.9", "waiting-submission futures (%s)" % cfg, n_wf, 6 if cfg == "bare" else 8)
    check_payloads(ctx, fx, cfg, "R01.8")
    # R01.7 unsafe
    u = fx.d["unsafe"]
    ctx.require(u["lint_level"] == "Forbid" and u["count"] == 0, "R01.7", "unsafe-free@" + cfg, "unsafe code present or not forbidden: %s" % u, site="Cargo.toml [lints.rust]", detail=u)


def payload_closure_submitted(ctx, fx, clo):
    """closure `clo` returns a payload; every place that creates it hands it to a crate-local function that invokes that
    parameter and passes the result straight to a submit closure of its own channel. Returns the helper's name or None."""
    parent = fx.fn(clo.get("parent") or "")
    if parent is None:
        return None
    pb = ctx.body(fx, parent)
    helper = None
    for _bi, _si, st in agg_sites(pb, ak="closure"):
        if st["r"].get("def") != clo["def"]:
            continue
        sk = [s for s in sinks(pb, st["p"][0], into_closures=False) if s["k"] != "drop"]
        if len(sk) != 1 or sk[0]["k"] != "call":
            return None
        h = fx.callee_fn(sk[0]["t"])
        if h is None:
            return None
        hb = ctx.body(fx, h)
        k = sk[0]["idx"] + 1
        inv = [t for _b2, t in hb.normal_calls() if (t.get("callee") or "").endswith(("FnOnce::call_once", "FnMut::call_mut", "Fn::call")) and all(o.kind == "arg" and o.site == k and not o.proj for o in hb.origins(t["args"][0])) and hb.origins(t["args"][0])]
        if len(inv) != 1 or len(inv[0]["dest"]) != 1:
            return None
        ps = [s for s in sinks(hb, inv[0]["dest"][0]) if s["k"] != "drop"]
        if len(ps) != 1 or ps[0]["k"] != "call" or ps[0]["t"].get("trait") not in (chan.FORCE_TRAIT, chan.TX_TRAIT) or ps[0]["idx"] != 1:
            return None
        if not all(r.kind in ("arg", "upvar") for r in roots(hb, ps[0]["t"]["args"][0])):
            return None
        helper = h["def"]
    return helper


def check_enq_operands(ctx, fx, f, b, inst, payload_from):
    for bi, t in b.normal_calls():
        if not chan.is_enqueue(t):
            continue
        rs_tx = roots(b, t["args"][0])
        rs_pl = roots(b, t["args"][1])
        if f.get("_adt"):
            # the method of a named submit object: the sender is a field of `self`, the payload the second parameter
            ok_tx = bool(rs_tx) and all(r.kind == "arg" and r.site == 1 for r in rs_tx)
            ok_pl = bool(rs_pl) and all(r.kind == "arg" and r.site == 2 for r in rs_pl)
        else:
            ok_tx = all(r.kind == "upvar" for r in rs_tx)
            ok_pl = all(r.kind == ("arg" if payload_from == "arg" else "upvar") for r in rs_pl)
        ctx.require(ok_tx and ok_pl, "R01.3", inst + ":operands", "the enqueue must put the submitted payload into the captured sender: sender roots %s payload roots %s" % (sorted(map(str, rs_tx)), sorted(map(str, rs_pl))), fn=f["def"], site=t["l"])
