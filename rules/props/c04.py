"""C04 — stop is a drain barrier; termination is announced after stopped()."""
import core, nfa, loops, graph
from mir import Body, sinks, agg_sites
from props.c03 import run_loops

EXPL = ("Wiring + trace conformance: (R04.1) every Payload::Stop marker constructed in the crate flows only into "
        "ForceTxFn::send of the addressed actor (same queue as messages, never the waiting path) and every stop entry "
        "point reaches such a site before its first await; (R04.5) that queue is the actor's one FIFO: the waiting, forcing and receive closures hold ends of the same channel; (R04.2) from the Stop / closed-mailbox edge of both loops no "
        "dequeue or handler is reachable; (R04.3) StopNotifier::notify occurs only after the completed stopped(), once, "
        "followed only by the Ok return, never on a failure path; (R04.4) the awaiting APIs (Addr as Future, halt, "
        "try_halt, consume, consume_sync, join) observe exactly that notifier / task result and request the stop first.")

STOP_ENTRIES = [
    "addr::Addr::<A>::stop",
    "addr::Addr::<A>::halt",
    "addr::weak_addr::WeakAddr::<A>::try_stop",
    "addr::weak_addr::WeakAddr::<A>::try_halt",
    "context::Context::<A>::stop",
    "addr::OwningAddr::<A>::consume",
    "addr::OwningAddr::<A>::consume_sync",
]
FORCE_TRAIT = "channel::ForceTxFn"
TX_TRAIT = "channel::TxFn"


def marker_sites(fx, variant):
    """(fn, bb, stmt) constructing Payload::<variant>"""
    out = []
    # (a Stop literal that is an event loop's own default for a closed mailbox is not a request being submitted)
    own_default = {(g["def"], st_.get("l")) for g, _bi, st_ in loops.closed_as_stop_sites(fx)} if variant == "Stop" else set()
    for f in fx.d["fns"]:
        b = Body(f)
        for bi, si, st in agg_sites(b, adt=loops.PAYLOAD, variant=variant):
            if (f["def"], st.get("l")) in own_default:
                continue
            out.append((f, b, bi, si, st))
    return out


VIA_HELPERS = set()  # crate-local helpers through which a good marker site hands its marker to the forcing closure


def check_marker_flow(ctx, fx, rule, variant, floor):
    sites = marker_sites(fx, variant)
    ctx.floor(rule, "Payload::%s construction sites" % variant, len(sites), floor)
    good_fns = set()
    for f, b, bi, si, st in sites:
        lhs = st["p"]
        sk = graph.value_sinks(fx, b, lhs[0])
        calls = [s for s in sk if s["k"] == "call"]
        bad = [s for s in sk if s["k"] in ("agg", "store", "ret", "yield")]
        inst = "%s:%s" % (variant, f["def"])
        ok = len(calls) == 1 and calls[0]["t"].get("trait") == FORCE_TRAIT and calls[0]["idx"] == 1 and not bad
        if ok:
            ctx.ok(rule, inst, st.get("l"), {"flows_to": calls[0]["t"]["callee"], "self_ty": calls[0]["t"].get("self_ty"), "via": calls[0].get("via")})
            good_fns.add(f["def"])
            VIA_HELPERS.update(calls[0].get("via") or [])
        else:
            where = [(s["t"].get("callee"), s["idx"]) for s in calls] + [s["k"] for s in bad]
            ctx.viol(rule, inst, "the %s marker must be handed to the forcing submit closure (ForceTxFn::send) and nowhere else; it flows to %s" % (variant, where), fn=f["def"], site=st.get("l"))
    return good_fns


def entry_hit(ctx, fx, e, marker_fns, entries, what="Stop"):
    """the entry's own code (async fn: its coroutine) must, before its first suspension, either construct the marker and hand it
    to the forcing closure, or call a function that does (another entry point, a helper on the same handle, a provided
    method of the forcing trait)"""
    fam = graph.family(fx, e)
    code = [f for f in fam if f["kind"] == "coroutine"] or [fam[0]]
    hit = None
    for f in code:
        b = ctx.body(fx, f)
        pre = first_await_or_end(b)
        for bi in sorted(pre):
            t = b.term(bi)
            if t["k"] != "call":
                continue
            c = t.get("resolved") or t.get("callee")
            if t.get("trait") == FORCE_TRAIT and f["def"] in marker_fns:
                hit = (f["def"], t["l"], "ForceTxFn::send(Payload::%s)" % what)
            elif (c in VIA_HELPERS or t.get("callee") in VIA_HELPERS) and f["def"] in marker_fns:
                hit = (f["def"], t["l"], "hands Payload::%s to the forcing closure through %s" % (what, c))
            elif c in marker_fns or (t.get("callee") in marker_fns):
                hit = (f["def"], t["l"], "calls " + c)
            elif c in entries and c != e:
                hit = (f["def"], t["l"], "calls " + c)
            else:
                # a synchronous helper on the same handle that requests the stop (`self.stop_and_join()?`)
                h = fx.callee_fn(t)
                if h is not None and h["kind"] in ("fn", "assoc_fn") and not h.get("is_async") and h["def"] not in entries:
                    for _hb, ht in ctx.body(fx, h).normal_calls():
                        hc = ht.get("resolved") or ht.get("callee")
                        if hc in marker_fns or ht.get("callee") in marker_fns or (hc in entries and hc != e):
                            hit = (f["def"], t["l"], "calls %s, which calls %s" % (c, hc))
            if hit:
                break
        if hit:
            break
    return hit


class SubmitOnOk(nfa.Spec):
    """a stop / restart entry point reports Ok only after its marker was accepted by the forcing closure (or by the entry
    point it delegates to); a path that answers Ok without submitting silently drops the request"""
    init = ("none",)

    def step(self, st, label):
        label = loops.norm(label)
        ev = label.split("@")[0]
        src = label.split("@")[1] if "@" in label else ""
        ph = st[0]
        if ev in ("unwind", "cancel") or ev.startswith("pend:"):
            return st
        if ev in ("call:fsend", "call:delegate"):
            return ("called",)
        if ev == "sw:Res::Ok" and src in ("fsend", "delegate") and ph == "called":
            return ("accepted",)
        if ev == "sw:Res::Err" and src in ("fsend", "delegate") and ph == "called":
            return ("refused",)
        if ev == "retval:Ok":
            if ph != "accepted":
                return nfa.Err("reports Ok although the request was not submitted on this path (phase %s)" % ph)
            return st
        if ev == "ret" and ph == "none":
            # must have produced an error result (retval:Err / residual) — those do not change the phase
            return st
        return st


def check_submit_on_ok(ctx, fx, rule, entry, entries, any_path=False):
    """any_path: also accept the waiting closure (for message submissions; stop / restart must use the forcing one)"""
    f = fx.fn(entry)
    if f is None:
        return
    if f.get("is_async"):
        kids = [c for c in fx.children_of(entry) if c["kind"] == "coroutine"]
        if len(kids) != 1:
            ctx.viol(rule, "ok-means-submitted:" + entry, "async body of %s not found" % entry, fn=entry, site=f["loc"])
            return
        f = kids[0]
    b = ctx.body(fx, f)
    traits = (FORCE_TRAIT, TX_TRAIT) if any_path else (FORCE_TRAIT,)
    A = nfa.Alphabet(
        calls=[("fsend", lambda t: t.get("trait") in traits), ("delegate", lambda t: (t.get("callee") in entries and t.get("callee") != entry))],
        adts={"core::ops::control_flow::ControlFlow": "Res", "core::result::Result": "Res", "core::option::Option": "Option"}, retval=True)
    n = nfa.build(b, A, fx, depth=2)
    viols, ps = nfa.check(n, SubmitOnOk())
    ctx.count_nfa(n.stats(), ps)
    for v in viols:
        ctx.viol(rule, "ok-means-submitted:" + entry, v["msg"], fn=entry, site=f["loc"], trace=v["trace"])
    if not viols:
        ctx.ok(rule, "ok-means-submitted:" + entry, f["loc"], {"words": [" ".join(w) for w in nfa.words(n, limit=3)]})


class ForwardAlways(nfa.Spec):
    """a forwarding entry point completes only after the operation it forwards to has completed, and answers Ok only
    when that operation did (or hands its result back unchanged)"""
    init = ("none",)

    def step(self, st, label):
        label = loops.norm(label)
        ev = label.split("@")[0]
        src = label.split("@")[1] if "@" in label else ""
        ph = st[0]
        if ev in ("unwind", "cancel") or ev.startswith("pend:"):
            return st
        if ev == "call:fwd":
            if ph != "none":
                return nfa.Err("forwards a second time on one path")
            return ("called",)
        if ev == "done:fwd" and ph == "called":
            return ("done",)
        if ev == "sw:Res::Ok" and src == "fwd" and ph == "done":
            return ("accepted",)
        if ev == "sw:Res::Err" and src == "fwd" and ph == "done":
            return ("refused",)
        if ev == "retval:Ok" and ph != "accepted":
            return nfa.Err("answers Ok of its own although the forwarded operation did not complete with Ok on this path (phase %s)" % ph)
        if ev == "retval:Err" and ph in ("none", "called"):
            return nfa.Err("fails of its own before the forwarded operation was tried (phase %s)" % ph)
        if ev == "ret" and ph in ("none", "called"):
            return nfa.Err("completes without the forwarded operation having completed (phase %s)" % ph)
        return st


def check_forward_always(ctx, fx, rule, inst, f, is_target, depth=1):
    """every normal path of `f` (an async body) goes through the awaited call matched by is_target"""
    b = ctx.body(fx, f)
    A = nfa.Alphabet(calls=[("fwd", is_target)], adts={"core::ops::control_flow::ControlFlow": "Res", "core::result::Result": "Res"}, retval=True)
    n = nfa.build(b, A, fx, depth=depth)
    viols, ps = nfa.check(n, ForwardAlways())
    ctx.count_nfa(n.stats(), ps)
    for v in viols:
        ctx.viol(rule, inst, v["msg"], fn=f["def"], site=f["loc"], trace=v["trace"])
    if not viols:
        ctx.ok(rule, inst, f["loc"], {"words": [" ".join(w) for w in nfa.words(n, limit=3)]})
    return not viols


def first_await_or_end(b):
    """blocks reachable from entry without crossing a Yield (i.e. executed before the first suspension)"""
    seen = set()
    st = [0]
    while st:
        x = st.pop()
        if x in seen or b.is_cleanup(x):
            continue
        seen.add(x)
        if b.term(x)["k"] == "yield":
            continue
        for s in b.succs(x, unwind=False):
            st.append(s)
    return seen


def run(ctx):
    ctx.explanation = EXPL
    ctx.assumptions = ["futures-channel mpsc is a linearizable FIFO (Stop is ordered behind everything enqueued before)", "Shared<oneshot::Receiver> caches its output for clones made after completion"]
    fx = ctx.facts("tokio")
    # R04.1 marker flow + entry points
    stop_fns = check_marker_flow(ctx, fx, "R04.1", "Stop", 1)  # every entry point below must reach one
    present = [e for e in STOP_ENTRIES if fx.fn(e)]
    ctx.floor("R04.1", "stop entry points", len(present), 7)
    for e in STOP_ENTRIES:
        if not fx.fn(e):
            ctx.viol("R04.1", "entry:" + e, "stop entry point not found (renamed or removed public API)")
            continue
        fam = graph.family(fx, e)
        hit = entry_hit(ctx, fx, e, stop_fns, STOP_ENTRIES)
        # the waiting path must not be used to stop
        uses_waiting = False
        for f in fam:
            b = ctx.body(fx, f)
            for bi, t in b.normal_calls():
                if t.get("trait") == TX_TRAIT:
                    uses_waiting = True
        ctx.require(hit is not None and not uses_waiting, "R04.1", "entry:" + e,
                    "stop entry point does not enqueue Payload::Stop through the forcing closure before its first await (waiting path used: %s)" % uses_waiting,
                    fn=e, site=(hit[1] if hit else fx.fn(e)["loc"]), detail=hit)
    for e in STOP_ENTRIES:
        check_submit_on_ok(ctx, fx, "R04.1", e, set(STOP_ENTRIES))
    # R04.7 ... and the call of a handled message returns what the handler produced: the caller waits for its response slot and
    # for nothing else (a race with the termination notice could discard a reply that was sent) — shared with C02
    from props import c02 as _c02
    _c02.check_response_slots(ctx, fx, "tokio", "R04.7")
    # R04.6 messages accepted before the stop are still handled: queued payloads run their handler unconditionally (shared with C01)
    from props.c01 import check_payloads
    check_payloads(ctx, fx, "tokio", "R04.6")
    # R04.5 the ordering argument: Stop travels in the actor's single FIFO queue, behind everything submitted before
    from props.c01 import check_single_queue
    check_single_queue(ctx, fx, "tokio", "R04.5", "R04.5")
    # R04.2 / R04.3 loops
    cfgs = ["tokio"] if ctx.tier == "quick" else ["tokio", "smol", "asyncstd", "bare"]
    for cfg in cfgs:
        fxc = ctx.facts(cfg) if cfg == "tokio" else ctx.try_facts(cfg)
        if fxc is None:
            continue
        run_loops(ctx, fxc, "R04.2", {"L9", "L6", "L11", "L4"})
        # R04.8 (shared with C17) "halt and join resolve only after the stopped callback has finished": a join that was requested
        # keeps what it waits on — no detach function empties the slot it reads (it would resolve at once, with None, while the
        # actor still runs), and what it awaits cannot be taken down by giving another join up
        if cfg != "bare":
            from props import c17 as _c17
            core.shared(ctx, "R04.8", _c17.check_join_handle_is_inert, ctx, fxc, cfg, "R04.8")
    check_notifier(ctx, fx, "R04.3")
    check_awaiters(ctx, fx)
    return core.finish(ctx)


def check_notifier(ctx, fx, RULE="R04.3"):
    """the termination notice is sent by `StopNotifier::notify` and by nothing else, and only the event loops (after the
    completed stopped(), R04.3 / L11) call it: every other way out of a loop drops the notifier unsent, which is how awaiting an
    address tells a failed actor from a stopped one (shared with C06 and C11)"""
    # notify body: sends on the oneshot it owns
    nf = fx.fn("context::StopNotifier::notify")
    if ctx.require(nf is not None, RULE, "notify-exists", "context::StopNotifier::notify not found"):
        import inline
        b = inline.body(ctx, fx, nf, inline.not_public)
        sends = [t for _, t in b.normal_calls() if (t.get("callee") or "").startswith("futures_channel::oneshot::") and (t.get("callee") or "").endswith("::send")]
        ok = len(sends) == 1 and any(o.kind == "arg" for o in b.origins(sends[0]["args"][0]))
        ctx.require(ok, RULE, "notify-sends", "StopNotifier::notify must complete the oneshot it owns exactly once", fn=nf["def"], site=nf["loc"], detail={"sends": len(sends)})
    # notify has exactly the loops as callers
    callers = sorted({f["def"] for f, _bi, _t in graph.all_calls(fx, nfa.callee_is("context::StopNotifier::notify"))})
    loop_defs = sorted(f["def"] for f, _ in loops.find_loops(fx))
    # helpers extracted from the loops are fine as long as only the loops (or such helpers) call them
    helpers = set()
    for c in callers:
        if c in loop_defs:
            continue
        root = fx.fn(c).get("root", c) if fx.fn(c) else c
        who = graph.callers_of(fx, root)
        if who and all(w in loop_defs or w in callers for w in who):
            helpers.add(c)
    callers = [c for c in callers if c not in helpers]
    ctx.require(set(callers) <= set(loop_defs) and (callers or helpers), RULE, "notify-callers", "StopNotifier::notify is called outside the event loops: %s" % [c for c in callers if c not in loop_defs], site=nf and nf["loc"], detail=callers)
    # ... and nothing else completes that channel: no other function of the crate (a `Drop` of the notifier, a helper) sends on a
    # `oneshot::Sender<()>` that is a field of the notifier
    nadt = fx.adts.get("context::StopNotifier")
    notify_helpers = graph.private_helpers(fx, {nf["def"]}) if nf is not None else set()
    others = []
    if nadt is not None:
        for g in fx.d["fns"]:
            if g["def"] == (nf or {}).get("def") or "pre" not in g or g.get("root", g["def"]) in notify_helpers:
                continue
            if "context::StopNotifier" not in " ".join(g.get("inputs") or []) + (g.get("impl_self") or ""):
                continue
            gb = ctx.body(fx, g)
            for _bi, t in gb.normal_calls():
                if (t.get("callee") or "").startswith("futures_channel::oneshot::") and (t.get("callee") or "").endswith("::send") and "Sender<()>" in (t.get("self_ty") or ""):
                    others.append((g["def"], t["l"]))
    ctx.require(not others, RULE, "notice-sent-only-by-notify", "the termination notice is also sent outside StopNotifier::notify (on a path that is not a graceful end the awaiters would see Ok): %s" % [o[0] for o in others], fn=others[0][0] if others else None, site=others[0][1] if others else None)


class StopThenAwait(nfa.Spec):
    """call:stop must precede the await of the address / join future; its error must abort"""

    def __init__(self, need_stop, awaited):
        self.need_stop = need_stop
        self.awaited = awaited
        self.init = ("s0",)

    def step(self, st, label):
        label = loops.norm(label)
        ev = label.split("@")[0]
        src = label.split("@")[1] if "@" in label else ""
        ph = st[0]
        if ev == "call:stop":
            return ("stopcalled",)
        if ev in ("sw:Res::Ok", "sw:Res::Err") and src == "stop" and ph == "stopcalled":
            return ("stopped_ok",) if ev.endswith("Ok") else ("stop_failed",)
        if ev in ("done:" + self.awaited, "pend:" + self.awaited, "call:" + self.awaited):
            if self.need_stop and ph != "stopped_ok":
                return nfa.Err("R04.4: the termination is awaited without a successful stop request first (phase %s)" % ph)
            if ev.startswith("done:"):
                return ("awaited",)
            return st
        if ev == "retval:Ok" or ev == "retval:move":
            return st
        if ev == "ret":
            if ph == "stop_failed" or ph == "awaited":
                return st
            if ph == "s0" and not self.need_stop:
                return st
            if ph in ("stopped_ok", "stopcalled") and self.awaited in ("join_sync",):
                return st
            if ph in ("s0", "stopped_ok", "stopcalled"):
                return nfa.Err("R04.4: returns without awaiting the termination (phase %s)" % ph)
        return st


class _PollForward(nfa.Spec):
    init = ("s0",)

    def step(self, st, label):
        ev = label.split("@")[0]
        ph = st[0]
        if ev == "call:poll":
            return ("polled",)
        if ph == "polled" and ev in ("sw:Poll::Ready", "bool:is_ready=1", "bool:is_pending=0"):
            return ("ready",)
        if ph == "polled" and ev in ("sw:Poll::Pending", "bool:is_ready=0", "bool:is_pending=1"):
            return ("pending",)
        if ev == "retval:Ready" and ph != "ready":
            return nfa.Err("a completion is reported although the termination future was not seen Ready (phase %s)" % ph)
        if ev == "retval:Pending" and ph != "pending":
            return nfa.Err("Pending is reported although the termination future was not seen Pending (phase %s): the awaiter would hang" % ph)
        if ev in ("retval:Ready", "retval:Pending"):
            return ("answered",)
        if ev == "ret" and ph != "answered":
            return nfa.Err("returns without answering the poll (phase %s)" % ph)
        return st


def _poll_forwarded_by_match(ctx, fx, b, bi, t):
    A = nfa.Alphabet(calls=[("poll", lambda x, _t=t: x is _t), ("is_ready", nfa.callee_ends("poll::{impl#0}::is_ready")), ("is_pending", nfa.callee_ends("poll::{impl#0}::is_pending"))],
                     adts={"core::task::poll::Poll": "Poll"}, bools={"is_ready", "is_pending"}, retval=True)
    n = nfa.build(b, A)
    viols, ps = nfa.check(n, _PollForward())
    ctx.count_nfa(n.stats(), ps)
    if viols:
        return False
    # the Ready payload is the polled result (its error converted at most)
    readys = [st for _bi, _si, st in agg_sites(b, adt="core::task::poll::Poll", variant="Ready") if st["p"] == [0]]
    if not readys:
        return False
    for st in readys:
        for o in b.origins(st["r"]["ops"][0], through_calls=False):
            src = o
            if o.kind == "call" and b.call_at(o).get("callee") in ("core::result::{impl#0}::map_err",):
                inner = b.origins(b.call_at(o)["args"][0], through_calls=False)
                if not inner or not all(x.kind in ("call", "await") and x.site[:1] == (bi,) for x in inner):
                    return False
                continue
            if not (src.kind in ("call", "await") and src.site[:1] == (bi,)):
                return False
    return True


def check_awaiters(ctx, fx):
    # a handle awaited to completion stays a valid awaiter / can be cloned for later awaiters (shared with C14)
    from props import c14
    c14.check_inplace_polls(ctx, fx, "R04.4")
    # Addr as Future: poll forwards the poll of its RunningFuture
    pf = fx.impl_fn("core::future::future::Future", "addr::Addr<", "poll")
    if ctx.require(pf is not None, "R04.4", "Addr::poll", "impl Future for Addr not found"):
        import inline
        b = inline.body(ctx, fx, pf, inline.not_public)  # the poll may sit in a crate-private method of the signal's newtype
        polls = [(bi, t) for bi, t in b.normal_calls() if (t.get("callee") or "").endswith("poll_unpin") or (t.get("callee") or "").endswith("Future::poll")]
        ok = False
        det = None
        for bi, t in polls:
            o = b.origins(t["args"][0])
            # the polled future is a field of self whose type is the Shared receiver
            if any(x.kind == "arg" for x in o) and "Shared<futures_channel::oneshot::Receiver<()>>" in (t["argtys"][0]):
                # and the result reaches the return place
                sk = sinks(b, t["dest"][0])
                maps = [s for s in sk if s["k"] == "call" and (s["t"].get("callee") or "").endswith("::map")]
                # `Poll::map_err(Into::into)` converts the error of a ready result only
                errmaps = [s for s in sk if s["k"] == "call" and (s["t"].get("callee") or "").endswith("::map_err") and "core::task::poll::Poll<" in (s["t"].get("argtys") or [""])[0] and (s["t"]["args"][1].get("fn") or "").endswith(("::into", "::from"))]
                ok = any(s["k"] == "ret" for s in sk) or bool(maps) or bool(errmaps)
                # the mapping closure must pass the poll result on (only converting the error)
                for ms in maps:
                    for o in b.origins(ms["t"]["args"][1]):
                        if o.kind == "agg":
                            cdef = b.blocks[o.site[0]]["s"][o.site[1]]["r"].get("def")
                            c = fx.fn(cdef)
                            if c:
                                from props.c15 import roots as _roots
                                cb = ctx.body(fx, c)
                                rr = _roots(cb, {"k": "move", "p": [0]})
                                through = all(r.kind == "arg" or r.kind.endswith("::map_err") for r in rr)
                                for r in rr:
                                    if r.kind.endswith("::map_err"):
                                        ct = cb.blocks[r.site[0]]["t"]
                                        through = through and all(x.kind == "arg" for x in _roots(cb, ct["args"][0]))
                                ok = ok and through and bool(rr)
                if not maps and not errmaps and not any(s["k"] == "ret" for s in sk):
                    # explicit form `match poll { Ready(r) => { ..; Ready(r.map_err(..)) } Pending => Pending }`: each
                    # outcome is answered by the same outcome, carrying the polled result
                    ok = _poll_forwarded_by_match(ctx, fx, b, bi, t)
        det = {"polls": [t_["callee"] for _b, t_ in polls], "on": [t_["argtys"][0][:80] for _b, t_ in polls if t_.get("argtys")]}
        ctx.require(ok and len(polls) == 1, "R04.4", "Addr::poll", "awaiting an address must return the poll of its shared termination future", fn=pf["def"], site=pf["loc"], detail=det)
    A = nfa.Alphabet(
        calls=[("stop", nfa.callee_is("addr::Addr::<A>::stop")), ("join", nfa.callee_is("addr::OwningAddr::<A>::join", "actor::spawner::actor_handle::ActorHandle::<A>::join")),
               ("halt", nfa.callee_is("addr::Addr::<A>::halt"))],
        adts={"core::ops::control_flow::ControlFlow": "Res", "core::result::Result": "Res", "core::option::Option": "Option"},
        retval=True,
        fut_types=[("addr::Addr<", "addr"), ("[Output=core::option::Option<A>]", "join")],
    )
    for entry, awaited in (("addr::Addr::<A>::halt", "addr"), ("addr::weak_addr::WeakAddr::<A>::try_halt", "addr"), ("addr::OwningAddr::<A>::consume", "join")):
        fam = [f for f in graph.family(fx, entry) if f["kind"] == "coroutine"]
        if not ctx.require(len(fam) == 1, "R04.4", entry, "async body of %s not found" % entry):
            continue
        b = ctx.body(fx, fam[0])
        n = nfa.build(b, A, fx, depth=2)  # helper methods on the same handle are part of the entry point
        need = True
        viols, ps = nfa.check(n, StopThenAwaitLoose(awaited, delegate=(entry != "addr::Addr::<A>::halt")))
        ctx.count_nfa(n.stats(), ps)
        if viols:
            # a second view of the same code: private helpers inlined into the body (`self.upgrade_and_stop()?.await`: what the
            # helper answers is then visible as the entry point's own control flow); a monitor that accepts either view accepts it
            import inline
            n2 = nfa.build(inline.body(ctx, fx, fam[0], inline.not_public), A, fx, depth=2)
            v2, ps2 = nfa.check(n2, StopThenAwaitLoose(awaited, delegate=(entry != "addr::Addr::<A>::halt")))
            ctx.count_nfa(n2.stats(), ps2)
            if not v2:
                viols = []
        if viols:
            for v in viols:
                ctx.viol("R04.4", entry, v["msg"], fn=fam[0]["def"], site=fam[0]["loc"], trace=v["trace"])
        else:
            ctx.ok("R04.4", entry, fam[0]["loc"], {"words": [" ".join(w) for w in nfa.words(n, limit=4)]})
    # consume_sync: stop()? then Ok(join())
    cs = fx.fn("addr::OwningAddr::<A>::consume_sync")
    if ctx.require(cs is not None, "R04.4", "consume_sync", "OwningAddr::consume_sync not found"):
        b = ctx.body(fx, cs)
        n = nfa.build(b, A, fx, depth=2)
        viols, ps = nfa.check(n, StopThenAwaitLoose("join", sync=True))
        ctx.count_nfa(n.stats(), ps)
        for v in viols:
            ctx.viol("R04.4", "consume_sync", v["msg"], fn=cs["def"], site=cs["loc"], trace=v["trace"])
        if not viols:
            ctx.ok("R04.4", "consume_sync", cs["loc"], {"words": [" ".join(w) for w in nfa.words(n, limit=4)]})


class StopThenAwaitLoose(nfa.Spec):
    """On every path: stop is requested; if it fails the error is returned at once; otherwise the termination
    (address / join future) is awaited (sync variant: the join future is created) before returning."""

    def __init__(self, awaited, sync=False, delegate=False):
        self.awaited = awaited
        self.sync = sync
        self.delegate = delegate  # the entry point may hand the whole job to Addr::halt (stop, then await) — judged there
        self.init = ("s0",)

    def step(self, st, label):
        label = loops.norm(label)
        ev = label.split("@")[0]
        src = label.split("@")[1] if "@" in label else ""
        ph = st[0]
        if ev in ("unwind", "cancel") or ev.startswith("pend:"):
            return st
        if ev == "call:stop":
            if ph != "s0":
                return nfa.Err("R04.4: stop requested twice")
            return ("stopcalled",)
        if ev in ("sw:Res::Ok", "sw:Res::Err") and src == "stop" and ph == "stopcalled":
            return ("stop_ok",) if ev.endswith("Ok") else ("stop_failed",)
        if self.delegate and ev == "call:halt":
            if ph != "s0":
                return nfa.Err("R04.4: halt delegated in phase %s" % ph)
            return ("halting",)
        if self.delegate and ev == "done:halt" and ph == "halting":
            return ("awaited",)
        if ev == "sw:Option::None" and ph == "s0":
            return ("no_actor",)  # weak handle could not be upgraded: AlreadyStopped
        if ev == "sw:Option::Some":
            return st
        if ev == "call:join":
            if ph != "stop_ok":
                return nfa.Err("R04.4: join requested in phase %s (needs the accepted stop request first)" % ph)
            return ("joined",) if self.sync else ("joining",)
        if ev == "done:" + self.awaited:
            if ph not in ("stop_ok", "joining"):
                return nfa.Err("R04.4: termination awaited in phase %s (needs the accepted stop request first)" % ph)
            return ("awaited",)
        if ev == "retval:residual":
            if ph in ("s0", "no_actor"):
                return ("errret",)  # nothing to stop: the weak handle could not be upgraded (`upgrade().ok_or(AlreadyStopped)?`)
            if ph != "stop_failed":
                return nfa.Err("R04.4: error propagated in phase %s" % ph)
            return ("errret",)
        if ev == "retval:Err" and ph == "stop_failed":
            return ("errret",)  # `match self.stop() { Ok(()) => .., Err(e) => Err(e) }` spells out the `?`
        if ev == "ret":
            if ph in ("awaited", "errret", "no_actor", "joined"):
                return st
            return nfa.Err("R04.4: returns in phase %s: the stop error must be returned, otherwise the termination must be awaited" % ph)
        return st
