"""C02 — calls return their own handler's result, and every operation resolves."""
import core, nfa, loops, graph, chan, own
from mir import Body, sinks, upvar_sinks, agg_sites
from props.c03 import run_loops
from props.c15 import roots

EXPL = ("R02.1 response slot (provenance across closure captures): every call-like site creates one oneshot per "
        "invocation; its sender is moved into the payload closure, from there into the handler coroutine, and is "
        "consumed only by Sender::send(v) where v is the awaited result of Handler::handle on the captured message "
        "(unit for ping); the receiver is awaited by the caller and the Ok result derives only from that await. "
        "R02.2 the loop futures own mailbox receiver, context and stop notifier, so every exit (return, unwind, "
        "cancellation) drops queued payloads (cancelling their callers) and the notifier. R02.3 the notifier is consumed "
        "only by notify(), which lies on the graceful path only. R02.4 no leak primitive in the crate. R02.5 every "
        "fallible internal result (ActorError / Canceled / SendError / DynResult) is propagated (`?`, returned) or "
        "inspected; discarding idioms are an enumerated table. R02.6 join takes the task handle out of its slot before waiting, "
        "so a later join / consume resolves even if an earlier join future was abandoned.")

LEAK_SUFFIX = ("::forget", "::leak", "::into_raw", "::into_raw_with_allocator", "::forget_unsized")
ERR_TYPES = ("error::ActorError", "futures_channel::oneshot::Canceled", "futures_channel::mpsc::SendError", "TrySendError", "dyn core::error::Error")

# accepted discarding idioms: (root function prefix, consumer) -> reason
ACCEPTED_DISCARDS = {
    ("<actor::spawner::", "ok"): "spawner join flattens task failure and actor error to None (C17 R17.2)",
    ("<actor::spawner::", "send"): "the loop's result is handed on to whoever joins, through the spawner's result channel (C17 reports-loop-result)",
    ("<actor::spawner::", "and_then"): "tokio join: Result<DynResult<A>, JoinError> flattened to Option (C17 R17.2)",
    ("<broker::", "dropped"): "broker fan-out: a subscriber that went away is not an error (C09: terminated subscribers neither block nor fail a publish)",
    ("broker::", "dropped"): "broker fan-out: a subscriber that went away is not an error (C09)",
    # the same, when the join future is built by a named function of the spawner module
    ("actor::spawner::", "ok"): "spawner join flattens task failure and actor error to None (C17 R17.2)",
    ("actor::spawner::", "and_then"): "tokio join: Result<DynResult<A>, JoinError> flattened to Option (C17 R17.2)",
}


def is_leak(t):
    c = t.get("callee") or ""
    return c.endswith(LEAK_SUFFIX) or "ManuallyDrop" in c or c == "core::intrinsics::transmute" or c.endswith("mem::transmute")


def closures_for_param(fx, ctx_, b, callee_operand):
    """the closures that callers of b's function pass for the parameter `callee_operand` refers to (a `F: FnOnce(..)`
    parameter that b invokes): [(closure fn record)]"""
    os_ = b.origins(callee_operand)
    if not os_ or not all(o.kind == "arg" and not o.proj for o in os_):
        return None
    k = next(iter(os_)).site
    out = []
    name = b.name
    for g, _bi, t in graph.all_calls(fx, lambda t, _n=name: (t.get("resolved") or t.get("callee")) == _n):
        if k - 1 >= len(t["args"]):
            return None
        ty = t["argtys"][k - 1] if k - 1 < len(t.get("argtys", [])) else ""
        if not (ty.startswith("{closure:") and fx.fn(ty[len("{closure:"):-1])):
            return None
        out.append(fx.fn(ty[len("{closure:"):-1]))
    return out or None


def follow_capture(fx, ctx_, b, local, depth=0):
    """final sinks of a value across closure/coroutine capture boundaries"""
    out = []
    skip_tuple = [False]
    for s in sorted(sinks(b, local, into_closures=False), key=lambda s_: 0 if s_["k"] == "call" else 1):
        if skip_tuple[0] and s["k"] == "agg" and s.get("ak") == "tuple":
            continue
        if s["k"] == "call" and (s["t"].get("callee") or "").endswith(("FnOnce::call_once", "FnMut::call_mut", "Fn::call")) and s["idx"] == 1 and depth < 5:
            # the value is handed to a closure parameter this function invokes (`into_task(tx_response)`): go on in every
            # closure the callers pass for it
            cls = closures_for_param(fx, ctx_, b, s["t"]["args"][0])
            # (s["idx"] == 1: the argument tuple; which element is recovered from the tuple literal)
            elem = None
            for o in b.origins(s["t"]["args"][1]):
                if o.kind == "agg":
                    ops = b.blocks[o.site[0]]["s"][o.site[1]]["r"]["ops"]
                    for i_, op_ in enumerate(ops):
                        cur_ = op_["p"][0] if op_.get("k") in ("move", "copy") and len(op_["p"]) == 1 else None
                        for _hop in range(4):
                            if cur_ is None or cur_ == local:
                                break
                            ds_ = b.assigns.get(cur_, [])
                            r_ = ds_[0][2]["r"] if len(ds_) == 1 else {}
                            cur_ = r_["o"]["p"][0] if r_.get("k") == "use" and r_["o"].get("k") in ("move", "copy") and len(r_["o"]["p"]) == 1 else None
                        if cur_ == local:
                            elem = i_
            if cls and elem is not None:
                out[:] = [(b0, s0) for (b0, s0) in out if not (b0 is b and s0["k"] == "agg" and s0.get("ak") == "tuple")]
                skip_tuple[0] = True
                for c in cls:
                    cb = ctx_.body(fx, c)
                    for s2 in sinks(cb, 2 + elem, into_closures=False):
                        if s2["k"] == "agg" and s2.get("ak") in ("closure", "coroutine") and fx.fn(s2["def"]):
                            out.extend((b3, dict(s3, via_closure=c["def"])) for b3, s3 in follow_upvar(fx, ctx_, ctx_.body(fx, fx.fn(s2["def"])), s2["idx"], depth + 2))
                        elif s2["k"] in ("call", "store", "ret", "yield", "agg"):
                            out.append((cb, dict(s2, via_closure=c["def"])))
                continue
        if s["k"] == "call" and depth < 5 and fx.callee_fn(s["t"]) is not None and fx.callee_fn(s["t"])["kind"] in ("fn", "assoc_fn") and not fx.callee_fn(s["t"]).get("is_async"):
            # handed to a crate-local function (a payload constructor such as `Payload::request(msg, tx)`): go on inside
            h_ = fx.callee_fn(s["t"])
            out.extend(follow_capture(fx, ctx_, ctx_.body(fx, h_), s["idx"] + 1, depth + 1))
            continue
        if s["k"] == "agg" and s.get("ak") in ("closure", "coroutine") and depth < 5:
            child = fx.fn(s["def"])
            if child is None:
                out.append((b, s))
                continue
            cb = _ibody(ctx_, fx, child)
            out.extend(follow_upvar(fx, ctx_, cb, s["idx"], depth + 1))
        elif s["k"] in ("call", "store", "ret", "yield", "agg"):
            out.append((b, s))
    return out


def follow_upvar(fx, ctx_, cb, idx, depth):
    out = []
    for s in upvar_sinks(cb, idx, into_closures=False):
        if s["k"] == "agg" and s.get("ak") in ("closure", "coroutine") and depth < 5:
            child = fx.fn(s["def"])
            if child is None:
                out.append((cb, s))
                continue
            out.extend(follow_upvar(fx, ctx_, _ibody(ctx_, fx, child), s["idx"], depth + 1))
        elif s["k"] in ("call", "store", "ret", "yield", "agg"):
            out.append((cb, s))
    return out


def _ibody(ctx_, fx, f):
    """body of a closure / coroutine with crate-private helpers inlined (`responder.respond(res)` is the send it wraps)"""
    import inline
    return inline.body(ctx_, fx, f, inline.not_public)


def slot_constructors(fx):
    """crate-private functions that create a one-shot channel and hand both ends back as a pair, the sender possibly wrapped
    in a newtype (`Responder::channel() -> (Responder<T>, Receiver<T>)`): their call sites are where a response slot comes
    into being"""
    cache = fx.__dict__.setdefault("_slot_ctors", None)
    if cache is not None:
        return cache
    out = set()
    for f in fx.d["fns"]:
        if f["kind"] not in ("fn", "assoc_fn") or f.get("is_async") or f.get("vis") == "pub" or "pre" not in f:
            continue
        b = Body(f)
        chans = [(bi, t) for bi, t in b.normal_calls() if t.get("callee") == "futures_channel::oneshot::channel"]
        if len(chans) != 1:
            continue
        cbi = chans[0][0]
        ok = True
        for fld, want in (("f0", "f0"), ("f1", "f1")):
            os_ = b.origins([0, fld])
            for _ in range(3):  # look through newtype literals around the end
                nxt = set()
                for o in os_:
                    if o.kind == "agg" and not o.proj:
                        ops = b.blocks[o.site[0]]["s"][o.site[1]]["r"].get("ops") or []
                        if len(ops) == 1:
                            nxt |= b.origins(ops[0])
                            continue
                    nxt.add(o)
                os_ = nxt
            if not (os_ and all(o.kind == "call" and o.site == (cbi,) and o.proj[:1] == (want,) for o in os_)):
                ok = False
        if ok:
            out.add(f["def"])
    fx.__dict__["_slot_ctors"] = out
    return out


def inside_payload(ctx, fx, name):
    """is the body `name` nested inside a closure that is handed to a payload constructor (i.e. does it run when the
    payload is executed by the actor's loop, not when the payload is built)?"""
    pctors = loops.payload_ctors(fx)
    cur = fx.fn(name)
    for _ in range(8):
        if cur is None or cur["kind"] not in ("closure", "coroutine"):
            return False
        par = fx.fn(cur.get("parent") or "")
        if par is None:
            return False
        needle = "{closure:%s}" % cur["def"]
        for _bi, t in ctx.body(fx, par).normal_calls():
            if (t.get("resolved") or t.get("callee")) in pctors and any(a == needle for a in t.get("argtys", [])):
                return True
        cur = par
    return False


def check_response_value(ctx, fx, f, b, sb, s, inst):
    """what the payload sends back is exactly the awaited result of this message's handler invocation (or unit for ping)"""
    # it must live in a body nested inside the payload closure (not in the caller)
    ctx.require(sb.name != b.name and inside_payload(ctx, fx, sb.name), "R02.1", inst + ":sender-inside-payload", "the response is sent from %s, not from the payload of this call" % sb.name, fn=f["def"], site=s["t"]["l"])
    val = s["t"]["args"][1]
    vr = sb.origins(val)
    kinds = set()
    for o in vr:
        if o.kind == "await":
            for (_cb, ct) in sb.awaited_calls(o.site[0]):
                if ct.get("trait") == loops.T_H and (ct.get("callee") or "").endswith("::handle"):
                    kinds.add("handler-result")
                    # the message handled is the captured one; actor/ctx are the payload's arguments
                    mr = roots(sb, ct["args"][2])
                    ctx.require(all(r.kind == "upvar" for r in mr), "R02.1", inst + ":own-message", "the handler is invoked with something else than the message of this call", fn=sb.name, site=ct["l"])
                else:
                    kinds.add("await:" + str(ct.get("callee")))
        elif o.kind in ("agg", "const"):
            is_unit = "()" in str(sb.locals[val["p"][0]]["ty"] if val["k"] != "const" else val.get("ty"))
            if not is_unit and o.kind == "agg":
                st_ = sb.blocks[o.site[0]]["s"][o.site[1]]["r"]
                is_unit = st_.get("ak") == "tuple" and not st_.get("ops")  # `()` passed for a generic parameter of an inlined helper
            if not is_unit and o.kind == "const":
                is_unit = str(o.site) == "()"
            kinds.add("unit" if is_unit else "constant")
        else:
            kinds.add(o.kind)
    is_ping = f["def"].endswith("::ping::{closure#0}") or "::ping::" in sb.name or loops.is_ping_payload(fx, sb.name)
    want = {"unit"} if is_ping else {"handler-result"}
    ctx.require(kinds == want, "R02.1", inst + ":response-value", "the response must be exactly the awaited result of this message's handler invocation: got %s" % sorted(kinds), fn=sb.name, site=s["t"]["l"], detail=sorted(kinds))


def check_receiver(ctx, fx, f, b, rx_l, bi, inst, site):
    rsk = sinks(b, rx_l)
    # a receiver that arrives wrapped in a Result (from a slot-creating helper) is unwrapped with `?` first
    more = []
    for x in list(rsk):
        if x["k"] == "call" and (x["t"].get("callee") or "").endswith("Try::branch") and len(x["t"]["dest"]) == 1:
            rsk.remove(x)
            more += [y for y in sinks(b, x["t"]["dest"][0]) if not (y["k"] == "call" and (y["t"].get("callee") or "").endswith("from_residual"))]
    rsk = [x for x in rsk + more if x["k"] not in ("drop", "inspect")]
    polled = [x for x in rsk if x["k"] == "call" and (x["t"].get("callee") or "").endswith("Future::poll")]
    stray = [x for x in rsk if x["k"] in ("agg", "store", "ret") or (x["k"] == "call" and not (x["t"].get("callee") or "").endswith(("Future::poll", "get_context", "Try::branch", "from_residual")))]
    ctx.require(len(polled) >= 1 and not stray, "R02.1", inst + ":receiver-awaited", "the response receiver must be awaited by the caller and nothing else", fn=f["def"], site=site)
    okv = [st["r"]["ops"][0] for _bi, _si, st in agg_sites(b, adt="core::result::Result", variant="Ok") if st["p"] == [0]]
    # ... or the received result handed back through an adapter that keeps its Ok value (`rx.await.map_err(..)`)
    for _cbi, ct in b.normal_calls():
        if ct["dest"] == [0] and ct.get("callee") in ("core::result::{impl#0}::map_err", "core::result::{impl#0}::inspect_err", "core::result::{impl#0}::inspect") and ct["args"]:
            okv.append(ct["args"][0])
    for _l, defs in b.assigns.items():
        for (_abi, _asi, ast) in defs:
            if ast["p"] == [0] and ast["r"]["k"] == "use" and ast["r"]["o"].get("k") in ("move", "copy") and any(o.kind == "await" for o in b.origins(ast["r"]["o"])):
                okv.append(ast["r"]["o"])
    good = bool(okv)
    for okop in okv:
        rs = roots(b, okop)
        for o in rs:
            if o.kind != "await":
                good = False
                continue
            pr = b.polled_future_origins(o.site[0])

            def from_site(p):
                if p.kind != "call":
                    return False
                if p.site == (bi,):
                    return True
                pt = b.call_at(p)
                return (pt.get("callee") or "").endswith("Try::branch") and all(q.kind == "call" and q.site == (bi,) for q in b.origins(pt["args"][0], through_calls=False))
            if not all(from_site(p) for p in pr):
                good = False
    ctx.require(good, "R02.1", inst + ":ok-from-receiver", "Ok(..) returned by a call must be the value received on this call's response channel", fn=f["def"], site=site)


def run(ctx):
    ctx.explanation = EXPL
    ctx.assumptions = ["dropping a oneshot::Sender resolves its receiver with Canceled; dropping the mpsc Receiver drops queued items and wakes parked senders; Shared wakes all clones", "user handlers terminate (assumed by the property)"]
    assert is_leak({"callee": "core::mem::forget"}) and is_leak({"callee": "alloc::boxed::{impl#1}::leak"}) and not is_leak({"callee": "core::mem::drop"})
    cfgs = ["tokio"] if ctx.tier == "quick" else ["tokio", "smol", "asyncstd", "bare"]
    for cfg in cfgs:
        fx = ctx.facts(cfg) if cfg == "tokio" else ctx.try_facts(cfg)
        if fx is None:
            continue
        check_cfg(ctx, fx, cfg)
    return core.finish(ctx)


def check_cfg(ctx, fx, cfg):
    check_response_slots(ctx, fx, cfg)
    check_rest(ctx, fx, cfg)


def check_response_slots(ctx, fx, cfg, RULE=None):
    """R02.1 — every call-like site: one response slot per invocation, answered only from inside the payload with the
    handler's result, awaited by the caller and nothing else, Ok only from that receiver. With RULE the findings are
    reported under another property's rule id (shared with C04: a handled message's call returns Ok)."""
    before_v, before_i = len(ctx.violations), len(ctx.instances)
    _check_response_slots(ctx, fx, cfg)
    if RULE:
        for v in ctx.violations[before_v:]:
            v["rule"] = RULE
            v["key"] = "%s/%s/%s" % (ctx.prop, RULE, v["instance"])
        for i in ctx.instances[before_i:]:
            i["rule"] = RULE


def _check_response_slots(ctx, fx, cfg):
    # R02.1
    n_slots = 0
    n_term = 0
    sctors = slot_constructors(fx)
    for f in fx.d["fns"]:
        if f["def"] in sctors:
            continue  # judged at its call sites
        b = ctx.body(fx, f)
        for bi, t in b.normal_calls():
            if t.get("callee") != "futures_channel::oneshot::channel" and (t.get("resolved") or t.get("callee")) not in sctors:
                continue
            # the result channel of a spawner (the loop's result travels to whoever joins: C17 `reports-loop-result`) is not a
            # response slot either
            rootf_ = fx.fn(f.get("root", f["def"])) or f
            if rootf_.get("impl_trait_def") == "actor::spawner::Spawner" and rootf_["def"].endswith("::spawn_actor"):
                continue
            # the termination channel (its sender becomes the StopNotifier) is not a response slot: R02.3 covers it
            if any(s["k"] == "agg" and s.get("def") == "context::StopNotifier" for s in graph.value_sinks(fx, b, t["dest"][0])):
                n_term += 1
                continue
            n_slots += 1
            inst = "%s@%s" % (f["def"], cfg)
            pair = t["dest"][0]
            # split the pair
            tx_l = rx_l = None
            for l, defs in b.assigns.items():
                for (_bi, _si, st) in defs:
                    r = st["r"]
                    if r["k"] == "use" and r["o"]["k"] in ("move", "copy") and r["o"]["p"][0] == pair and len(r["o"]["p"]) == 2:
                        if r["o"]["p"][1] == "f0":
                            tx_l = l
                        elif r["o"]["p"][1] == "f1":
                            rx_l = l
            if not ctx.require(tx_l is not None and rx_l is not None, "R02.1", inst + ":slot", "cannot see both ends of the response channel", fn=f["def"], site=t["l"]):
                continue
            # sender: only Sender::send(v) inside the payload
            fin_all = follow_capture(fx, ctx, b, tx_l)
            # a slot-creating helper that is given the payload-building closure by its callers: one instance per closure
            groups = {}
            for bb_, s in fin_all:
                groups.setdefault(s.get("via_closure"), []).append((bb_, s))
            base_inst = inst
            send_ok = True
            for gkey, fin in sorted(groups.items(), key=lambda kv: str(kv[0])):
              inst = base_inst if gkey is None else "%s[%s]" % (base_inst, gkey.split("::{")[0].split("::")[-1])
              sends = [(bb_, s) for bb_, s in fin if s["k"] == "call" and (s["t"].get("callee") or "").startswith("futures_channel::oneshot::") and (s["t"].get("callee") or "").endswith("::send") and s["idx"] == 0]
              other = [(bb_.name, s["k"], s.get("t", {}).get("callee")) for bb_, s in fin if (bb_, s) not in sends]
              if not ctx.require(len(sends) == 1 and not other, "R02.1", inst + ":sender", "the response sender must be consumed only by one send() inside the payload: sends=%d other=%s" % (len(sends), other), fn=f["def"], site=t["l"]):
                send_ok = False
                continue
              sb, s = sends[0]
              check_response_value(ctx, fx, f, b, sb, s, inst)
            inst = base_inst
            if not send_ok or not groups:
                if not groups:
                    ctx.viol("R02.1", inst + ":sender", "the response sender goes nowhere", fn=f["def"], site=t["l"])
                continue
            # receiver: awaited here, Ok derives from it — or handed back to the callers, who each await it
            rsk0 = sinks(b, rx_l)
            rsk0 = [x for x in rsk0 if x["k"] != "drop"]
            if rsk0 and all(x["k"] in ("agg", "ret") for x in rsk0) and any(x["k"] == "ret" for x in rsk0) and not f["def"].endswith("}"):
                hcallers = [(g_, bi2, t2) for g_, bi2, t2 in graph.all_calls(fx, lambda x, _n=f["def"]: (x.get("resolved") or x.get("callee")) == _n)]
                ctx.require(bool(hcallers), "R02.1", inst + ":receiver-awaited", "the response receiver is handed back by a helper nobody calls", fn=f["def"], site=t["l"])
                # which part of what the helper returns is the receiver: the value itself, or field k of a returned tuple
                # (`fn responding_task(msg) -> (Payload<A>, Receiver<R>)`)
                rfield = None
                for _tbi, _tsi, tst in list(agg_sites(b, ak="tuple")):
                    if tst["p"] == [0]:
                        for k_, op_ in enumerate(tst["r"]["ops"]):
                            if op_.get("k") in ("move", "copy") and any(o_.kind == "call" and o_.site == (bi,) and o_.proj[:1] == ("f1",) for o_ in b.origins(op_)):
                                rfield = "f%d" % k_
                for g_, bi2, t2 in hcallers:
                    gb_ = ctx.body(fx, g_)
                    rl_ = t2["dest"][0]
                    if rfield is not None:
                        parts = [l_ for l_, defs_ in gb_.assigns.items() for (_x, _y, st_) in defs_ if st_["r"]["k"] == "use" and st_["r"]["o"].get("k") in ("move", "copy") and st_["r"]["o"]["p"] == [t2["dest"][0], rfield]]
                        if len(parts) == 1:
                            rl_ = parts[0]
                    check_receiver(ctx, fx, g_, gb_, rl_, bi2, "%s@%s" % (g_["def"], cfg), t2["l"])
                continue
            check_receiver(ctx, fx, f, b, rx_l, bi, inst, t["l"])
            continue
            rsk = sinks(b, rx_l)
            polled = [x for x in rsk if x["k"] == "call" and (x["t"].get("callee") or "").endswith("Future::poll")]
            stray = [x for x in rsk if x["k"] in ("agg", "store", "ret") or (x["k"] == "call" and not (x["t"].get("callee") or "").endswith(("Future::poll", "get_context")))]
            ctx.require(len(polled) >= 1 and not stray, "R02.1", inst + ":receiver-awaited", "the response receiver must be awaited by the caller and nothing else", fn=f["def"], site=t["l"])
            okv = [st["r"]["ops"][0] for _bi, _si, st in agg_sites(b, adt="core::result::Result", variant="Ok") if st["p"] == [0]]
            # ... or the received result handed back through an adapter that keeps its Ok value (`rx.await.map_err(..)`)
            for _cbi, ct in b.normal_calls():
                if ct["dest"] == [0] and ct.get("callee") in ("core::result::{impl#0}::map_err", "core::result::{impl#0}::inspect_err", "core::result::{impl#0}::inspect") and ct["args"]:
                    okv.append(ct["args"][0])
            for _l, defs in b.assigns.items():
                for (_abi, _asi, ast) in defs:
                    if ast["p"] == [0] and ast["r"]["k"] == "use" and ast["r"]["o"].get("k") in ("move", "copy") and any(o.kind == "await" for o in b.origins(ast["r"]["o"])):
                        okv.append(ast["r"]["o"])
            good = bool(okv)
            for okop in okv:
                rs = roots(b, okop)
                for o in rs:
                    if o.kind != "await":
                        good = False
                        continue
                    pr = b.polled_future_origins(o.site[0])
                    if not all(p.kind == "call" and p.site == (bi,) for p in pr):
                        good = False
            ctx.require(good, "R02.1", inst + ":ok-from-receiver", "Ok(..) returned by a call must be the value received on this call's response channel", fn=f["def"], site=t["l"])
    ctx.floor("R02.1", "call-like sites with a response slot (%s)" % cfg, n_slots, 1)  # call and ping may share one slot-creating helper
    ctx.require(n_term == 1, "R02.1", "termination-channel-birth@" + cfg, "expected exactly one oneshot channel whose sender becomes the StopNotifier, found %d" % n_term, site="crate", detail=n_term)


def check_rest(ctx, fx, cfg):
    # R02.9 halt and the awaits of a handle resolve with the termination result: every halting entry point requests the stop
    # and then awaits the address (which reports a failed termination as an error) — never its own copy of the termination
    # future with the outcome thrown away (shared with C04)
    if cfg == "tokio":
        from props import c04 as _c04
        core.shared(ctx, "R02.9", _c04.check_awaiters, ctx, fx)
    # R02.2 / R02.3
    for f, kind in loops.find_loops(fx):
        up = f.get("upvars", [])
        inst = "%s-loop@%s" % (kind, cfg)
        has_ctx = sum(1 for u in up if u.startswith("context::Context<")) == 1
        has_stop = [i for i, u in enumerate(up) if u == "context::StopNotifier"]
        has_rx = len(loops.mailbox_rx_captures(fx, f)) == 1
        ctx.require(has_ctx and len(has_stop) == 1 and has_rx, "R02.2", inst, "the loop future must own context, stop notifier and the receive side of the mailbox: captures %s" % [u[:50] for u in up], fn=f["def"], site=f["loc"], detail=[u[:60] for u in up])
        co = fx.coroutines.get(f["def"], {})
        rx_atoms = [a for a in co.get("upvar_atoms", []) if own.classify(a)[0] == "receiver" and not own.existential(own.classify(a)[1])]
        ctx.require(len(rx_atoms) >= 1, "R02.2", inst + ":owns-receiver", "the loop future does not own the mpsc receiver", fn=f["def"], site=f["loc"], detail=[a["ty"] for a in rx_atoms])
        if has_stop:
            b = ctx.body(fx, f)
            sk = upvar_sinks(b, has_stop[0])
            # a crate-local helper may stand between the loop and notify(): follow the value into it (bounded)
            sk2 = []
            for s in sk:
                c = (s["t"].get("resolved") or s["t"].get("callee")) if s["k"] == "call" else None
                if c and c in fx.fns and c != "context::StopNotifier::notify":
                    sk2.extend(graph.param_sinks(fx, c, s["idx"] + 1))
                else:
                    sk2.append(s)
            sk = sk2
            calls = [s for s in sk if s["k"] == "call"]
            bad = [s for s in sk if s["k"] in ("agg", "store", "ret", "yield", "unknown")] + [s for s in calls if s["t"].get("callee") != "context::StopNotifier::notify"]
            ctx.require(len(calls) >= 1 and not bad, "R02.3", inst + ":notifier-use", "the stop notifier must be consumed only by notify(): %s" % [(s["k"], s.get("t", {}).get("callee")) for s in bad], fn=f["def"], site=f["loc"])
    run_loops(ctx, fx, "R02.3", {"L3", "L6", "L11b"})
    # R02.6 join resolves: the join future takes the runtime handle out of its slot under the lock and releases the lock
    # before it waits — an abandoned earlier join cannot block a later join / consume (shared with C17)
    from props import c17
    if cfg != "bare":  # without a runtime feature there is no spawner, hence no join
        c17.check_join(ctx, fx, cfg, "R02.6")
    # R02.10 (shared with C12) every waiting send resolves when the queue drains or closes: it waits on a sender clone of its
    # own — waiters sharing one handle overwrite each other's parked waker and are not all woken
    if cfg != "bare":
        from props import c12 as _c12
        core.shared(ctx, "R02.10", _c12.check_waiting_send, ctx, fx, cfg, chan.submit_closures(fx), [0], "R02.10")
    # R02.7 closed list of hand-written poll functions (a Pending path that registers no waker hangs its awaiter; whether it
    # does is not decidable here, so a new implementation is reported for review): today only `impl Future for Addr`
    polls = sorted((i.get("trait"), i["self"]) for i in fx.d["impls"] if i.get("trait") in ("futures_core::stream::Stream", "core::future::future::Future", "futures_core::future::FusedFuture", "futures_core::stream::FusedStream", "futures_sink::Sink", "core::future::into_future::IntoFuture"))
    ctx.require(polls == [("core::future::future::Future", "addr::Addr<A>")], "R02.7", "hand-written-polls@" + cfg, "a new hand-written Future / Stream / Sink implementation in the crate: its Pending paths must register a waker — found %s" % polls, site="crate", detail=polls)
    # R02.8 later awaits of a handle resolve with the termination result: a handle that polls its own share of the
    # termination future in place keeps a fresh share on every completed outcome (shared with C14 / C04)
    if cfg == "tokio":
        from props import c14
        c14.check_inplace_polls(ctx, fx, "R02.8")
    # R02.4 leak census
    leaks = [(f["def"], t["callee"], t["l"]) for f, bi, t in graph.all_calls(fx, is_leak)]
    ctx.require(not leaks, "R02.4", "no-leak-primitive@" + cfg, "leak primitive used (a leaked payload / receiver would leave callers hanging): %s" % leaks, site=leaks[0][2] if leaks else "crate", detail={"calls_scanned": sum(1 for _ in graph.all_calls(fx, lambda t: True)), "positive_control": "is_leak(core::mem::forget) holds"})
    md = [(o["root"], a["paths"][0]) for o in fx.owns if o["kind"] == "adt" for a in o["atoms"] if a["cat"] == "manually_drop"]
    ctx.require(not md, "R02.4", "no-manually-drop-field@" + cfg, "ManuallyDrop inside a crate type: %s" % md[:2], site="crate")
    # R02.5 error discipline
    n_res = 0
    import inline
    for f in fx.d["fns"]:
        # (crate-private helpers inlined: a result handed to `outcome.into_actor()` is consumed by what that helper does with it)
        b = inline.body(ctx, fx, f, inline.not_public)
        vals = []
        for bi, t in b.normal_calls():
            d = t.get("destty") or ""
            c = t.get("callee") or ""
            if not d.startswith("core::result::Result<") or t.get("exp") or not any(e in d for e in ERR_TYPES):
                continue
            if c.endswith(("Try::branch", "from_residual")) or len(t["dest"]) != 1:
                continue
            vals.append((t["dest"][0], c, t["l"]))
        for l, defs in b.assigns.items():
            for (_bi, _si, st) in defs:
                r = st["r"]
                if r["k"] == "use" and r["o"]["k"] == "move" and len(r["o"]["p"]) == 3 and r["o"]["p"][1].startswith("d0:Ready") and r["o"]["p"][2] == "f0":
                    ty = b.locals[l]["ty"]
                    if ty.startswith("core::result::Result<") and any(e in ty for e in ERR_TYPES):
                        vals.append((l, "await", st.get("l")))
        for local, producer, loc in vals:
            n_res += 1
            cls = set()
            todo, seen_l = [local], set()
            while todo:
                cur = todo.pop()
                if cur in seen_l:
                    continue
                seen_l.add(cur)
                for s in sinks(b, cur):
                    if s["k"] == "call":
                        name = (s["t"].get("callee") or "?").split("::")[-1]
                        # adapters that keep the error (map_err, map, into …): what counts is what happens to their result
                        if name in ("map_err", "map", "into", "from", "inspect_err", "inspect") and s["idx"] == 0 and len(s["t"]["dest"]) == 1 and (s["t"].get("destty") or "").startswith("core::result::Result<"):
                            if s["t"]["dest"][0] == 0:
                                cls.add("ret")
                            todo.append(s["t"]["dest"][0])
                            continue
                        cls.add(name)
                    else:
                        cls.add(s["k"])
            propagated = bool(cls & {"branch", "ret", "inspect"}) or (local == 0)
            checked_pred = bool(cls & {"is_err", "is_ok"})
            inst = "%s<-%s@%s" % (f["def"], producer.split("::")[-1], cfg)
            if propagated or checked_pred:
                ctx.ok("R02.5", inst, loc, sorted(cls))
                continue
            root = f.get("root", f["def"])
            acc = [why for (pfx, cons), why in ACCEPTED_DISCARDS.items() if root.startswith(pfx) and (cons in cls or (cons == "dropped" and not cls))]
            if not acc and root.startswith("<actor::spawner::") and producer.startswith("futures_channel::oneshot::") and producer.endswith("::send") and cls <= {"drop"}:
                acc = ["the spawner's reporting task: a refused send only means that nobody will ever join (the handle was detached or dropped)"]
            if acc:
                ctx.ok("R02.5", inst, loc, {"accepted": acc[0], "consumers": sorted(cls)})
            else:
                ctx.viol("R02.5", inst, "a fallible result is discarded (%s): errors must be propagated or handled" % (sorted(cls) or ["dropped"]), fn=f["def"], site=loc)
    ctx.floor("R02.5", "fallible internal results (%s)" % cfg, n_res, 15)
