"""C12 — a bounded mailbox exerts backpressure on send; unbounded and stop never wait."""
import core, nfa, loops, graph, chan
from mir import Body, sinks, agg_sites
from props.c15 import roots

EXPL = ("Decides the wiring that is necessary for the bound, not the counting inequality itself (that lives inside "
        "futures-channel). R12.1 stop / restart never wait: their entry points are synchronous up to the enqueue and reach "
        "only the forcing closures, which are synchronous, use a non-waiting enqueue and call no blocking primitive. R12.2 "
        "the bound: the waiting closure of the bounded constructor awaits SinkExt::send (feed *and* flush — a bare feed / "
        "start_send would return without waiting) on a fresh clone of the Sender of mpsc::channel(buffer), where buffer is "
        "the constructor's parameter unmodified and the builder / environment pass their capacity unmodified. R12.3 the "
        "APIs the property calls `send` reach the waiting closure and only it; the non-waiting ones reach only the forcing "
        "closure (call graph through the dyn table). R12.4 the unbounded constructor's closures hold an UnboundedSender.")

BLOCKING = ("::block_on", "::lock_blocking", "::park", "::recv", "thread::sleep", "::wait", "::blocking_send", "::blocking_lock", "::read_blocking", "::write_blocking")

# API -> which submit path(s) its code may reach
WAITING = "waiting"
FORCING = "forcing"
API_PATHS = {
    "addr::Addr::<A>::send": {WAITING},
    "addr::OwningAddr::<A>::send": {WAITING},
    "addr::sender::Sender::<M>::send": {WAITING},
    "addr::weak_sender::WeakSender::<M>::try_send": {WAITING},
    "addr::caller::Caller::<M>::call": {WAITING},
    "addr::weak_caller::WeakCaller::<M>::try_call": {WAITING},
    "context::Context::<A>::interval_with": {WAITING},
    "context::Context::<A>::delayed_send": {WAITING},
    "addr::Addr::<A>::call": {FORCING},
    "addr::Addr::<A>::ping": {FORCING},
    "addr::Addr::<A>::stop": {FORCING},
    "addr::Addr::<A>::restart": {FORCING},
    "addr::Addr::<A>::force_send": {FORCING},
    "addr::sender::Sender::<M>::force_send": {FORCING},
    "addr::weak_sender::WeakSender::<M>::try_force_send": {FORCING},
    "context::Context::<A>::stop": {FORCING},
    "context::Context::<A>::restart": {FORCING},
    "context::Context::<A>::send_to_children": {FORCING},
    "context::Context::<A>::interval": {FORCING},
}


def paths_reached(fx, name, depth=6):
    """which submit traits the code of `name` can reach (direct trait calls + dyn-table resolution)"""
    out = set()
    seen = set()
    work = [(name, 0)]
    while work:
        n, d = work.pop()
        if n in seen:
            continue
        seen.add(n)
        for f in graph.invoked_family(fx, n):
            b = Body(f)
            for _, t in b.normal_calls():
                if t.get("trait") == chan.TX_TRAIT:
                    out.add(WAITING)
                if t.get("trait") == chan.FORCE_TRAIT:
                    out.add(FORCING)
            if d < depth:
                for c, _bi, t in graph.local_callees(fx, f):
                    # do not walk from a handle constructor into unrelated code: stop at the channel layer
                    if c.startswith("channel::"):
                        continue
                    # Sender::new / Caller::new build all closures of a handle; follow only what is invoked: the dyn hop
                    work.append((c, d + 1))
    return out


def run(ctx):
    ctx.explanation = EXPL
    ctx.assumptions = ["futures-channel's bounded queue: a sender is parked when the queue holds more than `buffer` messages and SinkExt::send's flush waits until the receiver unparks it", "UnboundedSender's Sink is always ready"]
    cfgs = ["tokio"] if ctx.tier == "quick" else ["tokio", "smol", "asyncstd"]
    for cfg in cfgs:
        fx = ctx.facts(cfg) if cfg == "tokio" else ctx.try_facts(cfg)
        if fx is None:
            continue
        check_cfg(ctx, fx, cfg)
    return core.finish(ctx)


def check_waiting_send(ctx, fx, cfg, subs, n_wait_total, RULE="R12.2"):
    """the waiting submission over the bounded queue awaits `SinkExt::send` (feed + flush) on a sender clone made for this
    send (shared with C02: a futures-mpsc sender handle has one parked-waker slot — waiters that share a handle are not all
    woken when the queue drains or closes, so their sends never resolve)"""
    # the waiting closure over the bounded sender (wherever it is written)
    for kind, cf, key in subs:
        bounded_inst = cf is not None and any(any("futures_channel::mpsc::Sender<" in u for u in caps) for caps in chan.concrete_instances(fx, cf))
        if kind == "waiting" and cf and bounded_inst:
            n_wait_total[0] += 1
            cos = [fx.fn(st["r"]["def"]) for _bi, _si, st in agg_sites(ctx.body(fx, cf), ak="coroutine")]
            ctx.require(len(cos) == 1, RULE, "waiting-send-shape:%s@%s" % (cf["def"], cfg), "the bounded waiting closure must return one async block that awaits SinkExt::send on its own clone of the Sender (a Sender handle has a single waker slot: waiters sharing one handle lose wake-ups); found %d async blocks" % len(cos), fn=cf["def"], site=cf["loc"])
            for co in cos:
                cb = ctx.body(fx, co)
                enq = [(ebi, et) for ebi, et in cb.normal_calls() if chan.is_enqueue(et)]
                gen_ = set((fx.fn(cf.get("root", cf["def"])) or {}).get("generics") or [])
                recv_ty = enq[0][1]["argtys"][0] if enq else ""
                ok = len(enq) == 1 and enq[0][1]["callee"] == "futures_util::sink::SinkExt::send" and ("futures_channel::mpsc::Sender<" in recv_ty or recv_ty.replace("&mut ", "") in gen_)
                awaited = False
                fresh = False
                if ok:
                    fsk = sinks(cb, enq[0][1]["dest"][0])
                    awaited = any(s["k"] == "call" and (s["t"].get("callee") or "").endswith("Future::poll") for s in fsk)
                    for o in cb.origins(enq[0][1]["args"][0], through_calls=False):
                        if o.kind == "call" and (cb.call_at(o).get("callee") or "").endswith("Clone::clone"):
                            fresh = True
                ctx.require(ok and awaited and fresh, RULE, "waiting-send-flushes:%s@%s" % (cf["def"], cfg), "the bounded waiting path must await SinkExt::send (feed + flush) on a fresh clone of the bounded Sender: %s awaited=%s fresh_clone=%s" % ([et["callee"] for _x, et in enq], awaited, fresh), fn=co["def"], site=co["loc"], detail={"fresh_clone": fresh})



def check_no_mailbox_discarded(ctx, fx, cfg, RULE="R12.6"):
    """a mailbox that was configured is the one the actor runs on: no function lets a value that is / owns a
    `channel::Channel` go out of scope on a normal path (a builder stage that quietly replaces the bounded channel it was
    given by a fresh unbounded one drops the first). Expected count on the pinned tree: zero drops; the census of the
    functions looked at is the floor."""
    def holds_channel(ty):
        return "channel::Channel<" in ty or ty.startswith(("actor::builder::ActorBuilderWithChannel<", "actor::builder::StreamActorBuilder<"))
    n_fn = 0
    for f in fx.d["fns"]:
        if "post" in f:
            b = ctx.body(fx, f, "post")
            drops = [(bi, blk["t"]) for bi, blk in enumerate(b.blocks) if not blk["c"] and blk["t"]["k"] == "drop" and holds_channel(blk["t"].get("ty", ""))]
        else:
            b = ctx.body(fx, f, "pre")
            drops = [(bi, blk["t"]) for bi, blk in enumerate(b.blocks) if not blk["c"] and blk["t"]["k"] == "drop" and holds_channel(blk["t"].get("ty", "")) and len(blk["t"]["p"]) == 1 and not b.drop_is_noop_for(bi, blk["t"]["p"][0], holds_channel)]
        n_fn += 1
        if drops:
            ctx.viol(RULE, "mailbox-discarded:%s@%s" % (f["def"], cfg), "a configured mailbox is dropped here instead of being handed on to the environment: %s" % [(t_["ty"][:60], t_["l"]) for _, t_ in drops], fn=f["def"], site=drops[0][1]["l"])
    ctx.floor(RULE, "functions scanned for discarded mailboxes (%s)" % cfg, n_fn, 100)
    ctx.ok(RULE, "no-mailbox-discarded@" + cfg, "crate", {"functions": n_fn})


def check_cfg(ctx, fx, cfg):
    if cfg != "bare":
        check_no_mailbox_discarded(ctx, fx, cfg)
    # R12.5 (shared with C01) the receiving side adds nothing to the capacity: a loop takes a payload out of the mailbox
    # at one site and dispatches it before it takes the next — a look-ahead slot un-parks one more waiting sender while the
    # actor has not taken up the work
    from props import c01
    core.shared(ctx, "R12.5", c01.check_dequeue_discipline, ctx, fx, cfg, "R12.5", {"L8"})
    subs = chan.submit_closures(fx)
    ctors = chan.constructors(fx)
    # R12.1 forcing closures
    nf = 0
    for kind, cf, key in subs:
        if kind != "forcing" or cf is None:
            continue
        # (one view per instantiation of a closure written in a generic helper)
        for _caps, b in chan.instance_bodies(ctx, fx, cf):
            nf += 1
            inst = "forcing:%s@%s" % (cf["def"], cfg)
            blocking = [(t["callee"], t["l"]) for _, t in b.normal_calls() if (t.get("callee") or "").endswith(BLOCKING)]
            enq = [t for _, t in b.normal_calls() if chan.is_enqueue(t)]
            nonwaiting = all((t["callee"]).endswith(("::start_send", "::try_send", "::unbounded_send")) for t in enq) and len(enq) == 1
            sync = (cf["kind"] == "closure" or (cf.get("_adt") and not cf.get("is_async"))) and not any(True for _bi, _si, _st in agg_sites(b, ak="coroutine"))
            ctx.require(not blocking and nonwaiting and sync, "R12.1", inst, "the forcing closure must enqueue synchronously without waiting: blocking %s, enqueue %s, sync %s" % (blocking, [t["callee"].split("::")[-1] for t in enq], sync), fn=cf["def"], site=cf["loc"], detail={"enqueue": [t["callee"].split("::")[-1] for t in enq]})
    ctx.floor("R12.1", "forcing closures (%s)" % cfg, nf, 2)
    for e in ("addr::Addr::<A>::stop", "addr::Addr::<A>::restart", "context::Context::<A>::stop", "context::Context::<A>::restart", "addr::weak_addr::WeakAddr::<A>::try_stop"):
        f = fx.fn(e)
        ctx.require(f is not None and not f.get("is_async"), "R12.1", "sync-entry:%s@%s" % (e, cfg), "%s must be a synchronous function (a stop request never waits)" % e, fn=e, site=f["loc"] if f else None)
    # R12.2 the bound
    n_wait_total = [0]
    for fn_, calls in sorted(ctors.items()):
        bi, t = calls[0]
        f = fx.fn(fn_)
        b = ctx.body(fx, f)
        if t["callee"].endswith("::channel"):
            rs = roots(b, t["args"][0])
            ctx.require(all(r.kind == "arg" and not r.proj for r in rs) and rs, "R12.2", "buffer-unmodified:%s@%s" % (fn_, cfg), "mpsc::channel must be created with exactly the capacity given: roots %s" % sorted(map(str, rs)), fn=fn_, site=t["l"])
            check_waiting_send(ctx, fx, cfg, subs, n_wait_total)
    ctx.floor("R12.2", "bounded waiting closures (%s)" % cfg, n_wait_total[0], 1)
    CAP_ENTRIES = {"actor::builder::BaseActorBuilder::<A, P>::bounded": 1, "actor::builder::BaseActorBuilder::<A, P>::bounded_on_stream": 1, "environment::Environment::<A>::bounded": 0}
    for caller, idx in (("actor::builder::BaseActorBuilder::<A, P>::bounded", 1), ("actor::builder::BaseActorBuilder::<A, P>::bounded_on_stream", 1), ("environment::Environment::<A>::bounded", 0)):
        f = fx.fn(caller)
        if f is None:
            if cfg == "bare" and caller.startswith("actor::builder"):
                continue
            ctx.viol("R12.2", "capacity:%s@%s" % (caller, cfg), "%s not found" % caller)
            continue
        b = ctx.body(fx, f)
        calls = [t for _, t in b.normal_calls() if t.get("callee") == "channel::Channel::<A>::bounded"]
        if not calls:
            # ... or, in a private helper, picks the constructor by an `Option` of the capacity:
            # `with_capacity(Some(capacity))` .. `capacity.map_or_else(Channel::unbounded, Channel::bounded)`
            import inline
            ib = inline.body(ctx, fx, f, inline.not_public)
            picks = [t for _, t in ib.normal_calls() if (t.get("callee") or "").startswith("core::option::{impl#0}::map") and any(a.get("k") == "const" and a.get("fn") == "channel::Channel::<A>::bounded" for a in t["args"][1:])]
            if len(picks) == 1:
                okp = False
                for o in ib.origins(picks[0]["args"][0]):
                    if o.kind == "agg" and not o.proj:
                        a_ = ib.blocks[o.site[0]]["s"][o.site[1]]["r"]
                        if a_.get("variant") == "Some" and len(a_.get("ops", [])) == 1:
                            rs_ = [r for r in roots(ib, a_["ops"][0]) if r.kind != "local"]
                            okp = bool(rs_) and all(r.kind == "arg" and not r.proj for r in rs_)
                        else:
                            okp = False
                            break
                    else:
                        okp = False
                        break
                ctx.require(okp, "R12.2", "capacity:%s@%s" % (caller.split("::", 2)[-1], cfg), "the capacity must reach Channel::bounded unmodified", fn=caller, site=f["loc"])
                continue
        if not calls:
            # ... or hands it, unmodified, to another of these capacity-taking entry points (`self.bounded(capacity)`)
            calls = [t for _, t in b.normal_calls() if (t.get("resolved") or t.get("callee")) in CAP_ENTRIES and (t.get("resolved") or t.get("callee")) != caller]
            idx2 = CAP_ENTRIES.get((calls[0].get("resolved") or calls[0].get("callee"))) if calls else None
            ok = len(calls) == 1 and idx2 is not None and all(r.kind == "arg" and not r.proj for r in roots(b, calls[0]["args"][idx2]))
            ctx.require(ok, "R12.2", "capacity:%s@%s" % (caller.split("::", 2)[-1], cfg), "the capacity must reach Channel::bounded unmodified", fn=caller, site=f["loc"])
            continue
        ok = len(calls) == 1 and all(r.kind == "arg" and not r.proj for r in roots(b, calls[0]["args"][0]))
        ctx.require(ok, "R12.2", "capacity:%s@%s" % (caller.split("::", 2)[-1], cfg), "the capacity must reach Channel::bounded unmodified", fn=caller, site=f["loc"])
    # R12.3 API -> path
    n_api = 0
    for api, want in API_PATHS.items():
        if fx.fn(api) is None:
            if cfg != "bare":
                ctx.viol("R12.3", "api:%s@%s" % (api, cfg), "API %s not found" % api)
            continue
        got = paths_reached(fx, api)
        n_api += 1
        ctx.require(got == want, "R12.3", "api:%s@%s" % (api, cfg), "%s must go through the %s path only, reaches %s" % (api, "/".join(sorted(want)), sorted(got)), fn=api, site=fx.fn(api)["loc"], detail=sorted(got))
    ctx.floor("R12.3", "APIs classified (%s)" % cfg, n_api, 12)
    # R12.4 (shared with C01: wherever the submit closures / objects of a constructor are written — in place, in a helper, as a
    # named type — each holds an end of the one queue that constructor created; for the unbounded constructor that queue is
    # `mpsc::unbounded`, so nothing submitted through it can wait)
    from props import c01 as _c01
    core.shared(ctx, "R12.4", _c01.check_single_queue, ctx, fx, cfg, "R12.4", "R12.4")
    ub = [fn_ for fn_, calls in ctors.items() if calls[0][1]["callee"].endswith("::unbounded")]
    ctx.require(len(ub) == 1, "R12.4", "unbounded-ctor@" + cfg, "expected exactly one constructor on an mpsc::unbounded queue, found %s" % sorted(ub), detail=sorted(ub))
    for fn_, calls in sorted(ctors.items()):
        if calls[0][1]["callee"].endswith("::unbounded"):
            for kind, cf, key in subs:
                if cf and cf["def"].startswith(fn_ + "::") and kind in ("waiting", "forcing"):
                    ups = cf.get("upvars", [])
                    ctx.require(any("UnboundedSender<" in u for u in ups) and not any("mpsc::Sender<" in u for u in ups), "R12.4", "%s:%s@%s" % (kind, fn_, cfg), "the unbounded constructor's closures must hold an UnboundedSender", fn=cf["def"], site=cf["loc"], detail=[u[:60] for u in ups])
