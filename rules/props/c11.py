"""C11 — handler timeouts abandon exactly the invocations that exceed the limit."""
import core, nfa, loops, graph
from mir import Body, sinks, agg_sites
from props.c15 import roots
from props.c03 import run_loops

EXPL = ("R11.1 (A3) configuration flow: the four builder setters store Some(t) / the flag unmodified, the plain terminals "
        "pass the builder's config into the environment, the loop captures config.timeout and config.fail_on_timeout and "
        "hands that timeout to the timeout wrapper for every Task payload. R11.2 (A1 + A3 on the wrapper, the crate-local "
        "async fn that races its argument against futures_timer::Delay): on the Some(t) edge Delay::new receives that t, "
        "both futures are raced in one select, the Delay arm yields Err(Timeout) and the future arm its result; on the None "
        "edge no Delay is reachable and the future is awaited alone — without a configured timeout nothing is abandoned. "
        "R11.3 (A1 plain loop) on the wrapper's Err: fail_on_timeout → Err return without stopped()/announcement; "
        "otherwise the next dequeue. Not decided: the timing boundary itself (select!'s tie-break, timer accuracy).")


class WrapperSpec(nfa.Spec):
    def __init__(self, delay_arm, fut_arm):
        self.delay_arm = delay_arm
        self.fut_arm = fut_arm
        self.init = ("s0",)

    def step(self, st, label):
        label = loops.norm(label)
        ev = label.split("@")[0]
        src = label.split("@")[1] if "@" in label else ""
        ph = st[0]
        if ev in ("unwind", "cancel") or ev.startswith("pend:"):
            return st
        if ev == "sw:Option::Some" and src == "timeout" and ph == "s0":
            return ("limited",)
        if ev == "sw:Option::None" and src == "timeout" and ph == "s0":
            return ("unlimited",)
        if ev == "call:delay":
            if ph == "unlimited":
                return nfa.Err("R11.2: a timer is armed although no timeout is configured (invocations would be abandoned)")
            if ph != "limited":
                return nfa.Err("R11.2: Delay armed in phase %s" % ph)
            return ("armed",)
        if ev == "call:select":
            if ph != "armed":
                return nfa.Err("R11.2: race started in phase %s (needs the timer armed with the configured limit)" % ph)
            return ("racing",)
        if ev == "done:select":
            return ("raced",) if ph == "racing" else st
        if ev == "sw:Sel::" + self.delay_arm and ph == "raced":
            return ("timed_out",)
        if ev == "sw:Sel::" + self.fut_arm and ph == "raced":
            return ("completed",)
        if ev == "done:handler":
            if ph == "unlimited":
                return ("completed_alone",)
            return st
        if ev == "retval:Err":
            if ph != "timed_out":
                return nfa.Err("R11.2: Err(Timeout) produced in phase %s (only the timer arm may abandon the invocation)" % ph)
            return ("ret_timeout",)
        if ev in ("retval:move", "retval:Ok"):
            if ph not in ("completed", "completed_alone"):
                return nfa.Err("R11.2: the handler's completion is reported in phase %s" % ph)
            return ("ret_done",)
        if ev == "ret":
            if ph not in ("ret_timeout", "ret_done"):
                return nfa.Err("R11.2: the wrapper returns in phase %s" % ph)
        return st


class LoopTimeout(nfa.Spec):
    def __init__(self, fail_label, helper=False):
        self.fail_label = fail_label  # None: every error outcome must end the loop as failed (a helper has already decided)
        self.helper = helper          # the reacting body is a helper: "carry on" means handing back Ok
        self.init = ("idle",)

    def step(self, st, label):
        label = loops.norm(label)
        ev = label.split("@")[0]
        src = label.split("@")[1] if "@" in label else ""
        ph = st[0]
        if ev in ("unwind", "cancel") or ev.startswith("pend:"):
            return st
        if self.fail_label is None:
            # the wrapper here is a helper that has already decided: its verdict must be looked at before anything else
            if ev == "done:wrap":
                return ("verdict",)
            if ph == "verdict" and not (ev.startswith("sw:Res::") and src == "wrap") and (ev.startswith("call:") or ev.startswith("retval:") or ev == "ret"):
                return nfa.Err("R11.3: the loop goes on (%s) without looking at the outcome of the helper that ran the task" % ev)
        if ev == "sw:Res::Err" and src == "wrap":
            return ("timed_out",) if self.fail_label else ("must_fail",)
        if ev == "sw:Res::Ok" and src == "wrap":
            return ("idle",)
        if ph == "timed_out":
            if ev == self.fail_label + "=1":
                return ("must_fail",)
            if ev == self.fail_label + "=0":
                return ("must_continue",)
            if ev.startswith("call:") or ev.startswith("retval:") or ev == "ret":
                return nfa.Err("R11.3: after a timeout the loop acts (%s) without consulting fail_on_timeout" % ev)
        if ph == "must_fail":
            if ev in ("retval:Err", "retval:residual"):
                return ("failing",)
            if ev.startswith("call:"):
                return nfa.Err("R11.3: fail_on_timeout is set but the loop goes on with %s" % ev)
        if ph == "failing":
            if ev == "ret":
                return ("idle",)
            if ev.startswith("call:"):
                return nfa.Err("R11.3: lifecycle event %s on the timeout-failure path" % ev)
        if ph == "must_continue":
            if ev == "call:next" or (self.helper and ev in ("retval:Ok", "ret")):
                return ("idle",)
            if ev.startswith("call:") or ev.startswith("retval:") or ev == "ret":
                return nfa.Err("R11.3: fail_on_timeout is not set but the loop does not carry on with the next message (%s)" % ev)
        return st


def run(ctx):
    ctx.explanation = EXPL
    ctx.assumptions = ["futures_timer::Delay::new(t) does not fire before t", "select! drops the losing future when the wrapper's frame is dropped (it owns both)"]
    cfgs = ["tokio"] if ctx.tier == "quick" else ["tokio", "smol", "asyncstd"]
    for cfg in cfgs:
        fx = ctx.facts(cfg) if cfg == "tokio" else ctx.try_facts(cfg)
        if fx is None:
            continue
        ctx.cfg_tag = cfg
        run_cfg(ctx, fx)
    return core.finish(ctx)


def run_cfg(ctx, fx):
    # R11.4 (shared with C01) nothing but the timeout wrapper abandons an invocation: every payload runs the handler of its
    # message on all its paths and drives the handler future to completion (a payload that races the handler against the
    # caller's interest, or skips it, abandons invocations although no limit is configured)
    from props import c01 as _c01
    core.shared(ctx, "R11.4", _c01.check_payloads, ctx, fx, fx.cfg, "R11.4")
    # R11.5 (shared with C04) "... or terminates as failed (fail_on_timeout)": the failure exit of the loop drops the stop notifier
    # unsent — the termination notice is sent by `notify` only, and only the loops' graceful end calls it — so awaiting an address
    # of an actor that was terminated by an over-limit invocation yields an error
    from props import c04 as _c04
    if fx.cfg == "tokio":
        core.shared(ctx, "R11.5", _c04.check_notifier, ctx, fx, "R11.5")
    # R11.1 setters
    setters = {
        "actor::builder::BaseActorBuilder::<A, P>::timeout": "Some",
        "actor::builder::BaseActorBuilder::<A, P>::fail_on_timeout": "flag",
        "actor::builder::ActorBuilderWithChannel::<A, P, R>::timeout": "Some",
        "actor::builder::ActorBuilderWithChannel::<A, P, R>::fail_on_timeout": "flag",
    }
    flag_fields = set()
    for s, kind in setters.items():
        f = fx.fn(s)
        if not ctx.require(f is not None, "R11.1", "setter:" + s, "builder setter %s not found" % s):
            continue
        import inline

        def judge(b, flag_fields=flag_fields, kind=kind):
            stores = b.partial.get(1, [])
            good = False
            for (_bi, _si, st) in stores:
                r = st["r"]
                if r["k"] != "use":
                    continue
                # the whole configuration written back with one field replaced (`Self { timeout: Some(timeout), ..self }`): every
                # other field is the one that was there
                aggs_ = [o for o in b.origins(r["o"]) if o.kind == "agg" and not o.proj]
                if len(aggs_) == 1 and len(b.origins(r["o"])) == 1:
                    ast_ = b.blocks[aggs_[0].site[0]]["s"][aggs_[0].site[1]]["r"]
                    if ast_.get("ak") == "adt" and ast_.get("def") in fx.adts and len(fx.adts[ast_["def"]]["variants"]) == 1 and len(ast_.get("ops", [])) > 1:
                        spath = [e for e in st["p"][1:] if e != "*"]
                        changed = []
                        for fi_, op_ in enumerate(ast_["ops"]):
                            rs_ = [x for x in roots(b, op_) if x.kind != "local"]
                            same = bool(rs_) and all(x.kind == "arg" and x.site == 1 and [e for e in x.proj if e != "*"] == spath + ["f%d" % fi_] for x in rs_)
                            if not same:
                                changed.append((fi_, op_))
                        if len(changed) == 1:
                            fi_, op_ = changed[0]
                            if kind == "Some":
                                for o in b.origins(op_):
                                    if o.kind == "agg":
                                        a2 = b.blocks[o.site[0]]["s"][o.site[1]]
                                        if a2["r"].get("variant") == "Some":
                                            good = all(x.kind == "arg" and x.site == 2 and not x.proj for x in roots(b, a2["r"]["ops"][0]))
                            else:
                                good = all(x.kind == "arg" and x.site == 2 and not x.proj for x in roots(b, op_))
                                if good:
                                    flag_fields.add("f%d" % fi_)
                            if good:
                                continue
                if kind == "Some":
                    for o in b.origins(r["o"]):
                        if o.kind == "agg":
                            ast = b.blocks[o.site[0]]["s"][o.site[1]]
                            if ast["r"].get("variant") == "Some":
                                good = all(x.kind == "arg" and x.site == 2 and not x.proj for x in roots(b, ast["r"]["ops"][0]))
                if kind == "flag":
                    good = all(x.kind == "arg" and x.site == 2 and not x.proj for x in roots(b, r["o"]))
                    if not good:
                        # ... or re-encoded as a two-variant enum by a crate-local pure function of the argument alone
                        os_ = b.origins(r["o"], through_calls=False)
                        if len(os_) == 1 and next(iter(os_)).kind == "call":
                            ct = b.call_at(next(iter(os_)))
                            g_ = fx.callee_fn(ct)
                            bm = nfa.bool_enum_map(fx, g_) if g_ is not None else None
                            if bm is not None and not bm["proj"] and bm["param"] < len(ct["args"]):
                                good = all(x.kind == "arg" and x.site == 2 and not x.proj for x in roots(b, ct["args"][bm["param"]]))
                    # which field of the configuration holds the flag (by what this setter writes, not by its name)
                    pr_ = [e for e in st["p"][1:] if e != "*"]
                    if good and pr_:
                        flag_fields.add(pr_[-1])
            rr_ = [x for x in roots(b, {"k": "move", "p": [0]}) if not (x.proj and str(x.proj[0]).startswith("<part:")) and x.kind != "local"]
            # (what is returned is the builder it was given — with the stored piece, made of the builder and the argument, in it)
            def _from_args(x):
                if x.kind == "arg":
                    return x.site in (1, 2)
                if x.kind == "agg":  # `Some(timeout)`
                    a3 = b.blocks[x.site[0]]["s"][x.site[1]]["r"]
                    return all(y.kind == "arg" and y.site == 2 for op3 in a3.get("ops", []) for y in roots(b, op3))
                return False
            returns_self = any(x.kind == "arg" and x.site == 1 and not x.proj for x in rr_) and all(_from_args(x) for x in rr_)
            always = len(stores) == 1 and b.on_all_paths_to_return(stores[0][0])
            return good and len(stores) == 1 and returns_self and always
        # the setter as written, or — when it goes through a by-value helper of the configuration
        # (`self.config = self.config.with_timeout(timeout)`) — with that helper inlined
        verdict = judge(ctx.body(fx, f)) or judge(inline.body(ctx, fx, f, inline.not_public))
        ctx.require(verdict, "R11.1", "setter:" + s.split("::", 2)[-1], "the setter must store its argument unmodified in the builder's config and return the builder", fn=s, site=f["loc"])
    for term in ("actor::builder::ActorBuilderWithChannel::<A, P, R>::spawn", "actor::builder::ActorBuilderWithChannel::<A, P, R>::spawn_owning"):
        f = fx.fn(term)
        if not ctx.require(f is not None, "R11.1", "terminal:" + term, "terminal not found"):
            continue
        # the call that gives the environment its configuration: `.with_config(config)` or a constructor taking it
        def takes_config(t):
            return bool(t.get("callee_local")) and any(a == "environment::EnvironmentConfig" for a in t.get("argtys", [])) and (t.get("destty") or "").startswith("environment::Environment<")
        def _builder_helpers(g, t):  # the builder's own private helpers, not the environment's functions that are looked for
            return inline.not_public(g, t) and not g["def"].startswith("environment::")
        b = inline.body(ctx, fx, f, _builder_helpers)  # (`let (actor, env) = self.into_parts();` configures the environment)
        if not any(takes_config(t) for _, t in b.normal_calls()):
            wf = graph.wiring_fn(fx, term, takes_config) or f
            b = inline.body(ctx, fx, wf, _builder_helpers)
        wc = [t for _, t in b.normal_calls() if takes_config(t)]
        ok = len(wc) == 1 and all(x.kind == "arg" for x in roots(b, wc[0]["args"][wc[0]["argtys"].index("environment::EnvironmentConfig")]))
        # and the configured environment is the one whose loop is created
        if ok:
            # ... directly (create_loop) or through one of the crate's own spawn entry points that take an environment
            cl = [t for _, t in b.normal_calls() if (t.get("callee") or "").endswith("::create_loop") or ((t.get("callee_local") or t.get("resolved_local")) and any(a.startswith("environment::Environment<") for a in t.get("argtys", [])) and not takes_config(t))]
            ok = len(cl) == 1 and any(any(o.kind == "call" and b.call_at(o) is wc[0] for o in b.origins(a)) for a in cl[0]["args"])
        ctx.require(ok, "R11.1", "terminal:" + term.split("::", 2)[-1], "the terminal must run the loop of the environment configured with the builder's config", fn=term, site=f["loc"])
    # every function that is given a configuration for an environment stores exactly that configuration in it
    takers = [g for g in fx.d["fns"] if g["kind"] in ("fn", "assoc_fn") and (g.get("output") or "").startswith("environment::Environment<") and any((i.get("ty") if isinstance(i, dict) else i) == "environment::EnvironmentConfig" for i in (g.get("inputs") or []))]
    if ctx.require(len(takers) >= 1, "R11.1", "with_config", "no function gives an Environment its configuration"):
        for wcf in takers:
            b = ctx.body(fx, wcf)
            cidx = [k for k, i in enumerate(wcf.get("inputs") or []) if (i.get("ty") if isinstance(i, dict) else i) == "environment::EnvironmentConfig"][0] + 1
            stores = b.partial.get(1, [])
            ok = len(stores) == 1 and stores[0][2]["r"]["k"] == "use" and all(x.kind == "arg" and x.site == cidx for x in roots(b, stores[0][2]["r"]["o"])) and all(x.kind == "arg" and x.site == 1 for x in roots(b, {"k": "move", "p": [0]}) if not (x.proj and str(x.proj[0]).startswith("<part:")))
            if not ok:
                # ... or builds the environment with it
                for _b2, _s2, st2 in agg_sites(b, adt="environment::Environment"):
                    fl = st2["r"].get("fields") or []
                    if "config" in fl:
                        o2 = st2["r"]["ops"][fl.index("config")]
                        ok = all(x.kind == "arg" and x.site == cidx and not x.proj for x in b.origins(o2)) and bool(b.origins(o2))
            ctx.require(ok, "R11.1", "with_config:" + wcf["def"].split("::")[-1], "%s must store the given config" % wcf["def"], fn=wcf["def"], site=wcf["loc"])
    # the plain loop
    plain = [(f, k) for f, k in loops.find_loops(fx) if k == "plain"]
    if not ctx.require(len(plain) == 1, "R11.1", "plain-loop", "plain loop not found"):
        return None
    lf = plain[0][0]
    lb = ctx.body(fx, lf)
    parent = fx.fn(lf["parent"])
    pb = ctx.body(fx, parent)
    caps = None
    for _bi, _si, st in agg_sites(pb, ak="coroutine"):
        if st["r"]["def"] == lf["def"]:
            caps = st["r"]["ops"]
    env_fields = [fl["name"] for fl in fx.adts["environment::Environment"]["variants"][0]["fields"]]
    cfg_fields = [fl["name"] for fl in fx.adts["environment::EnvironmentConfig"]["variants"][0]["fields"]]

    def cap_path(i):
        o = caps[i]
        # (`let timeout = self.config.timeout;` in front of the async block: the capture is a local that was assigned once, from the field)
        for _hop in range(2):
            if o["k"] in ("copy", "move") and len(o["p"]) == 1 and o["p"][0] != 1:
                defs_ = [st_ for bl_ in pb.blocks if not bl_["c"] for st_ in bl_["s"] if st_["k"] == "assign" and st_["p"] == o["p"]]
                if len(defs_) == 1 and defs_[0]["r"]["k"] == "use" and defs_[0]["r"]["o"].get("k") in ("copy", "move"):
                    o = defs_[0]["r"]["o"]
                    continue
            break
        if o["k"] not in ("copy", "move") or o["p"][0] != 1:
            return None
        names = []
        cur = env_fields
        for e in o["p"][1:]:
            if e.startswith("f") and e[1:].isdigit():
                idx = int(e[1:])
                if idx < len(cur):
                    names.append(cur[idx])
                    cur = cfg_fields if cur[idx] == "config" else []
        return ".".join(names)
    paths = {i: cap_path(i) for i in range(len(caps or []))}
    t_field = cfg_fields.index("timeout") if "timeout" in cfg_fields else -1
    f_field = cfg_fields.index("fail_on_timeout") if "fail_on_timeout" in cfg_fields else -1
    if f_field < 0 and len(flag_fields) == 1 and next(iter(flag_fields))[1:].isdigit() and int(next(iter(flag_fields))[1:]) < len(cfg_fields):
        f_field = int(next(iter(flag_fields))[1:])  # the field was renamed: it is the one the fail_on_timeout setters write
    f_name = cfg_fields[f_field] if f_field >= 0 else "fail_on_timeout"
    # where the configuration lives in the loop's captures: the two fields captured on their own, or the whole config
    t_idx = [i for i, p in paths.items() if p == "config.timeout"]
    f_idx = [i for i, p in paths.items() if p == "config." + f_name]
    c_idx = [i for i, p in paths.items() if p == "config"]
    if not ctx.require((len(t_idx) == 1 and len(f_idx) == 1) or len(c_idx) == 1, "R11.1", "loop-captures-config", "the plain loop must capture config.timeout and config.fail_on_timeout (or the config): captures %s" % paths, fn=lf["def"], site=lf["loc"], detail=paths):
        return None

    def is_cfg_field(body_, operand, field, bind):
        """does this operand of body_ read Environment.config.<field>? bind: upvar index of body_ -> operand of the loop body
        (None when body_ is the loop itself)"""
        for r in body_.origins(operand):
            if r.kind != "upvar":
                return False
            proj = [e for e in r.proj if e != "*" and not str(e).startswith("d")]
            if bind is None:
                base, rest = paths.get(r.site), proj
            else:
                lop = bind.get(r.site)
                if lop is None:
                    return False
                lr = lb.origins(lop)
                if len(lr) != 1 or next(iter(lr)).kind != "upvar":
                    return False
                l0 = next(iter(lr))
                base, rest = paths.get(l0.site), [e for e in l0.proj if e != "*"] + proj
            if field is None:
                # the whole configuration (lent to a wrapper that reads the limit from it)
                if base == "config" and not rest:
                    continue
                return False
            want_idx = t_field if field == "timeout" else f_field
            if base == "config." + field and not [e for e in rest if not str(e).startswith("f0")] and field != "timeout":
                continue
            if base == "config." + field:
                continue
            if base == "config" and rest[:1] == ["f%d" % want_idx]:
                continue
            return False
        return True
    # the body that runs a task under the wrapper and reacts to its outcome: the loop itself, or a helper it awaits
    rb_f, bind, hcall = lf, None, None
    wraps = [(bi, t) for bi, t in lb.normal_calls() if loops.local_wrapper(t)]
    if not wraps:
        for g in loops.loop_family(fx, lf)[1:]:
            if g["kind"] != "coroutine":
                continue
            gw = [(bi, t) for bi, t in ctx.body(fx, g).normal_calls() if loops.local_wrapper(t)]
            if gw:
                hc = [ht for _hb, ht in lb.normal_calls() if not (ht.get("callee") or "").endswith(("Future::poll", "poll_unpin")) and fx.callee_fn(ht) is not None and fx.callee_fn(ht)["def"] == g.get("parent")]
                if len(hc) == 1:
                    rb_f, hcall = g, hc[0]
                    bind = {i: a for i, a in enumerate(hcall["args"])}
                    wraps = gw
                break
    rb = ctx.body(fx, rb_f)
    inv = [(bi, t) for bi, t, _ok in loops.task_invokes(fx, rb)]
    ok = len(wraps) == 1 and len(inv) == 1
    sig = wrapper_sig(fx, wraps[0][1]) if wraps else None
    ok = ok and sig is not None
    if ok:
        wt = wraps[0][1]
        r0 = rb.origins(wt["args"][sig[0]])
        ok = all(o.kind == "call" and o.site == (inv[0][0],) for o in r0) and is_cfg_field(rb, wt["args"][sig[1]], "timeout" if sig[2] in ("option", "duration") else None, bind)
        if ok and sig[2] == "duration":
            # the limit handed over is what was found inside `Some(..)` of the configured timeout, and the handler future is awaited
            # without the wrapper only on the `None` side of that test
            lr = rb.origins(wt["args"][sig[1]])
            ok = bool(lr) and all(any(str(e).endswith(":Some") for e in o.proj) for o in lr)
            sw = None
            for bi2, blk2 in enumerate(rb.blocks):
                if blk2["c"] or blk2["t"].get("k") != "switch" or not blk2["s"]:
                    continue
                last = blk2["s"][-1]
                r2 = last.get("r") or {}
                if last.get("k") == "assign" and r2.get("k") == "discr" and r2.get("adt") == "core::option::Option" and "core::time::Duration" in (r2.get("ty") or "") and blk2["t"].get("o", {}).get("p") == last.get("p"):
                    if is_cfg_field(rb, {"k": "copy", "p": r2["p"]}, "timeout", bind):
                        sw = (bi2, blk2, r2)
            if ok and sw is not None:
                bi2, blk2, r2 = sw
                named = {val: r2["variants"].get(val) for val, _tg in blk2["t"]["targets"]}
                some_t = [tg for val, tg in blk2["t"]["targets"] if named.get(val) == "Some"]
                none_t = [tg for val, tg in blk2["t"]["targets"] if named.get(val) == "None"]
                other = blk2["t"].get("otherwise")
                if not some_t and other is not None and none_t:
                    some_t = [other]
                if not none_t and other is not None and some_t:
                    none_t = [other]
                if len(some_t) == 1 and len(none_t) == 1:
                    rs_ = rb.reachable_from(some_t[0], stop={bi2})
                    rn_ = rb.reachable_from(none_t[0], stop={bi2})
                    wrap_b = wraps[0][0]
                    direct = [pb_ for pb_, pt_ in rb.normal_calls() if (pt_.get("callee") or "").endswith(("Future::poll", "poll_unpin")) and any(o.kind == "call" and o.site == (inv[0][0],) for o in rb.polled_future_origins(pb_))]
                    ok = wrap_b in rs_ and wrap_b not in rn_ and bool(direct) and all(d_ in rn_ and d_ not in rs_ for d_ in direct)
                else:
                    ok = False
            else:
                ok = False
    ctx.require(ok, "R11.1", "every-task-through-wrapper", "every Task's handler future must be handed to the timeout wrapper together with the configured timeout", fn=rb_f["def"], site=wraps[0][1]["l"] if wraps else lf["loc"])
    # R11.3 the reaction to the wrapper's outcome
    A = loops.lifecycle_alphabet()
    A.upvar_bools = True
    # "carries on with its state intact": between the verdict and the next dequeue the loop does nothing to the context
    # (any crate-local function that is lent the context mutably counts; logging does not)
    A.calls = A.calls + [("ctxmut", lambda t: bool(t.get("callee_local")) and any(a.startswith("&mut context::Context<") for a in t.get("argtys", [])))]
    n = nfa.build(rb, A, fx, depth=2)
    # the label of a branch on fail_on_timeout in the reacting body
    flag_labels = set()
    for e_ in {lab for es in n.edges.values() for (lab, _d, _l) in es if lab and lab.startswith("bool:upvar")}:
        nm = e_[len("bool:"):].rsplit("=", 1)[0]
        up = int(nm[len("upvar"):].split(".")[0])
        rest = nm.split(".")[1:]
        if bind is None:
            base = paths.get(up)
        else:
            lr = lb.origins(bind.get(up)) if bind.get(up) is not None else set()
            l0 = next(iter(lr)) if len(lr) == 1 else None
            base = paths.get(l0.site) if (l0 is not None and l0.kind == "upvar") else None
            rest = ([e for e in l0.proj if e != "*"] if l0 is not None else []) + rest
        if (base == "config." + f_name and not rest) or (base == "config" and rest == ["f%d" % f_field]):
            flag_labels.add("bool:" + nm)
    if ctx.require(len(flag_labels) == 1, "R11.3", "plain-loop", "the reaction to a timeout never branches on fail_on_timeout (branches found: %s)" % sorted(flag_labels), fn=rb_f["def"], site=rb_f["loc"]):
        fl = next(iter(flag_labels))
        viols, ps = nfa.check(n, LoopTimeout(fl, helper=(rb_f is not lf)))
        ctx.count_nfa(n.stats(), ps)
        for v in viols:
            ctx.viol("R11.3", "plain-loop", v["msg"], fn=rb_f["def"], site=rb_f["loc"], trace=v["trace"])
        if not viols:
            ctx.require(len(nfa.edges_labelled(n, fl)) >= 2, "R11.3", "plain-loop", "the loop never branches on fail_on_timeout", fn=rb_f["def"], site=rb_f["loc"], detail={"product_states": ps})
    if rb_f is not lf:
        # ... and the loop treats the helper's verdict as final: an error ends the actor as failed, Ok goes on with the next message
        A2 = loops.lifecycle_alphabet()
        A2.calls = [(l_, p_) for (l_, p_) in A2.calls if l_ != "wrap"] + [("wrap", lambda x, _h=hcall: x is _h)]
        n2 = nfa.build(lb, A2)
        v2, p2 = nfa.check(n2, LoopTimeout(None, helper=False))
        ctx.count_nfa(n2.stats(), p2)
        for v in v2:
            ctx.viol("R11.3", "plain-loop:helper-verdict", v["msg"], fn=lf["def"], site=lf["loc"], trace=v["trace"])
        if not v2:
            ctx.ok("R11.3", "plain-loop:helper-verdict", lf["loc"], {"helper": rb_f["def"]})
    # R11.2 wrapper
    if wraps:
        wdef = wraps[0][1]["callee"]
        wco = [c for c in fx.children_of(wdef) if c["kind"] == "coroutine"]
        if ctx.require(len(wco) == 1, "R11.2", "wrapper-body", "body of the timeout wrapper %s not found" % wdef):
            check_wrapper(ctx, fx, wco[0], sig or (0, 1, "option", -1))
    return None


def wrapper_sig(fx, t):
    """which argument of the timeout wrapper's call is the handler future and which carries the limit — the limit itself
    (`Option<Duration>`) or the configuration it is read from (`&EnvironmentConfig`, for a wrapper written as a method of
    the configuration): (future index, limit index, 'option' | 'config', field index of `timeout` in the configuration)"""
    tys = t.get("argtys", [])

    def is_future(a):
        return a.startswith("core::pin::Pin<alloc::boxed::Box<dyn core::future::future::Future") or a.startswith("impl Future") or a.startswith("impl core::future::future::Future")
    fut = [i for i, a in enumerate(tys) if is_future(a)]
    opt = [i for i, a in enumerate(tys) if a == "core::option::Option<core::time::Duration>"]
    cfgs = [i for i, a in enumerate(tys) if a.replace("&", "").replace("mut ", "").strip() == "environment::EnvironmentConfig"]
    cfg_fields = [fl["name"] for fl in fx.adts["environment::EnvironmentConfig"]["variants"][0]["fields"]] if "environment::EnvironmentConfig" in fx.adts else []
    t_field = cfg_fields.index("timeout") if "timeout" in cfg_fields else -1
    if len(fut) == 1 and len(opt) == 1:
        return (fut[0], opt[0], "option", t_field)
    if len(fut) == 1 and len(cfgs) == 1 and not opt:
        return (fut[0], cfgs[0], "config", t_field)
    # the wrapper is only called when a limit is configured and is given the limit itself
    # (`let Some(limit) = timeout else { task.await; continue }; with_deadline(task, limit).await`)
    durs = [i for i, a in enumerate(tys) if a == "core::time::Duration"]
    if len(fut) == 1 and len(durs) == 1 and not opt and not cfgs:
        return (fut[0], durs[0], "duration", t_field)
    return None


def _split_wrapper(ctx, fx, co, sig):
    """a wrapper written as a synchronous function that decides once, when it is called, and returns one of two futures
    (`match timeout { Some(t) => Either::Left(async move { select!{..} }), None => Either::Right(fut.map(Ok)) }`): the async
    block is the guarded variant. Returns (capture index of the handler future, capture index of the limit) when the
    function's own part conforms — the guarded future is built on the Some(t) edge only, from the handler future and that t;
    on the None edge the handler future is handed back adapted, with no timer — else None."""
    parent = fx.fn(co.get("parent") or "")
    if parent is None or parent.get("is_async") or parent["kind"] not in ("fn", "assoc_fn"):
        return None
    pb = ctx.body(fx, parent)
    lits = [(bi, si, st) for bi, si, st in agg_sites(pb, ak="coroutine") if st["r"].get("def") == co["def"]]
    if len(lits) != 1:
        return None
    ops = lits[0][2]["r"]["ops"]
    fut_up = lim_up = None
    for i, o in enumerate(ops):
        os_ = pb.origins(o) if o.get("k") in ("move", "copy") else set()
        if os_ and all(x.kind == "arg" and x.site == sig[0] + 1 and not x.proj for x in os_):
            fut_up = i
        if os_ and all(x.kind == "arg" and x.site == sig[1] + 1 and any(str(e).startswith("d1") for e in x.proj) for x in os_):
            lim_up = i
    if fut_up is None or lim_up is None or sig[2] != "option":
        return None
    A = nfa.Alphabet(calls=[("delay", lambda t: (t.get("callee") or "").startswith("futures_timer::")), ("adapt", lambda t: (t.get("callee") or "").endswith("FutureExt::map"))],
                     adts={"core::option::Option": "Option"}, type_tags=[("Option<core::time::Duration>", "timeout")])
    A.stmt_fn = lambda body_, bi_, si_, st_: "stmt:guarded" if (st_["r"]["k"] == "agg" and st_["r"].get("ak") == "coroutine" and st_["r"].get("def") == co["def"]) else None

    class Split(nfa.Spec):
        init = ("s0",)

        def step(self, st, label):
            ev = label.split("@")[0]
            src = label.split("@")[1] if "@" in label else ""
            if ev == "sw:Option::Some" and src == "timeout":
                return ("some",)
            if ev == "sw:Option::None" and src == "timeout":
                return ("none",)
            if ev == "stmt:guarded" and st[0] != "some":
                return nfa.Err("R11.2: the timer-guarded future is built although no timeout is configured (phase %s)" % st[0])
            if ev == "stmt:guarded":
                return ("guarded",)
            if ev == "call:delay":
                return nfa.Err("R11.2: a timer is armed outside the guarded future")
            if ev == "call:adapt":
                return ("plain",) if st[0] == "none" else st
            if ev == "ret" and st[0] not in ("guarded", "plain"):
                return nfa.Err("R11.2: the wrapper returns in phase %s (neither the guarded nor the plain future)" % st[0])
            return st
    n = nfa.build(pb, A)
    viols, ps = nfa.check(n, Split())
    ctx.count_nfa(n.stats(), ps)
    for v in viols:
        ctx.viol("R11.2", "wrapper-protocol:decision", v["msg"], fn=parent["def"], site=parent["loc"], trace=v["trace"])
    # the plain variant is the handler future itself (adapted to the common result type)
    for _bi, t_ in pb.normal_calls():
        if (t_.get("callee") or "").endswith("FutureExt::map"):
            ctx.require(all(r.kind == "arg" and r.site == sig[0] + 1 for r in roots(pb, t_["args"][0])), "R11.2", "plain-variant-is-the-handler-future", "without a timeout the wrapper must hand back the handler future it was given", fn=parent["def"], site=t_["l"])
    if viols:
        return None
    return fut_up, lim_up


def check_wrapper(ctx, fx, co, sig=(0, 1, "option", -1)):
    b = ctx.body(fx, co)
    inst = co["def"]
    fut_up, lim_up, lim_kind, t_field_ = sig
    pre_limited = lim_kind == "duration"  # the caller only gets here with a limit in its hands (R11.1 checks that side)
    split = _split_wrapper(ctx, fx, co, sig)
    if split is not None:
        fut_up, lim_up = split
        pre_limited = True   # this future only exists on the Some(t) edge; its capture lim_up is that t
    # arms: nested closures of the select
    arms = {}
    for g in fx.descendants(co["def"]):
        gb = ctx.body(fx, g)
        var = None
        futty = None
        for _, t in gb.normal_calls():
            c = t.get("callee") or ""
            if c.endswith("poll::{impl#0}::map") or c.endswith("Poll::map") or (c.endswith("::map") and "poll" in c):
                for a in t["args"]:
                    if a.get("k") == "const" and "__PrivResult::" in (a.get("fn") or ""):
                        var = a["fn"].split("::")[-1]
            if c.endswith("poll_unpin") or c.endswith("Future::poll"):
                futty = t["argtys"][0]
        if var and futty:
            arms[var] = futty
    delay_arm = [v for v, ty in arms.items() if "futures_timer" in ty]
    fut_arm = [v for v, ty in arms.items() if "futures_timer" not in ty]
    if not ctx.require(len(delay_arm) == 1 and len(fut_arm) == 1, "R11.2", "select-arms", "the race must have exactly one timer arm and one handler arm: %s" % arms, fn=inst, site=co["loc"], detail=arms):
        return
    A = nfa.Alphabet(
        calls=[("delay", lambda t: (t.get("callee") or "").startswith("futures_timer::") and (t.get("callee") or "").endswith("::new")),
               ("select", nfa.callee_ends("poll_fn::poll_fn"))],
        adts={"core::option::Option": "Option"}, retval=True,
        type_tags=[("Option<core::time::Duration>", "timeout")])
    A.adt_fn = lambda adt: "Sel" if adt.endswith("::__PrivResult") else None
    A.upvar_futs = {fut_up: "handler"}  # the handler future given to the wrapper, awaited directly or through map / fuse
    n = nfa.build(b, A)
    wspec = WrapperSpec(delay_arm[0], fut_arm[0])
    if pre_limited:
        wspec.init = ("limited",)
    viols, ps = nfa.check(n, wspec)
    ctx.count_nfa(n.stats(), ps)
    for v in viols:
        ctx.viol("R11.2", "wrapper-protocol", v["msg"], fn=inst, site=co["loc"], trace=v["trace"])
    if not viols:
        ctx.ok("R11.2", "wrapper-protocol", co["loc"], {"arms": arms, "words": [" ".join(w) for w in nfa.words(n, limit=3)]})
    for bi, t in b.normal_calls():
        c = t.get("callee") or ""
        if c.startswith("futures_timer::") and c.endswith("::new"):
            rs = b.origins(t["args"][0])
            ok = all(o.kind == "upvar" and o.site == lim_up and (pre_limited or any(str(e).startswith("d1:Some") or str(e).startswith("d1") for e in o.proj))
                     and (lim_kind in ("option", "duration") or [e for e in o.proj if e != "*"][:1] == ["f%d" % t_field_]) for o in rs) and rs
            ctx.require(ok, "R11.2", "delay-gets-configured-limit", "Delay::new must receive exactly the configured timeout: %s" % sorted(map(str, rs)), fn=inst, site=t["l"])
        if c.endswith("FutureExt::map"):
            rs = roots(b, t["args"][0])
            ctx.require(all(r.kind == "upvar" and r.site == fut_up for r in rs), "R11.2", "races-the-handler-future@" + t["l"].split(":")[-1], "the future raced / awaited must be the handler future given to the wrapper", fn=inst, site=t["l"])
    # Err payload is ActorError::Timeout
    tos = [st for _bi, _si, st in agg_sites(b, adt="error::ActorError", variant="Timeout")]
    ctx.require(len(tos) == 1, "R11.2", "timeout-error", "the timer arm must produce ActorError::Timeout", fn=inst, site=co["loc"])
    # the select closure captures both fused futures
    for bi, si, st in agg_sites(b, ak="closure"):
        srcs = set()
        for o in st["r"]["ops"]:
            for r in roots(b, o):
                if r.kind == "upvar" and r.site == fut_up:
                    srcs.add("handler-future")
                elif r.kind.startswith("call:futures_timer::"):
                    srcs.add("timer")
                else:
                    srcs.add(r.kind)
        ctx.require(srcs == {"handler-future", "timer"}, "R11.2", "select-races-both", "the select must race exactly the handler future against the timer: captures derive from %s" % sorted(srcs), fn=inst, site=st.get("l"), detail=sorted(srcs))
