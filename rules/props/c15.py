"""C15 — every strong handle kind keeps the actor fully functional, not just reachable."""
import core, graph, own, loops
from mir import Body, Origin, agg_sites

EXPL = ("Ownership graph (A2) + provenance (A3). Needed set = pointee types of every Weak::upgrade in the context "
        "operations and in the upgrade closures of the weak kinds (what self-stop, self-restart, timers and weak "
        "upgrades need alive). R15.1: owns*(H) of every strong handle kind H contains a strong Arc of each needed "
        "pointee. R15.2: every site that builds a handle (constructor calls and struct literals of the seven handle "
        "kinds) takes its channel halves, id and termination future only from values handed in (parameters / "
        "captures), looked through clone/downgrade/upgrade — never from a fresh channel, the registry or a new id; "
        "R15.3: the birth site wires address and context to the same channel, id and termination future.")

HANDLE_ADTS = ["addr::Addr", "addr::OwningAddr", "addr::sender::Sender", "addr::caller::Caller", "addr::weak_addr::WeakAddr", "addr::weak_sender::WeakSender", "addr::weak_caller::WeakCaller"]
IDENTITY_SUFFIX = ("::clone_box", "::upgrade", "::downgrade", "::zip", "::clone", "::to_owned", "Try::branch", "::map", "::as_ref", "::cloned", "::unwrap_or_default", "::ok_or", "::ok_or_else",
                   "StreamExt::boxed", "FutureExt::boxed")  # (`rx.boxed()`: the same stream behind a Pin<Box<dyn Stream>>)
FIRST_ARG_ONLY = ("::ok_or", "::ok_or_else")  # the second argument is the error to report, not a source of the value


FX = [None]  # facts of the configuration being checked, set by the property modules (lets `roots` look into local helpers)


def _through_repackaging(b, t, o, depth):
    """a field of the struct a crate-local synchronous function returns, when that function merely re-packages its
    parameters (`fn into_ingredients(self) -> Ingredients { Ingredients { actor, config, channel } }`): the roots of the
    corresponding argument at this call site"""
    fx = FX[0]
    if fx is None or depth > 4:
        return None
    h = fx.callee_fn(t)
    if h is None or h.get("is_async") or h["kind"] not in ("fn", "assoc_fn"):
        return None
    if h["def"] in birth_fns(fx):
        return None  # where an event loop (and with it the address of a new actor) comes into being: a root of its own
    hb = Body(h)
    if not o.proj:
        # a constructor that merely wraps its parameter (`Entry::new(addr) = Entry(Box::new(addr))`)
        if len([1 for _b3, t3 in hb.normal_calls() if not (t3.get("callee") or "").startswith(("core::", "log::", "std::", "alloc::boxed::"))]) > 0:
            return None
        hr = roots(hb, {"k": "move", "p": [0]}, depth + 1)
        if not hr or not all(x.kind == "arg" and not x.proj and x.site - 1 < len(t["args"]) for x in hr):
            return None
        out = set()
        for x in hr:
            out |= roots(b, t["args"][x.site - 1], depth + 1)
        return out
    lits = [st for _b2, _s2, st in list(agg_sites(hb)) + list(agg_sites(hb, ak="tuple")) if st["p"] == [0]]
    if len(lits) != 1:
        return None
    fld = o.proj[0]
    if not (fld.startswith("f") and fld[1:].isdigit()) or int(fld[1:]) >= len(lits[0]["r"]["ops"]):
        return None
    fop = lits[0]["r"]["ops"][int(fld[1:])]
    rest = [e for e in o.proj[1:] if isinstance(e, str) and not e.startswith("<part:")]
    if rest and fop.get("k") in ("copy", "move"):
        # a field of the field (`create_loop(..).0.actor`): follow it into the literal the helper built
        fop = dict(fop, p=list(fop["p"]) + rest)
    plain = len([1 for _b3, t3 in hb.normal_calls() if not (t3.get("callee") or "").startswith(("core::", "log::", "std::"))]) == 0
    # a helper that itself calls helpers (`(event_loop.run(), addr)` with `addr` from `into_event_loop(..)`): what matters is
    # that this field, followed through them, is nothing but the helper's own parameters
    ho = hb.origins(fop) if plain else roots(hb, fop, depth + 1)
    if not ho or not all(x.kind == "arg" and x.site - 1 < len(t["args"]) for x in ho):
        return None
    out = set()
    for x in ho:
        a = t["args"][x.site - 1]
        if a.get("k") in ("copy", "move") and x.proj:
            a = dict(a, p=list(a["p"]) + list(x.proj))
        out |= roots(b, a, depth + 1)
    return out


def birth_fns(fx):
    """functions that create an event loop and hand out its future and the address created with it: the constructors of
    the loops, functions in front of them that merely pass the actor on (`create_loop` before `EventLoop::run`), helpers
    that return such a pair unchanged, launch helpers"""
    cache = fx.__dict__.setdefault("_birth_fns", {})
    if "v" not in cache:
        cache["v"] = set()  # while it is being computed (roots is used to compute it) nothing is a birth
        import loops
        v = {f["parent"] for f, _k in loops.find_loops(fx)}
        v |= set(graph.forwarding_closure(fx, loops.maker_params(fx, "actor"), roots, lambda g_: Body(g_)))
        v |= set(loops.pair_helpers(fx)) | set(loops.launch_helpers(fx))
        cache["v"] = v
    return cache["v"]


def roots(b, operand, depth=0):
    """origins with identity-preserving calls expanded"""
    out = set()
    for o in b.origins(operand):
        if o.kind == "call" and depth < 6:
            t = b.call_at(o)
            c = t.get("callee") or ""
            if (c.endswith(IDENTITY_SUFFIX) or (c.startswith("alloc::boxed::") and c.endswith(("::new", "::pin")))) and t["args"]:
                for a in (t["args"][:1] if c.endswith(FIRST_ARG_ONLY) else t["args"][:2]):
                    out |= roots(b, a, depth + 1)
                continue
            rep = _through_repackaging(b, t, o, depth)
            if rep is not None:
                out |= rep
                continue
            out.add(Origin("call:" + c, o.site, tuple(e for e in o.proj[:1] if str(e).startswith("<part:"))))  # (a part of the asked value only)
        elif o.kind == "agg" and depth < 6:
            # a closure literal (the upgrade / downgrade closure): what it captures
            st = b.blocks[o.site[0]]["s"][o.site[1]]
            d_ = st["r"].get("def") or ""
            local_struct = st["r"].get("ak") == "adt" and d_ and d_.split("::")[0] not in ("core", "alloc", "std", "futures_channel", "futures_util", "futures_core") and d_ not in HANDLE_ADTS and not st["r"].get("variant", d_.split("::")[-1]) != d_.split("::")[-1]
            # a closure literal, a tuple, or a crate-local plain struct standing in for a closure (`WeakParts { .. }`)
            if st["r"].get("ak") in ("closure", "tuple", "coroutine") or local_struct:
                for a in st["r"]["ops"]:
                    out |= roots(b, a, depth + 1)
            else:
                out.add(o)
        else:
            out.add(o)
    return out


def check_forcing_never_refuses(ctx, fx, cfg, rule):
    """while the mailbox is open a forced submission (stop, restart, call, ping, interval tick) is never refused: the forcing
    closure over the bounded queue enqueues through a Sender clone made for this payload. futures-mpsc guarantees one
    slot per Sender handle and refuses (`Full`) a handle that is still parked from an earlier payload, so a long-lived
    handle shared by forced payloads refuses under backlog; a fresh clone is never parked. (The unbounded sender never
    refuses.)"""
    import chan
    n = 0
    for kind, cf, _key in chan.submit_closures(fx):
        if kind != "forcing" or cf is None:
            continue
        # one view per instantiation: the closure may be written once in a generic helper for both kinds of queue
        for ups, b in chan.instance_bodies(ctx, fx, cf):
            if not any("futures_channel::mpsc::Sender<" in u for u in ups):
                continue
            n += 1
            enq = [t for _bi, t in b.normal_calls() if chan.is_enqueue(t)]
            fresh = bool(enq)
            for t in enq:
                os_ = b.origins(t["args"][0], through_calls=False)
                fresh = fresh and bool(os_) and all(o.kind == "call" and (b.call_at(o).get("callee") or "").endswith("Clone::clone") and "mpsc::Sender<" in " ".join(b.call_at(o).get("argtys", [])) for o in os_)
            ctx.require(fresh, rule, "forcing-uses-fresh-sender:%s@%s" % (cf["def"], cfg), "the bounded forcing closure must enqueue through a Sender clone made for this payload (a long-lived handle that is still parked refuses the next forced payload with Full: self-stop / self-restart fail and interval timers end while the actor is alive)", fn=cf["def"], site=cf["loc"], detail={"enqueues": [t["callee"].split("::")[-1] for t in enq]})
    ctx.floor(rule, "bounded forcing closures (%s)" % cfg, n, 1)


def _birth_ctor(g, t):
    # (a `pub fn` of a type that is itself crate-private — `Channel::into_addr` — is not reachable from outside either)
    fx_ = FX[0]
    self_adt = (g.get("impl_self") or "").split("<")[0]
    hidden = fx_ is not None and self_adt in fx_.adts and fx_.adts[self_adt].get("vis") != "pub" and not g.get("impl_trait_def")
    return (g.get("vis") != "pub" or hidden) and g["kind"] in ("fn", "assoc_fn") and ("addr::Addr<" in (g.get("output") or "") or "context::Context<" in (g.get("output") or ""))


def check_birth(ctx, fx, cfg, RULE="R15.3"):
    """the birth site wires the address and the context to the same channel halves and the same id"""
    fc = loops.env_ctors(fx)[0]
    if ctx.require(fc is not None, RULE, "from_channel@" + cfg, "the function that builds the Environment (context + address) from a Channel was not found"):
        # crate-private constructors of the two values (`Context::new(&channel, rx)`, `ctx.address_from(tx, force_tx)`) are
        # looked at as if their struct literal were written here
        import inline
        b = inline.body(ctx, fx, fc, _birth_ctor)
        ok = True
        det = {}
        for bi, blk in enumerate(b.blocks):
            for st in blk["s"]:
                if st["k"] == "assign" and st["r"]["k"] == "agg" and st["r"].get("def") in ("addr::Addr", "context::Context"):
                    name = st["r"]["def"].split("::")[-1]
                    for fld, o in zip(st["r"]["fields"], st["r"]["ops"]):
                        rs = roots(b, o)
                        det["%s.%s" % (name, fld)] = sorted("%s:%s" % (r.kind, r.site) for r in rs)
        # ... or built through a crate-local constructor that is a plain struct literal of its parameters (`Addr::from_parts`)
        for bi, ct in b.normal_calls():
            h = fx.callee_fn(ct)
            if h is None or h.get("is_async") or not (h.get("output") or "").startswith(("addr::Addr<", "context::Context<")):
                continue
            hb = ctx.body(fx, h)
            lits = [st for _b2, _s2, st in agg_sites(hb, ak="adt") if st["r"].get("def") in ("addr::Addr", "context::Context") and st["p"] == [0]]
            if len(lits) != 1:
                continue
            name = lits[0]["r"]["def"].split("::")[-1]
            for fld, o in zip(lits[0]["r"]["fields"], lits[0]["r"]["ops"]):
                ho = hb.origins(o)
                if ho and all(x.kind == "arg" and not x.proj and x.site - 1 < len(ct["args"]) for x in ho):
                    rs = set()
                    for x in ho:
                        rs |= roots(b, ct["args"][x.site - 1])
                    det["%s.%s" % (name, fld)] = sorted("%s:%s" % (r.kind, r.site) for r in rs)
                else:
                    det["%s.%s" % (name, fld)] = ["?constructor"]
        # ... or the context is made by a crate-local function that is lent the channel (`Context::for_channel(&channel)`
        # returning the context, possibly in a tuple): its literal there, its parameters bound here
        cfields = [fl["name"] for fl in fx.adts["context::Context"]["variants"][0]["fields"]] if "context::Context" in fx.adts else []
        for bi, ct in b.normal_calls():
            h = fx.callee_fn(ct)
            if h is None or h.get("is_async") or "context::Context<" not in (h.get("output") or "") or "Context.id" in det:
                continue
            hb = ctx.body(fx, h)
            lits = [(b2, s2, st) for b2, s2, st in agg_sites(hb, ak="adt") if st["r"].get("def") == "context::Context"]
            if len(lits) != 1:
                continue
            lb2, ls2, lst = lits[0]
            for fld, o in zip(lst["r"]["fields"], lst["r"]["ops"]):
                rs = set()
                for r in roots(hb, o):
                    if r.kind == "arg" and r.site - 1 < len(ct["args"]):
                        rs |= {"%s:%s" % (x.kind, x.site) for x in roots(b, ct["args"][r.site - 1])}
                    else:
                        rs.add("%s:%s@%s" % (r.kind, r.site, h["def"]))
                det["Context.%s" % fld] = sorted(rs)
            # the address made here takes its id from that context: a projection of the returned context's id field
            if "id" in cfields:
                idp = "f%d" % cfields.index("id")
                for k_ in list(det):
                    if k_ == "Addr.context_id":
                        for st2 in [s_ for blk in b.blocks for s_ in blk["s"] if s_["k"] == "assign" and s_["r"]["k"] == "agg" and s_["r"].get("def") == "addr::Addr"]:
                            o2 = st2["r"]["ops"][st2["r"]["fields"].index("context_id")]
                            os2 = b.origins(o2)
                            if os2 and all(x.kind == "call" and x.site == (bi,) and x.proj and x.proj[-1] == idp for x in os2):
                                det["Addr.context_id"] = det["Context.id"]
        # all channel fields must come from the one `channel` argument; the id from one ContextID::default()
        for k, v in det.items():
            fld = k.split(".")[1]
            if fld in ("weak_tx", "weak_force_tx", "payload_tx", "payload_force_tx"):
                if not all(x.startswith("arg") or x.startswith("call:channel::Channel") for x in v):
                    ok = False
        ids = [v for k, v in det.items() if k.endswith(".id") or k.endswith(".context_id")]
        ctx.require(ok and len(ids) == 2 and ids[0] == ids[1], RULE, "from_channel@" + cfg, "address and context are not wired to the same channel / id: %s" % det, fn=fc["def"], site=fc["loc"], detail=det)


def relevant(ty):
    return "dyn channel::TxFn<" in ty or "dyn channel::ForceTxFn<" in ty or ty.startswith("context::id::ContextID") or "UpgradeFn<" in ty or ty.startswith("addr::Addr<") or "futures_util::future::future::shared::Shared<futures_channel::oneshot::Receiver<()>>" in ty


def run(ctx):
    ctx.explanation = EXPL
    ctx.assumptions = ["Arc/Weak semantics", "dyn-clone clones the same concrete closure"]
    cfgs = ["tokio"] if ctx.tier == "quick" else ["tokio", "smol", "asyncstd", "bare"]
    for cfg in cfgs:
        fx = ctx.facts(cfg) if cfg == "tokio" else ctx.try_facts(cfg)
        if fx is None:
            continue
        check_cfg(ctx, fx, cfg)
    return core.finish(ctx)


def check_strong_kinds(ctx, fx, cfg, RULE="R15.1"):
    """every strong handle kind keeps alive both halves of the channel that the context and the weak handles need in order to
    upgrade (shared with C09: a subscriber held by any strong handle is reachable through the broker's weak sender)"""
    # needed set
    needed = {}
    n_sites = 0
    is_weak_upgrade = lambda t: (t.get("callee") or "").startswith("alloc::sync::") and (t.get("callee") or "").endswith("::upgrade")
    # a crate-local generic newtype around `Weak<T>` (`WeakTxHandle<T: ?Sized>(Weak<T>)`): its `upgrade` is the upgrade of
    # whatever it is instantiated with at the call site
    import re as _re
    generic_upgraders = {f["def"] for f, _bi, t in graph.all_calls(fx, is_weak_upgrade) if _re.match(r"alloc::sync::Weak<[A-Z]\w*[,>]", t.get("self_ty") or "") and f["kind"] in ("fn", "assoc_fn")}
    for f, bi, t in graph.all_calls(fx, lambda t: is_weak_upgrade(t) or (t.get("callee") in generic_upgraders)):
        st = t.get("self_ty") or ""
        for tr in ("TxFn", "ForceTxFn"):
            if "Weak<dyn channel::%s<" % tr in st or (t.get("callee") in generic_upgraders and "<dyn channel::%s<" % tr in st):
                needed.setdefault(tr, []).append((f["def"], t["l"]))
                n_sites += 1
    ctx.floor(RULE, "Weak::upgrade sites on channel halves (%s)" % cfg, n_sites, 6)
    ctx.require(set(needed) == {"TxFn", "ForceTxFn"}, RULE, "needed-set@" + cfg, "needed set changed: %s" % sorted(needed), detail={k: len(v) for k, v in needed.items()})
    for k in own.STRONG_KINDS:
        o = fx.owns_of(k, "adt")
        inst = "%s@%s" % (k.split("::")[-1], cfg)
        if not ctx.require(o is not None, RULE, inst, "strong handle kind %s not found" % k):
            continue
        have = set()
        for a in o["atoms"]:
            c, p = own.classify(a)
            if c == "strong_tx":
                have.add("TxFn")
            if c == "strong_force":
                have.add("ForceTxFn")
        missing = sorted(set(needed) - have)
        ctx.require(not missing, RULE, inst, "%s does not keep alive what the context and weak handles need: missing strong Arc<dyn %s>" % (k, ", ".join(missing)), fn=k, site=fx.adts[k]["loc"], detail={"owns": sorted(have)})


def check_cfg(ctx, fx, cfg):
    check_strong_kinds(ctx, fx, cfg, "R15.1")
    # R15.2 handle-building sites
    import loops
    births = {"call:" + d_ for d_ in birth_fns(fx)}  # create_loop / create_loop_on_stream (and what forwards to them) hand out the address created at birth
    # ... and so do the crate's spawn entry points (they return the address of the loop they spawned)
    import nfa as _nfa
    for g, _bi, _t in graph.all_calls(fx, _nfa.trait_method("actor::spawner::Spawner", "spawn_actor")):
        births.add("call:" + g.get("root", g["def"]))
    n = 0
    for f in fx.d["fns"]:
        b = ctx.body(fx, f)
        sites = []
        for bi, blk in enumerate(b.blocks):
            if blk["c"]:
                continue
            for si, st in enumerate(blk["s"]):
                if st["k"] == "assign" and st["r"]["k"] == "agg" and st["r"].get("ak") == "adt" and st["r"].get("def") in HANDLE_ADTS:
                    decl = [fl["ty"] for fl in fx.adts[st["r"]["def"]]["variants"][0]["fields"]]
                    sites.append(("literal:" + st["r"]["def"].split("::")[-1], st.get("l"), st["r"]["ops"], decl))
            t = blk["t"]
            if t["k"] == "call" and t.get("callee_local") and (t.get("callee") or "").split("::")[-1] in ("new", "from_weak_tx") and any((t.get("destty") or "").startswith(h + "<") for h in HANDLE_ADTS):
                sites.append(("call:" + t["callee"], t["l"], t["args"], t["argtys"]))
        for kind, loc, ops, tys in sites:
            if f["def"] == ((loops.env_ctors(fx)[0] or {}).get("def")):
                continue  # birth site, R15.3
            bad = []
            checked = 0
            for i, o in enumerate(ops):
                if o["k"] not in ("copy", "move"):
                    continue
                ty = tys[i] if i < len(tys) else b.locals[o["p"][0]]["ty"]
                if not relevant(ty):
                    continue
                checked += 1
                rs = roots(b, o)
                foreign = [r for r in rs if r.kind not in ("arg", "upvar", "const") and r.kind not in births]
                if foreign:
                    bad.append((i, sorted(str(r.kind) for r in foreign)))
            n += 1
            inst = "%s in %s" % (kind, f["def"])
            ctx.require(not bad, "R15.2", inst + "@" + cfg, "a handle is built from something other than the handle it was derived from: operands %s" % bad, fn=f["def"], site=loc, detail={"operands_checked": checked})
    ctx.floor("R15.2", "handle-building sites (%s)" % cfg, n, 10)
    # R15.4 self-stop / self-restart succeed whenever the forcing half can be upgraded: Ok is reported only for a request
    # that was actually submitted, an error only if the upgrade or the submission failed
    from props.c04 import check_submit_on_ok
    for e in ("context::Context::<A>::stop", "context::Context::<A>::restart"):
        if fx.fn(e) is not None:
            check_submit_on_ok(ctx, fx, "R15.4", e, {"context::Context::<A>::stop", "context::Context::<A>::restart"})
        else:
            ctx.viol("R15.4", "exists:" + e, "%s not found" % e)
    # R15.5 ... and the forcing half never refuses a request while the mailbox is open
    check_forcing_never_refuses(ctx, fx, cfg, "R15.5")
    check_birth(ctx, fx, cfg)
    # R15.6 dropping one strong handle (an OwningAddr) while others are held does not take the actor down: what sits in the
    # handle's slot is the runtime's own task handle, taken out and released by the join protocol (shared with C17) — a
    # handle type whose drop aborts the task would tie the actor's life to that one handle
    if cfg != "bare":
        from props import c17 as _c17
        _c17.check_join(ctx, fx, cfg, "R15.6")
    # R15.9 (shared with C06 / C10) "its timers keep firing" across a self-restart: a timer future is made abortable on its own and its
    # handle recorded in the context's list, which the restart drains — no shared cancellation state survives into the next incarnation
    if cfg != "bare":
        from props import c06 as _c06
        import timers as _timers
        for r_ in [x for x in _timers.registrars(fx) if x.startswith("context::")]:
            core.shared(ctx, "R15.9", _c06.check_registrar, ctx, fx, fx.fn(r_), cfg)
    # R15.8 (shared with C13) "stop from the actor's own context succeeds, its timers keep firing" also for an actor attached to a
    # stream that is always ready: the stream loop's select is fair, or polls the mailbox first
    if cfg != "bare":
        from props import c13 as _c13
        core.shared_from(ctx, _c13.check_cfg, fx, cfg, "R15.8", ("R13.4",), r"fair-select", 1, "stream loop select")
    # R15.7 "its timers keep firing": while the actor is held the timers it registered go on — a timer body ends only on a
    # tick the mailbox refused (the actor is gone), never because a tick took long or a reply did not come (shared with C10)
    # (the timer APIs exist only with a runtime feature)
    if cfg != "bare":
        from props import c10 as _c10
        _c10.check_timer_protocol(ctx, fx, cfg, "R15.7")
