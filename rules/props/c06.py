"""C06 — failure of one actor is contained and visible as errors, never as hangs."""
import core, nfa, loops, graph, own, timers
from mir import Body, sinks, upvar_sinks
from props.c03 import run_loops
from props.c15 import roots
from tywalk import field_accesses

EXPL = ("R06.1 everything others may wait on (mailbox receiver, context with timers and children, stop notifier) is owned "
        "by the loop future, so return-with-error, unwind and cancellation at any await release it (compiler-guaranteed "
        "drops); on those paths no further callback runs and the notifier is dropped un-notified (A1 over all CFG paths "
        "including unwind and cancel edges). R06.2 Context::drop aborts every timer handle; all timers are registered "
        "through one function that makes the future abortable, records the handle on every path and spawns the abortable "
        "future. R06.3 the child table lives in the Context only. R06.4 each spawner's join turns task failure and actor "
        "error into None without a panicking extractor. R06.6 the crate's only statics are the id counter and the registry. "
        "R06.7 the two fan-outs over several actors (a parent's broadcast to its children, the broker's publication) "
        "deliver member by member and are not ended by a failing member, so siblings of a dead actor observe nothing.")

PANICKY = ("::unwrap", "::expect", "::unwrap_unchecked", "panicking::panic", "panicking::panic_fmt", "::unwrap_err", "::expect_err")


def run(ctx):
    ctx.explanation = EXPL
    ctx.assumptions = ["drop of the loop future's captures is guaranteed by the compiler on every exit", "runtimes report a panicking task through the join handle"]
    cfgs = ["tokio"] if ctx.tier == "quick" else ["tokio", "smol", "asyncstd", "bare"]
    for cfg in cfgs:
        fx = ctx.facts(cfg) if cfg == "tokio" else ctx.try_facts(cfg)
        if fx is None:
            continue
        check_cfg(ctx, fx, cfg)
    return core.finish(ctx)


def check_cfg(ctx, fx, cfg):
    # R06.1
    for f, kind in loops.find_loops(fx):
        up = f.get("upvars", [])
        inst = "%s-loop@%s" % (kind, cfg)
        ok = sum(1 for u in up if u.startswith("context::Context<")) == 1 and "context::StopNotifier" in up and len(loops.mailbox_rx_captures(fx, f)) == 1
        ctx.require(ok, "R06.1", inst + ":owns", "the loop future must own context, notifier and receiver so that every exit releases them", fn=f["def"], site=f["loc"], detail=[u[:50] for u in up])
        # nobody else holds the receiver / notifier: they are not Clone and live in one place
    run_loops(ctx, fx, "R06.1", {"L3", "L6", "L11"})
    # R06.11 (shared with C05) "the children it holds are released and stop gracefully": a child that is let go with its dead
    # parent's context stops when its mailbox closes — nothing of its own (a timer) may hold a strong handle of it while it sleeps
    from props import c05 as _c05, c04 as _c04
    core.shared(ctx, "R06.11", _c05.check_timers_own_nothing, ctx, fx, cfg, "R06.11")
    # R06.12 (shared with C04) "awaiting its address yields an error": the termination notice is sent by `notify` only, which only
    # the loops' graceful end calls — a notifier that also reports on drop would turn every failure into a clean stop
    if cfg == "tokio":
        core.shared(ctx, "R06.12", _c04.check_notifier, ctx, fx, "R06.12")
    # R06.13 (shared with C17) "join yields None" — for a failed actor, every time, and never a panic in the joiner: the join protocol
    # takes the runtime's handle out of the slot before it waits on it (a finished handle left in the slot is polled again by the
    # next join, which panics inside the task that merely looked at the dead actor's outcome)
    if cfg != "bare":
        from props import c17 as _c17
        core.shared(ctx, "R06.13", _c17.check_join, ctx, fx, cfg, "R06.13")
    # the loop future is handed to the spawner as is (not wrapped in something that catches its failure)
    # R06.2 Context::drop aborts timers
    ab = timers.aborters(ctx, fx)
    ctx.floor("R06.2", "abort-all functions (%s)" % cfg, len(ab), 1)
    for name, a in ab.items():
        for v in a["viols"]:
            ctx.viol("R06.2", "abort-all:%s@%s" % (name, cfg), v["msg"], fn=name, site=a["fn"]["loc"], trace=v["trace"])
        if not a["viols"]:
            ctx.ok("R06.2", "abort-all:%s@%s" % (name, cfg), a["fn"]["loc"], {"empties_list": a["removes"]})
    check_timer_list(ctx, fx, cfg, ab, "R06.2", "R06.8")
    check_drop_aborts(ctx, fx, cfg, ab, "R06.2")
    if cfg != "bare":
        regs = timers.registrars(fx)
        regs = [r for r in regs if r.startswith("context::")]
        ctx.require(len(regs) == 1, "R06.2", "one-registrar@" + cfg, "timer futures must be spawned through exactly one registering function, found %s" % regs, detail=regs)
        for r in regs:
            check_registrar(ctx, fx, fx.fn(r), cfg)
        apis = timers.timer_apis(fx, regs)
        ctx.floor("R06.2", "timer APIs (%s)" % cfg, len(apis), 2)
        tcs = timers.timer_coroutines(fx)
        for f in tcs:
            crs = timers.creations(fx, f)
            ctx.require(bool(crs), "R06.2", "timer-created:%s@%s" % (f["def"], cfg), "cannot see where this timer future is created", fn=f["def"], site=f["loc"])
            for cr in crs:
                handed = cr.reaches(set(regs))
                ctx.require(handed if handed is not None else (cr.api["def"] in apis), "R06.2", "timer-registered:%s@%s" % (cr.api["def"].split("::")[-1], cfg), "a timer future is not handed to the registering function (it would survive the actor)", fn=f["def"], site=cr.site)
        # all spawn_future uses in the crate are the registrar and the trait plumbing
        for f, bi, t in graph.all_calls(fx, lambda t: (t.get("callee") or "").endswith("::spawn_future")):
            okc = f["def"] in regs or f["def"].startswith("actor::spawner::SpawnFutures::") or f["def"].startswith("<actor::spawner::")
            ctx.require(okc, "R06.2", "spawn_future-caller:%s@%s" % (f["def"], cfg), "a future is spawned outside the timer registrar", fn=f["def"], site=t["l"])
    # R06.9 a dead actor is seen as dead: the liveness queries the registry decides on answer "terminated" for every
    # termination cause, on the first query (shared with C14)
    from props import c14 as _c14
    _c14.check_queries(ctx, fx, "R06.9", "@" + cfg)
    # R06.3 child table only in the context
    holders = [a["def"] for a in fx.d["adts"] for fl in a["variants"][0]["fields"] if len(a["variants"]) == 1 and "dyn core::any::Any" in fl["ty"] and a["def"].split("::")[0] != "actor"] if True else []
    # ... held by the Context directly, or through a wrapper type that is the type of the Context's child-table field
    cfields = {fl["name"]: fl["ty"] for fl in fx.adts["context::Context"]["variants"][0]["fields"]} if "context::Context" in fx.adts else {}
    wrappers = {ty.split("<")[0] for ty in cfields.values() if ty.split("<")[0] in fx.adts}
    holders = ["context::Context" if h_ in wrappers else h_ for h_ in holders]
    # a newtype of the erased box itself (`struct AnyBox(Box<dyn Any + Send + Sync>)`, shared by the registry and the child table)
    # is not a place where children are kept: the types that have a field made of it are
    for h_ in list(holders):
        a_ = fx.adts.get(h_)
        fl_ = a_["variants"][0]["fields"] if a_ and len(a_["variants"]) == 1 else []
        if len(fl_) == 1 and fl_[0]["ty"].startswith("alloc::boxed::Box<dyn core::any::Any"):
            holders.remove(h_)
            holders += [b_["def"] for b_ in fx.d["adts"] if b_["def"].split("::")[0] != "actor" and any(h_ + ">" in f2["ty"] or h_ + "," in f2["ty"] or f2["ty"] == h_ for v2 in b_["variants"] for f2 in v2["fields"])]
    holders = sorted(set(holders))
    ctx.require(holders == ["context::Context"], "R06.3", "child-table-holder@" + cfg, "type-erased child storage outside the Context: %s" % holders, site=fx.adts["context::Context"]["loc"], detail=holders)
    # R06.4 joins
    for f in fx.impl_fns("actor::spawner::Spawner"):
        if not f["def"].endswith("::spawn_actor"):
            continue
        fam = graph.family(fx, f["def"])
        bad = []
        for g in fam:
            b = ctx.body(fx, g)
            for _, t in b.normal_calls():
                c = t.get("callee") or ""
                if c.endswith(PANICKY) and not t.get("exp"):
                    bad.append((c, t["l"]))
        ctx.require(not bad, "R06.4", "join-no-panic:%s@%s" % (f.get("impl_self", "?").split("::")[-1], cfg), "the join path uses a panicking extractor: a failed actor would panic the joiner instead of yielding None: %s" % bad, fn=f["def"], site=f["loc"], detail={"bodies": len(fam)})
    # R06.7 fan-outs over several actors are not cut short by one dead member (its siblings / fellow subscribers
    # must observe nothing): the parent's broadcast to its children and the broker's publication fan-out
    if cfg != "bare":
        from props import c16, c09
        f = fx.fn("context::Context::<A>::send_to_children")
        if ctx.require(f is not None, "R06.7", "children-broadcast@" + cfg, "Context::send_to_children not found"):
            A = nfa.Alphabet(calls=[("force_send", nfa.callee_is("addr::sender::Sender::<M>::force_send")), ("iternext", nfa.callee_ends("Iterator::next"))], adts={"core::result::Result": "Res", "core::option::Option": "Option"})
            b = ctx.body(fx, f)
            n = nfa.build(b, A)
            viols, ps = nfa.check(n, c16.Broadcast())
            ctx.count_nfa(n.stats(), ps)
            sends = len(nfa.edges_labelled(n, "call:force_send"))
            for v in viols:
                ctx.viol("R06.7", "children-broadcast@" + cfg, v["msg"].replace("R16.3", "R06.7"), fn=f["def"], site=f["loc"], trace=v["trace"])
            if not viols:
                ctx.require(sends == 1, "R06.7", "children-broadcast@" + cfg, "the broadcast must deliver to each child in its own step so that a failing child does not end it (found %d delivery sites in the loop)" % sends, fn=f["def"], site=f["loc"])
        pf = None
        for g in fx.impl_fns("handler::Handler", "broker::Broker<"):
            if "broker::Publish<" in (g.get("impl_trait") or ""):
                pf = g
        if ctx.require(pf is not None, "R06.7", "publish-fan-out@" + cfg, "the broker's publish handler was not found"):
            co = [c for c in fx.children_of(pf["def"]) if c["kind"] == "coroutine"][0]
            b = ctx.body(fx, co)
            A = c09.fanout_alphabet()
            n = nfa.build(b, A, fx, depth=2)
            viols, ps = nfa.check(n, c09.FanOut())
            ctx.count_nfa(n.stats(), ps)
            for v in viols:
                ctx.viol("R06.7", "publish-fan-out@" + cfg, v["msg"].replace("R09.3", "R06.7"), fn=co["def"], site=co["loc"], trace=v["trace"])
            if not viols:
                ctx.ok("R06.7", "publish-fan-out@" + cfg, co["loc"], n.stats())
    # R06.10 (shared with C14 / C02) a handle that observed a *failed* termination stays usable: an in-place poll of the handle's
    # own share of the termination future restores the share on every completed outcome (a share left used-up panics the
    # observer on its next use — the failure would spread to the actor that merely watched)
    if cfg == "tokio":
        from props import c14 as _c14
        _c14.check_inplace_polls(ctx, fx, "R06.10")
    # R06.6 statics
    st = sorted(s["def"] for s in fx.d["statics"])
    ctx.require(st == ["actor::service::REGISTRY", "context::id::CONTEXT_ID"], "R06.6", "statics@" + cfg, "cross-actor shared state changed: statics are %s" % st, site="crate", detail=st)


def check_timer_list(ctx, fx, cfg, ab, R_ATOMIC, R_ACCESS):
    for name, a in ab.items():
        # between taking a handle out of the list and aborting it there must be no suspension point: a fault or
        # cancellation there would leak the timer (Context::drop would find the list empty)
        is_sync = a["fn"]["kind"] in ("fn", "assoc_fn") and not a["fn"].get("is_async")
        ctx.require(is_sync, R_ATOMIC, "abort-all-is-atomic:%s@%s" % (name, cfg), "timer handles are taken out of the context's list in an async body: a fault at an await in between leaks them", fn=name, site=a["fn"]["loc"])
    # R06.8 who touches the timer list: the registrar (push), the abort-all functions (drain) and the constructor
    touch = {}
    holders = timers.list_holders(fx)
    inner = {a for a, _f in holders[1:]}  # wrapper types around the Vec
    recorders = set()
    for f in fx.d["fns"]:
        b = ctx.body(fx, f)
        acc = timers.touches_list(fx, f, b)
        if not acc:
            continue
        root = f.get("root", f["def"])
        # an access that only lends the list to a method of its wrapper type is the wrapper's business
        own = []
        for adt, field, bi, place in acc:
            t_ = b.term(bi)
            lent = False
            if adt == "context::Context" and inner and t_["k"] == "call":
                cal = fx.callee_fn(t_)
                if cal is not None and (cal.get("impl_self") or "").split("<")[0] in inner and not cal.get("impl_trait"):
                    lent = True
            if not lent and adt == "context::Context" and inner:
                # `_x = &mut self.tasks` feeding such a call
                for l, defs in b.assigns.items():
                    for (_bi, _si, st) in defs:
                        if _bi == bi and st["r"]["k"] == "ref" and st["r"].get("p") == place:
                            sk = [s for s in sinks(b, l) if s["k"] == "call"]
                            if sk and all((fx.callee_fn(s["t"]) or {}).get("impl_self", "").split("<")[0] in inner for s in sk):
                                lent = True
            if not lent:
                own.append(b.term(bi)["l"])
        if own:
            touch.setdefault(root, []).extend(own)
        # a wrapper method that makes a future abortable and records the handle is part of the registrar
        if _abortable_parts(b) is not None:
            recorders.add(root)
    allowed = set(ab) | set(r for r in timers.registrars(fx) if r.startswith("context::")) | recorders
    # (a private method of the list's wrapper type that only those functions use — `TaskList::push` — is part of them)
    allowed |= set(graph.private_helpers(fx, allowed))
    for fn_, locs in sorted(touch.items()):
        ctx.require(fn_ in allowed, R_ACCESS, "timer-list-access:%s@%s" % (fn_, cfg), "the context's timer list is accessed outside the registrar and the abort-all function (handles moved elsewhere are not aborted when the actor dies)", fn=fn_, site=locs[0], detail={"sites": len(locs)})


def check_drop_aborts(ctx, fx, cfg, ab, rule):
    dropf = fx.impl_fn("core::ops::drop::Drop", "context::Context<", "drop")
    if dropf is None:
        # the list may be a type of its own that aborts what is left on it when it goes away (`struct TaskList(Vec<AbortHandle>)`
        # with `impl Drop for TaskList`, a field of the Context): dropping the context drops the list
        for adt_, _fld in timers.list_holders(fx)[1:]:
            dropf = dropf or fx.impl_fn("core::ops::drop::Drop", adt_, "drop")
    if ctx.require(dropf is not None, rule, "Context-Drop@" + cfg, "impl Drop for Context not found: timers would outlive the actor"):
        b = ctx.body(fx, dropf)
        direct = dropf["def"] in ab
        calls = [t for _, t in b.normal_calls() if t.get("callee") in ab]
        # on all paths
        A = nfa.Alphabet(calls=[("abortall", lambda t: (t.get("callee") in ab) or (t.get("resolved") in ab))])
        n = nfa.build(b, A, fx, depth=2)  # the abort-all may sit behind a forwarding method
        if not calls and nfa.edges_labelled(n, "call:abortall"):
            calls = [{"callee": "(through a forwarding method)"}]

        class Must(nfa.Spec):
            init = (0,)

            def step(self, st, label):
                if label == "call:abortall":
                    return (1,)
                if label == "ret" and st[0] == 0:
                    return nfa.Err("Context::drop returns without aborting the timers on this path")
                return st
        viols, ps = (([], 0) if direct else nfa.check(n, Must()))
        ctx.count_nfa(n.stats(), ps)
        ctx.require((direct or calls) and not viols, rule, "Context-Drop@" + cfg, "dropping the context does not abort its timer tasks on every path", fn=dropf["def"], site=dropf["loc"], trace=viols[0]["trace"] if viols else None, detail={"direct": direct, "calls": [t["callee"] for t in calls]})


class _RegOrder(nfa.Spec):
    init = (0,)

    def step(self, st, label):
        if label == "call:push":
            return (1,)
        if label == "call:spawn":
            if st[0] != 1:
                return nfa.Err("timer spawned before its abort handle was recorded (a panic in between would leak it)")
            return (2,)
        if label == "ret" and st[0] != 2:
            return nfa.Err("registrar returns without recording and spawning on this path")
        return st


def _abortable_parts(b):
    """(task operand, local of the abortable future, local of the abort handle, site) if body b makes a future abortable:
    `let (fut, handle) = abortable(task)` or `let (handle, reg) = AbortHandle::new_pair(); let fut = Abortable::new(task, reg)`"""
    def split(pair):
        parts = {}
        for l, defs in b.assigns.items():
            for (_bi, _si, st) in defs:
                r = st["r"]
                if r["k"] == "use" and r["o"]["k"] in ("move", "copy") and r["o"]["p"][0] == pair and len(r["o"]["p"]) == 2:
                    parts[r["o"]["p"][1]] = l
        return parts
    ab = [(bi, t) for bi, t in b.normal_calls() if (t.get("callee") or "").endswith("abortable::abortable")]
    if len(ab) == 1:
        parts = split(ab[0][1]["dest"][0])
        if "f0" in parts and "f1" in parts:
            return ab[0][1]["args"][0], parts["f0"], parts["f1"], ab[0][1]["l"]
        return None
    np_ = [(bi, t) for bi, t in b.normal_calls() if (t.get("callee") or "").startswith("futures_util::abortable::") and (t.get("callee") or "").endswith("::new_pair")]
    an = [(bi, t) for bi, t in b.normal_calls() if (t.get("callee") or "").startswith("futures_util::abortable::") and (t.get("callee") or "").endswith("::new") and len(t["args"]) == 2]
    if len(np_) == 1 and len(an) == 1:
        parts = split(np_[0][1]["dest"][0])
        reg_ok = "f1" in parts and all(o.kind == "call" and o.site == (np_[0][0],) for o in b.origins(an[0][1]["args"][1]))
        if "f0" in parts and reg_ok and len(an[0][1]["dest"]) == 1:
            return an[0][1]["args"][0], an[0][1]["dest"][0], parts["f0"], an[0][1]["l"]
        return None
    return None


def check_registrar(ctx, fx, f, cfg):
    """the registrar R hands a future to the runtime; R itself, or one synchronous helper H it calls on the same context
    (a method of the context or of the task list's wrapper type), makes that future abortable and records the handle in
    the context's timer list before the future is spawned"""
    # (plain methods of the task list's wrapper type — `self.tasks.push(handle)` with `struct TaskList(Vec<AbortHandle>)` — are
    # looked at as if written here; a wrapper method that makes the future abortable stays a call: it is the helper H below)
    import inline
    _inner = {a_ for a_, _f in timers.list_holders(fx)[1:]}

    def _list_methods(g, t):
        return inline.not_public(g, t) and (g.get("impl_self") or "").split("<")[0] in _inner and _abortable_parts(ctx.body(fx, g)) is None
    b = inline.body(ctx, fx, f, _list_methods) if _inner else ctx.body(fx, f)
    inst = "registrar:%s@%s" % (f["def"], cfg)
    h, hb, hcall = f, b, None
    parts = _abortable_parts(b)
    if parts is None:
        cands = []
        for hbi, ht in b.normal_calls():
            g = fx.callee_fn(ht)
            if g is not None and g["kind"] in ("fn", "assoc_fn") and not g.get("is_async") and _abortable_parts(ctx.body(fx, g)) is not None:
                cands.append((ht, g))
        if not ctx.require(len(cands) == 1, "R06.2", inst, "the registrar must make the timer future abortable exactly once (directly or through one helper it calls)", fn=f["def"], site=f["loc"]):
            return
        hcall, h = cands[0]
        hb = ctx.body(fx, h)
        parts = _abortable_parts(hb)
    task_op, fut_l, han_l, site = parts
    hinst = inst if h is f else "registrar:%s@%s" % (h["def"], cfg)
    # the future made abortable is the parameter
    ctx.require(all(r.kind == "arg" for r in roots(hb, task_op)), "R06.2", hinst + ":wraps-argument", "abortable() is applied to something else than the timer future", fn=h["def"], site=site)
    pushed = [s for s in sinks(hb, han_l) if s["k"] == "call" and (s["t"].get("callee") or "").endswith("::push") and timers.ABORT_HANDLE in (s["t"].get("self_ty") or "")]
    on_list = bool(timers.touches_list(fx, h, hb))
    ctx.require(len(pushed) == 1 and on_list, "R06.2", hinst + ":records-handle", "the abort handle must be recorded in the context's task list", fn=h["def"], site=site)
    A = nfa.Alphabet(calls=[("push", (lambda x: (x.get("callee") or "").endswith("::push") and timers.ABORT_HANDLE in (x.get("self_ty") or "")) if h is f else (lambda x, _h=h: (x.get("resolved") or x.get("callee")) == _h["def"])), ("spawn", nfa.trait_method(timers.T_SPAWNF, "spawn_future"))])
    if h is f:
        fs = [s for s in sinks(b, fut_l) if s["k"] == "call"]
        spawned = [s for s in fs if nfa.trait_method(timers.T_SPAWNF, "spawn_future")(s["t"])]
        ctx.require(len(spawned) == 1, "R06.2", inst + ":spawns-abortable", "the future handed to the runtime must be the abortable one", fn=f["def"], site=site, detail=[s["t"].get("callee") for s in fs])
    else:
        returned = fut_l == 0 or any(s["k"] == "ret" for s in sinks(hb, fut_l))
        recv_ok = bool(hcall["args"]) and all(r.kind in ("arg", "upvar") for r in roots(b, hcall["args"][0]))
        arg_ok = len(hcall["args"]) >= 2 and all(r.kind == "arg" for r in roots(b, hcall["args"][1]))
        fs = [s for s in sinks(b, hcall["dest"][0]) if s["k"] == "call"]
        spawned = [s for s in fs if nfa.trait_method(timers.T_SPAWNF, "spawn_future")(s["t"])]
        ctx.require(returned and recv_ok and arg_ok and len(spawned) == 1, "R06.2", inst + ":spawns-abortable", "the future handed to the runtime must be the abortable one made from the registrar's parameter on the context's own list", fn=f["def"], site=hcall["l"], detail={"returned": returned, "recv": recv_ok, "arg": arg_ok, "spawned": len(spawned)})
    n = nfa.build(b, A)
    viols, ps = nfa.check(n, _RegOrder())
    ctx.count_nfa(n.stats(), ps)
    for v in viols:
        ctx.viol("R06.2", inst + ":order", v["msg"], fn=f["def"], site=f["loc"], trace=v["trace"])
    if not viols:
        ctx.ok("R06.2", inst + ":order", f["loc"], n.stats())
    return h
