"""C18 — spawn / detach / join behave identically on tokio, async-std and smol."""
import hashlib, json, re
import core, nfa, loops, graph, runtimes, facts
from mir import Body, sinks, agg_sites
from props.c15 import roots

EXPL = ("R18.1 (A6 must-consume, elaborated-drop MIR): in every function of the crate no ActorHandle / OwningAddr value is "
        "dropped on a normal path — every spawn entry point detaches its handle or hands it to the caller on all paths "
        "(dropping it cancels the actor on runtimes whose task handle cancels on drop). R18.2 (A7) per runtime, from the "
        "documented drop semantics of its task handle: where dropping cancels (smol), spawn_actor registers a detach "
        "function that takes the handle out of the shared slot and detaches it, ActorHandle::detach invokes it, and "
        "spawn_future detaches explicitly. R18.3 sibling agreement: the default spawner resolves to the enabled runtime, "
        "all three spawners implement spawn_actor / spawn_future / sleep, and all runtime-independent code is the same "
        "program in the three configurations (MIR digests equal modulo the spawner type). R18.8 (A4) the event loops reach no "
        "Spawner method and no function of a runtime crate: what a loop waits on works wherever it is polled. Not decided: behavioural "
        "equivalence of the three external executors beyond hannibal's runtime-dependent surface.")

CFG_SPAWNER = {"tokio": "TokioSpawner", "smol": "SmolSpawner", "asyncstd": "AsyncStdSpawner"}
ONLY_SOME = {"context::Context::<A>::publish": {"tokio", "asyncstd"}}  # cfg(any(tokio_runtime, async_runtime)) — recorded observation


def run(ctx):
    ctx.explanation = EXPL
    ctx.assumptions = ["documented drop semantics of tokio::task::JoinHandle (detaches), async_std::task::JoinHandle (detaches), async_task::Task (cancels) for the versions in Cargo.lock"]
    vers = runtimes.lock_versions(ctx.repo)
    for crate, major in runtimes.CONFIRMED_MAJOR.items():
        vs = vers.get(crate, [])
        ok = bool(vs) and all(v.split(".")[0] == major for v in vs)
        ctx.require(ok, "R18.2", "runtime-version:" + crate, "the handle-semantics table was confirmed for %s %s.x; Cargo.lock has %s: re-confirm the table in rules/runtimes.py" % (crate, major, vs), site="Cargo.lock", detail=vs)
    fxs = {}
    for cfg in ("tokio", "smol", "asyncstd"):
        try:
            fxs[cfg] = ctx.facts(cfg)
        except facts.BuildFailed as e:
            if cfg == "tokio":
                raise
            ctx.viol("R18.3", "builds:" + cfg, "the %s configuration does not build: the runtimes cannot behave identically: %s" % (cfg, str(e)[-300:]))
    if ctx.tier == "thorough":
        fb = ctx.try_facts("bare")
        if fb is not None:
            check_consume(ctx, fb, "bare", floor=3)
    from props import c17
    for cfg, fx in fxs.items():
        check_consume(ctx, fx, cfg, floor=3)
        check_runtime(ctx, fx, cfg)
        # R18.4 detach cannot be blocked by a join in progress on any runtime: a join takes the runtime handle out of the
        # shared slot and releases the slot's lock before it waits (smol's detach takes the same lock synchronously) —
        # the join protocol of C17, checked per runtime
        c17.check_join(ctx, fx, cfg, "R18.4")
        # R18.6 (shared with C17) joining and detaching mean the same on every runtime: what a join waits on cannot cancel the
        # actor when the join is given up, and detach cannot take it away from a join requested earlier (both were true of the
        # smol spawner of the pinned tree only: D7 / D8)
        c17.check_join_handle_is_inert(ctx, fx, cfg, "R18.6")
    check_siblings(ctx, fxs)
    return core.finish(ctx)


def handle_types(ty):
    if ty.startswith("impl{"):
        # the future of a crate-local `async fn` (named after the function, which may be a method *of* the handle type): it holds a
        # handle only if it captured one by value (`try_join(&mut self)` borrows)
        import re
        from props import c15 as _c15
        fx_ = _c15.FX[0]
        m = re.match(r"impl\{(.*)::\{opaque#\d+\}\}", ty)
        if fx_ is None or not m:
            return False
        kids = [c for c in fx_.children_of(m.group(1)) if c["kind"] == "coroutine"]
        return any(not u.startswith("&") and handle_types(u) for k in kids for u in (k.get("upvars") or []))
    return "actor::spawner::actor_handle::ActorHandle<" in ty or ty.startswith("addr::OwningAddr<") or "addr::OwningAddr<" in ty


def given_by_caller(b, local):
    """a handle the function received from its caller (consume(self), join(&mut self)): disposing of it is the caller's decision"""
    os_ = b.origins([local])
    return bool(os_) and all(o.kind in ("arg", "upvar") for o in os_)


def check_consume(ctx, fx, cfg, floor, RULE="R18.1"):
    sites = sorted({f["def"] for f, bi, t in graph.all_calls(fx, nfa.trait_method("actor::spawner::Spawner", "spawn_actor"))})
    n_fn = 0
    n_entry = [len(sites)]
    for f in fx.d["fns"]:
        if "post" in f:
            b = ctx.body(fx, f, "post")
            n_fn += 1
            drops = [(bi, blk["t"]) for bi, blk in enumerate(b.blocks) if not blk["c"] and blk["t"]["k"] == "drop" and handle_types(blk["t"]["ty"]) and len(blk["t"]["p"]) == 1 and not given_by_caller(b, blk["t"]["p"][0])]
            if f["def"] in sites or drops:
                ctx.require(not drops, RULE, "%s@%s" % (f["def"], cfg), "an actor handle is dropped on a normal path (on a runtime whose task handle cancels on drop the freshly spawned actor dies): %s" % [(t["ty"][:60], t["l"]) for _, t in drops], fn=f["def"], site=drops[0][1]["l"] if drops else f["loc"], detail={"mir": "post (drops elaborated)"})
        else:
            b = ctx.body(fx, f, "pre")
            drops = [(bi, blk["t"]) for bi, blk in enumerate(b.blocks) if not blk["c"] and blk["t"]["k"] == "drop" and handle_types(blk["t"]["ty"]) and len(blk["t"]["p"]) == 1 and not b.drop_is_noop_for(bi, blk["t"]["p"][0], handle_types) and not given_by_caller(b, blk["t"]["p"][0])]
            # a coroutine's captured variables are dropped by its own drop glue only when it is dropped unfinished
            if f["def"] in sites or drops:
                ctx.require(not drops, RULE, "%s@%s" % (f["def"], cfg), "an actor handle may be dropped on a normal path of this async body: %s" % [(t["ty"][:60], t["l"]) for _, t in drops], fn=f["def"], site=drops[0][1]["l"] if drops else f["loc"], detail={"mir": "pre + must-moved analysis"})
    # each site: the handle reaches detach or the caller
    for s in sites:
        f = fx.fn(s)
        b = ctx.body(fx, f)
        for bi, t in b.normal_calls():
            if nfa.trait_method("actor::spawner::Spawner", "spawn_actor")(t):
                sk = sinks(b, t["dest"][0])
                how = set()
                for x in sk:
                    if x["k"] == "call" and (x["t"].get("callee") or "") == "actor::spawner::actor_handle::ActorHandle::<A>::detach":
                        how.add("detach")
                    elif x["k"] == "call" and (x["t"].get("callee") or "") == "addr::OwningAddr::<A>::new":
                        how.add("owning")
                    elif x["k"] == "agg":
                        how.add("returned-in-%s" % (x.get("def") or x.get("ak")))
                    elif x["k"] == "ret":
                        how.add("ret")
                    elif x["k"] == "call" and x["t"].get("trait") and x["t"].get("callee_local") and not x["t"].get("resolved"):
                        # handed to a method of a crate-local trait chosen by a type parameter (`T::finish(addr, handle)` with
                        # `Detached` / `Owning` implementing it): every implementation must dispose of it properly
                        meth = (x["t"].get("callee") or "").split("::")[-1]
                        impls = [h_ for h_ in fx.d["fns"] if h_.get("impl_trait_def") == x["t"]["trait"] and h_["def"].endswith("::" + meth) and h_["kind"] == "assoc_fn"]
                        good_ = bool(impls)
                        for h_ in impls:
                            hs_ = sinks(ctx.body(fx, h_), x["idx"] + 1)
                            if not any((y["k"] == "call" and (y["t"].get("callee") or "") in ("actor::spawner::actor_handle::ActorHandle::<A>::detach", "addr::OwningAddr::<A>::new")) or y["k"] in ("agg", "ret") for y in hs_):
                                good_ = False
                        if good_:
                            how.add("via-impls-of-%s::%s" % (x["t"]["trait"].split("::")[-1], meth))
                ctx.require(bool(how), RULE, "consumed:%s@%s" % (s, cfg), "the handle returned by spawn_actor is neither detached nor handed to the caller", fn=s, site=t["l"], detail=sorted(how))
                if how and how <= {"ret"} | {h for h in how if h.startswith("returned-in-")}:
                    # a shared helper that hands the handle to its caller (`env.launch::<S>(actor)`): its callers are the
                    # entry points (what they do with the handle is judged by the drop rule above, which looks at every function)
                    n_entry[0] += len({g_["def"] for g_, _b, _t in graph.all_calls(fx, lambda x, _n=s: (x.get("resolved") or x.get("callee")) == _n or x.get("callee") == _n)})
                # what is spawned is the loop created from the actor in this function
                ph = loops.pair_helpers(fx)

                def is_loop(body_, fn_, operand, depth=0):
                    rs_ = body_.origins(operand)
                    if not rs_:
                        return False
                    for o in rs_:
                        if o.kind == "call" and o.proj[:1] == ("f0",) and ((body_.call_at(o).get("callee") or "").startswith("environment::Environment::<A, R>::create_loop") or (body_.call_at(o).get("resolved") or body_.call_at(o).get("callee")) in ph):
                            continue
                        if o.kind == "arg" and not o.proj and depth < 2 and fn_["kind"] in ("fn", "assoc_fn") and fn_.get("vis") != "pub" and not fn_.get("impl_trait"):
                            # a private helper that is handed the loop (`launch::<S, _, _>(event_loop, addr)`): every caller must hand over one
                            callers = [(g_, t_) for g_, _bi2, t_ in graph.all_calls(fx, lambda x, _n=fn_["def"]: (x.get("resolved") or x.get("callee")) == _n)]
                            if callers and all(o.site - 1 < len(t_["args"]) and is_loop(ctx.body(fx, g_), g_, t_["args"][o.site - 1], depth + 1) for g_, t_ in callers):
                                continue
                        return False
                    return True
                ok = is_loop(b, f, t["args"][0])
                ctx.require(ok, RULE, "spawns-its-loop:%s@%s" % (s, cfg), "what is spawned is not the event loop created here", fn=s, site=t["l"])
    ctx.floor(RULE, "spawn entry points (%s)" % cfg, n_entry[0], floor)


def check_runtime(ctx, fx, cfg):
    sp_name = CFG_SPAWNER[cfg]
    impls = {}
    for f in fx.impl_fns("actor::spawner::Spawner"):
        impls.setdefault(f.get("impl_self"), {})[f["def"].split("::")[-1]] = f
    mine = [k for k in impls if k.endswith(sp_name)]
    if not ctx.require(len(mine) == 1, "R18.3", "spawner-impl@" + cfg, "expected exactly the %s implementation of Spawner, found %s" % (sp_name, sorted(impls))):
        return
    m = impls[mine[0]]
    ctx.require(set(m) >= {"spawn_actor", "spawn_future", "sleep"}, "R18.3", "spawner-methods@" + cfg, "spawner methods missing: %s" % sorted(m), detail=sorted(m))
    # R18.5 spawn_actor / spawn_future hand their future to the runtime's ambient spawn function (the known ones of
    # `runtimes.SPAWN_FNS`), exactly once — a future spawned through a cached runtime handle, a hand-rolled executor or not at
    # all runs (or does not) by rules of its own, not by those of the runtime the caller is in
    for mname in ("spawn_actor", "spawn_future"):
        mf = m.get(mname)
        if mf is None:
            continue
        import inline
        mb = inline.body(ctx, fx, mf, inline.not_public)  # (`let result_rx = spawn_reporting(future);`)
        sps = [t_ for _bi, t_ in mb.normal_calls() if t_.get("callee") in runtimes.SPAWN_FNS]
        rs_ = set(roots(mb, sps[0]["args"][0])) if len(sps) == 1 else set()
        # (a task that is the future of a crate-local `async fn` given the loop future — `report(result_tx, future)` — is made of
        # what that function is given)
        for r_ in list(rs_):
            if r_.kind.startswith("call:") and fx.fn(r_.kind[5:]) is not None and fx.fn(r_.kind[5:]).get("is_async"):
                for a_ in mb.blocks[r_.site[0]]["t"].get("args", []):
                    rs_ |= set(roots(mb, a_))
        ok_ = len(sps) == 1 and bool(rs_) and all(r_.kind == "arg" or r_.kind.startswith("call:") for r_ in rs_) and any(r_.kind == "arg" for r_ in rs_)
        ctx.require(ok_, "R18.5", "%s-uses-ambient-spawn@%s" % (mname, cfg), "%s must hand its future to the runtime's own spawn function exactly once (found %s)" % (mname, [t_["callee"] for t_ in sps]), fn=mf["def"], site=mf["loc"])
    # R18.8 the event loops — the message pump, the handler-timeout race, the restart strategies they call — are runtime-free:
    # nothing reachable from a loop calls a Spawner method or a function of a runtime crate. What they wait on (the mailbox, the
    # stream, futures_timer's Delay) works wherever it is polled; a runtime's own primitive brings that runtime's preconditions
    # into every actor (tokio::time::sleep panics on a runtime built without the time driver, smol's Timer does not), so the
    # same program would end differently on different runtime features
    RT_CRATES = ("tokio", "smol", "async_std", "async_global_executor", "async_io", "async_executor")
    reached_ = {}
    for lf_, _k in loops.find_loops(fx):
        for d_ in graph.reach(fx, lf_["def"], depth=5):
            reached_.setdefault(d_, lf_["def"])
    rt_calls = []
    for d_ in sorted(reached_):
        g_ = fx.fn(d_)
        if g_ is None:
            continue
        for _bi, t_ in ctx.body(fx, g_).normal_calls():
            c_ = t_.get("callee") or ""
            if (t_.get("trait") or "").startswith("actor::spawner::") or c_.split("::")[0].lstrip("<") in RT_CRATES or (t_.get("resolved") or "").lstrip("<").split("::")[0] in RT_CRATES:
                rt_calls.append((d_, c_, t_["l"], reached_[d_]))
    ctx.require(not rt_calls and len(reached_) >= 1, "R18.8", "loops-runtime-free@" + cfg, "an event loop reaches a runtime-specific primitive (a Spawner method / a runtime crate's function): the loop then inherits that runtime's preconditions and no longer behaves the same on every runtime: %s" % [(a, b_, l_) for a, b_, l_, _r in rt_calls], fn=rt_calls[0][0] if rt_calls else None, site=rt_calls[0][2] if rt_calls else "crate", detail={"functions_reachable_from_loops": len(reached_), "positive_control": "Context::interval's task (outside the loops) calls A::sleep: %s" % any((t_.get("trait") or "").startswith("actor::spawner::") for f_, _b, t_ in graph.all_calls(fx, lambda t__: (t__.get("callee") or "").endswith("::sleep")))})
    ctx.floor("R18.8", "functions reachable from the event loops (%s)" % cfg, len(reached_), 10)
    # R18.7 the crate's own `runtime::block_on` (what `#[hannibal::main]` expands to) drives the program on a runtime whose
    # spawned tasks run *beside* the blocked-on future, as smol's global executor and async-std's do (there `block_on` is the
    # runtime's own, re-exported): on tokio that is the multi-thread runtime — on a current-thread runtime a spawned actor only
    # runs while the main future is suspended, so a program that waits for an actor without awaiting would behave differently
    # (wherever under `runtime::` it is written: `runtime::tokio_rt::block_on` re-exported as `runtime::block_on`)
    bos = [g for g in fx.d["fns"] if g["kind"] == "fn" and g["def"].startswith("runtime::") and g["def"].endswith("::block_on")]
    bo = bos[0] if len(bos) == 1 else None
    if cfg == "tokio":
        if ctx.require(bo is not None, "R18.7", "block_on@" + cfg, "runtime::block_on not found"):
            import inline
            bb = inline.body(ctx, fx, bo, inline.not_public)
            rt_calls = [(t_.get("callee") or "") for _b, t_ in bb.normal_calls() if (t_.get("callee") or "").startswith("tokio::runtime::")]
            multi = [c for c in rt_calls if c.endswith("runtime::{impl#0}::new") or c.endswith("::new_multi_thread")]
            single = [c for c in rt_calls if c.endswith("::new_current_thread") or "local" in c.split("::")[-1].lower() or "LocalSet" in c]
            drives = [c for c in rt_calls if c.endswith("::block_on")]
            ctx.require(bool(multi) and not single and len(drives) == 1, "R18.7", "block_on-multi-thread@" + cfg,
                        "runtime::block_on must run its future on a multi-thread tokio runtime (spawned actors run beside it, as on smol / async-std): runtime calls %s" % [c.split("::", 2)[-1] for c in rt_calls], fn=bo["def"], site=bo["loc"], detail=rt_calls)
    elif bo is not None:
        ctx.viol("R18.7", "block_on@" + cfg, "a hand-written runtime::block_on for %s: which executor runs spawned tasks beside it must be confirmed" % cfg, fn=bo["def"], site=bo["loc"])
    # every runtime spawn in the crate: what happens to the handle
    for f, bi, t in graph.all_calls(fx, lambda t: t.get("callee") in runtimes.SPAWN_FNS):
        b = ctx.body(fx, f)
        crate, sem = runtimes.handle_kind(t["destty"])
        inst = "%s@%s" % (f["def"], cfg)
        if not ctx.require(crate is not None, "R18.2", "known-handle:" + inst, "unknown runtime handle %s" % t["destty"][:60], fn=f["def"], site=t["l"]):
            continue
        sk = sinks(b, t["dest"][0]) if len(t["dest"]) == 1 else []
        detached = any(x["k"] == "call" and (x["t"].get("callee") or "").endswith("::detach") for x in sk)
        stored = any(x["k"] == "agg" and x.get("variant") == "Some" for x in sk) or (len(t["dest"]) == 1 and any(x["k"] == "agg" and x.get("variant") == "Some" for x in graph.value_sinks(fx, b, t["dest"][0])))
        if sem == "cancels":
            if f["def"].endswith("::spawn_future"):
                ctx.require(detached, "R18.2", "spawn_future-detaches@" + cfg, "dropping this runtime's task handle cancels the task: spawn_future must detach it explicitly", fn=f["def"], site=t["l"])
            else:
                # spawn_actor: stored in the slot + detach function registered
                wd = [x for _, x in b.normal_calls() if x.get("callee") == "actor::spawner::actor_handle::ActorHandle::<A>::with_detach_fn"]
                okd = False
                if stored and len(wd) == 1:
                    for o in b.origins(wd[0]["args"][1]):
                        if o.kind == "agg":
                            cdef = b.blocks[o.site[0]]["s"][o.site[1]]["r"].get("def")
                            c = fx.fn(cdef)
                            if c:
                                cbs = [ctx.body(fx, g_) for g_ in graph.with_forwarded(fx, c)]  # the closure or the named function it forwards to
                                takes = any((x.get("callee") or "").endswith("option::{impl#0}::take") for cb in cbs for _, x in cb.normal_calls())
                                dets = [x for cb in cbs for _, x in cb.normal_calls() if (x.get("callee") or "").startswith("async_task::") and (x.get("callee") or "").endswith("::detach")]
                                okd = takes and len(dets) == 1
                    # and the returned ActorHandle is the one with the detach fn
                    okd = okd and (wd[0]["dest"] == [0] or any(s["k"] == "ret" for s in sinks(b, wd[0]["dest"][0])))
                if not okd and detached and not wd:
                    # ... or the task is detached right where it is spawned and nothing that can cancel it is kept (the loop
                    # then reports its result through a channel: judged by C17's `reports-loop-result`)
                    okd = True
                if not okd and stored:
                    # ... or the detaching is a method of the task object the handle is built from (`impl SpawnedTask for
                    # SmolTask { fn detach(self: Box<Self>) { take the handle out of the slot; detach it } }`), which
                    # ActorHandle::detach calls when no detach function was registered
                    from props import c17 as _c17
                    _jc, dc_, _mk = _c17.handle_parts(ctx, fx, f)
                    if dc_ is not None and dc_["kind"] == "assoc_fn":
                        cbs = [ctx.body(fx, g_) for g_ in graph.with_forwarded(fx, dc_)]
                        takes = any((x.get("callee") or "").endswith("option::{impl#0}::take") for cb in cbs for _, x in cb.normal_calls())
                        dets = [x for cb in cbs for _, x in cb.normal_calls() if (x.get("callee") or "").startswith("async_task::") and (x.get("callee") or "").endswith("::detach")]
                        ahd = fx.fn("actor::spawner::actor_handle::ActorHandle::<A>::detach")
                        tt_ = _c17.task_trait(fx)
                        calls_it = ahd is not None and tt_ is not None and any(x.get("trait") == tt_[0] and (x.get("callee") or "").endswith("::detach") for _, x in ctx.body(fx, ahd).normal_calls())
                        okd = takes and len(dets) == 1 and calls_it
                ctx.require(okd, "R18.2", "detach-fn-registered@" + cfg, "dropping this runtime's task handle cancels the actor: spawn_actor must register a detach function that takes the handle out of the slot and detaches it", fn=f["def"], site=t["l"])
        else:
            ctx.ok("R18.2", "handle-drop-detaches:" + inst, t["l"], {"crate": crate, "drop": sem, "stored": stored})
    # ActorHandle::detach invokes the detach function when present
    d = fx.fn("actor::spawner::actor_handle::ActorHandle::<A>::detach")
    if ctx.require(d is not None, "R18.2", "ActorHandle::detach@" + cfg, "ActorHandle::detach not found"):
        b = ctx.body(fx, d)
        A = nfa.Alphabet(calls=[("invoke", lambda t: (t.get("callee") or "").endswith(("FnOnce::call_once", "FnMut::call_mut", "Fn::call")) and "dyn core::ops::function::FnOnce<()>" in " ".join(t["argtys"]))], adts={"core::option::Option": "Option"})

        class Inv(nfa.Spec):
            init = ("s0",)

            def step(self, st, label):
                ev = label.split("@")[0]
                if ev == "sw:Option::Some" or (ev.startswith("sw:") and ev[3:] in FN_VARIANTS):
                    return ("some",)
                if ev == "call:invoke":
                    return ("invoked",)
                if ev == "ret" and st[0] == "some":
                    return nfa.Err("a registered detach function is not invoked")
                return st
        # the stored function may live in a crate-local enum instead of an Option (`OnDetach::Call(Box<dyn FnOnce()>)`), and the
        # match on it in a small method of that enum (`on_detach.run()`)
        FN_VARIANTS = set()
        for adt_, a_ in fx.adts.items():
            if adt_.split("::")[0] in ("core", "std", "alloc") or len(a_.get("variants", [])) < 2:
                continue
            for v_ in a_["variants"]:
                if any("dyn core::ops::function::FnOnce<()>" in fl_["ty"] for fl_ in v_["fields"]):
                    FN_VARIANTS.add("%s::%s" % (adt_.split("::")[-1], v_["name"]))
        A.adt_fn = lambda adt: adt.split("::")[-1] if (adt in fx.adts and adt.split("::")[0] not in ("core", "std", "alloc")) else None
        n = nfa.build(b, A, fx, depth=2)
        viols, ps = nfa.check(n, Inv())
        ctx.count_nfa(n.stats(), ps)
        inv = len(nfa.edges_labelled(n, "call:invoke"))
        # ... and nothing else does: the registered function takes the runtime handle out of the shared slot a pending join
        # reads — run from `Drop` (or anywhere but the consuming `detach(self)`) it makes a join started earlier yield nothing
        is_inv = A.calls[0][1]
        owners_ = {d["def"]}
        helpers_ = graph.private_helpers(fx, owners_)
        for g_, _bi, t_ in graph.all_calls(fx, is_inv):
            r_ = g_.get("root", g_["def"])
            ctx.require(r_ in owners_ or r_ in helpers_, "R18.2", "detach-fn-invoked-only-by-detach:%s@%s" % (r_, cfg), "the registered detach function is invoked outside ActorHandle::detach(self) (from %s, used by %s)" % (r_, sorted(graph.caller_roots(fx).get(r_, set()) - owners_)[:3]), fn=g_["def"], site=t_["l"])
        ctx.require(not viols and inv == 1, "R18.2", "ActorHandle::detach@" + cfg, "ActorHandle::detach must invoke the registered detach function: %s" % [v["msg"] for v in viols], fn=d["def"], site=d["loc"])
    wd = fx.fn("actor::spawner::actor_handle::ActorHandle::<A>::with_detach_fn")
    if ctx.require(wd is not None, "R18.2", "with_detach_fn@" + cfg, "ActorHandle::with_detach_fn not found"):
        b = ctx.body(fx, wd)
        stores = b.partial.get(1, [])
        ok = len(stores) == 1 and b.on_all_paths_to_return(stores[0][0])
        ctx.require(ok, "R18.2", "with_detach_fn-stores@" + cfg, "with_detach_fn must store the detach function", fn=wd["def"], site=wd["loc"])
    # default spawner
    bf = fx.fn("actor::build::build")
    if ctx.require(bf is not None, "R18.3", "default-spawner@" + cfg, "hannibal::build not found"):
        ctx.require(sp_name in bf["output"], "R18.3", "default-spawner@" + cfg, "the default spawner does not resolve to %s: %s" % (sp_name, bf["output"]), fn=bf["def"], site=bf["loc"], detail=bf["output"])


def digest(f, stage="pre"):
    rows = []
    norm = lambda s: re.sub(r"actor::spawner::\w+_spawner::\w+Spawner", "$SP", s or "")
    for blk in f[stage]["blocks"]:
        t = blk["t"]
        row = [t["k"], norm(t.get("callee")), norm(t.get("resolved")), t.get("target"), t.get("unwind"), [norm(g) for g in t.get("gargs", [])] if t["k"] == "call" else None]
        if t["k"] == "switch":
            row.append(t["targets"])
        row.append([(s["k"], s["r"]["k"] if s["k"] == "assign" else None, norm(s["r"].get("def")) if s["k"] == "assign" else None) for s in blk["s"]])
        rows.append(row)
    return hashlib.sha1(json.dumps(rows, sort_keys=True).encode()).hexdigest()[:16]


def check_siblings(ctx, fxs):
    def indep(name):
        return not (name.startswith("<actor::spawner::") and "_spawner::" in name) and "_spawner::" not in name.split("::{")[0] and not name.startswith("runtime::")
    tables = {}
    for cfg, fx in fxs.items():
        tables[cfg] = {f["def"]: digest(f) for f in fx.d["fns"] if indep(f["def"])}
    cfgs = sorted(tables)
    allnames = set()
    for t in tables.values():
        allnames |= set(t)
    n_same = 0
    for name in sorted(allnames):
        have = {c for c in cfgs if name in tables[c]}
        root = name.split("::{")[0]
        expect = ONLY_SOME.get(root)
        if have != set(cfgs):
            if expect is not None and have == (expect & set(cfgs)):
                ctx.note("observation: %s exists only in %s (cfg-gated)" % (root, sorted(have)))
                continue
            # a cfg-gated helper that only runtime-specific code uses (the smol spawner's `take_blocking`) is part of that
            # runtime's spawner, wherever it is written
            users = set()
            for c in have:
                users |= {u for u in graph.caller_roots(fxs[c]).get(root, set()) if u != root}
            if users and all(not indep(u) for u in users):
                ctx.note("observation: %s exists only in %s and is used only by runtime-specific code %s" % (root, sorted(have), sorted(users)))
                continue
            ctx.viol("R18.3", "same-program:" + name, "runtime-independent function exists only in configurations %s" % sorted(have), fn=name)
            continue
        ds = {tables[c][name] for c in cfgs}
        if len(ds) != 1:
            ctx.viol("R18.3", "same-program:" + name, "runtime-independent function differs between runtime configurations: %s" % {c: tables[c][name] for c in cfgs}, fn=name)
        else:
            n_same += 1
    ctx.ok("R18.3", "same-program", "crate", {"functions_compared": n_same, "configurations": cfgs})
    ctx.floor("R18.3", "runtime-independent functions compared", n_same, 200 if len(cfgs) > 1 else 0)
