"""Vocabulary of the timer machinery: abort-all functions, the registrar, timer APIs and their coroutines."""
import nfa, graph, loops
from mir import Body, sinks, agg_sites
from tywalk import field_accesses

ABORT_HANDLE = "futures_util::abortable::AbortHandle"
T_SPAWNF = "actor::spawner::SpawnFutures"


def is_abort(t):
    return (t.get("callee") or "").startswith("futures_util::abortable::") and (t.get("callee") or "").endswith("::abort") and ABORT_HANDLE in (t.get("self_ty") or "")


def is_drain_handles(t):
    c = t.get("callee") or ""
    return c.startswith("alloc::vec::") and c.endswith(("::drain", "::into_iter", "::iter", "::iter_mut")) and ABORT_HANDLE in (t.get("self_ty") or "") or (c.endswith("IntoIterator::into_iter") and ABORT_HANDLE in " ".join(t.get("argtys", [])))


class AbortAll(nfa.Spec):
    """every handle taken out of the list is aborted; the whole list is visited"""
    init = ("s0",)

    def step(self, st, label):
        ev = label.split("@")[0]
        ph = st[0]
        if ev == "call:drain":
            return ("iter",)
        if ev == "sw:Option::Some":
            return ("got",) if ph in ("iter", "aborted") else st
        if ev == "call:abort":
            if ph != "got":
                return nfa.Err("abort without a handle taken from the list")
            return ("aborted",)
        if ev == "call:iternext" and ph == "got":
            return nfa.Err("a timer handle is skipped (not aborted)")
        if ev == "ret":
            if ph == "s0":
                return nfa.Err("returns without visiting the timer list")
            if ph == "got":
                return nfa.Err("returns with a handle taken but not aborted")
        return st


def aborters(ctx, fx):
    """functions that abort every handle of Context.tasks: {def: fn}"""
    out = {}
    A = nfa.Alphabet(calls=[("abort", is_abort), ("drain", is_drain_handles), ("iternext", nfa.callee_ends("Iterator::next"))], adts={"core::option::Option": "Option"})
    for f in fx.d["fns"]:
        b = ctx.body(fx, f)
        if not any(is_abort(t) for _, t in b.normal_calls()):
            continue
        if not any(is_drain_handles(t) for _, t in b.normal_calls()):
            continue
        touches = any(name == "tasks" for _bi, _w, name, _p in field_accesses(fx, f, b, "context::Context"))
        if not touches:
            continue
        n = nfa.build(b, A)
        viols, ps = nfa.check(n, AbortAll())
        ctx.count_nfa(n.stats(), ps)
        drains = [t for _, t in b.normal_calls() if is_drain_handles(t)]
        removes = any((t.get("callee") or "").endswith("::drain") for t in drains)
        out[f["def"]] = {"fn": f, "viols": viols, "removes": removes}
    return out


def registrars(fx):
    """functions handing a future to SpawnFutures::spawn_future"""
    return sorted({f["def"] for f, _bi, _t in graph.all_calls(fx, nfa.trait_method(T_SPAWNF, "spawn_future"))})


def timer_apis(fx, regs):
    out = {}
    for f, bi, t in graph.all_calls(fx, lambda t: (t.get("callee") in regs)):
        out.setdefault(f["def"], []).append((bi, t))
    return out


def timer_coroutines(fx):
    out = []
    for f in fx.d["fns"]:
        if f["kind"] != "coroutine":
            continue
        b = Body(f)
        if any(nfa.trait_method(T_SPAWNF, "sleep")(t) for _, t in b.normal_calls()):
            out.append(f)
    return out
