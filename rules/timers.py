"""Vocabulary of the timer machinery: abort-all functions, the registrar, timer APIs and their coroutines."""
import nfa, graph, loops
from mir import Body, sinks, agg_sites
from tywalk import field_accesses

ABORT_HANDLE = "futures_util::abortable::AbortHandle"
T_SPAWNF = "actor::spawner::SpawnFutures"


def is_abort(t):
    return (t.get("callee") or "").startswith("futures_util::abortable::") and (t.get("callee") or "").endswith("::abort") and ABORT_HANDLE in (t.get("self_ty") or "")


def is_drain_handles(t):
    c = t.get("callee") or ""
    return c.startswith("alloc::vec::") and c.endswith(("::drain", "::into_iter", "::iter", "::iter_mut")) and ABORT_HANDLE in (t.get("self_ty") or "") or (c.endswith("IntoIterator::into_iter") and ABORT_HANDLE in " ".join(t.get("argtys", [])))


class AbortAll(nfa.Spec):
    """every handle taken out of the list is aborted; the whole list is visited"""
    init = ("s0",)

    def step(self, st, label):
        ev = label.split("@")[0]
        ph = st[0]
        if ev == "call:drain":
            return ("iter",)
        if ev == "sw:Option::Some":
            return ("got",) if ph in ("iter", "aborted") else st
        if ev == "call:abort":
            if ph != "got":
                return nfa.Err("abort without a handle taken from the list")
            return ("aborted",)
        if ev == "call:iternext" and ph == "got":
            return nfa.Err("a timer handle is skipped (not aborted)")
        if ev == "ret":
            if ph == "s0":
                return nfa.Err("returns without visiting the timer list")
            if ph == "got":
                return nfa.Err("returns with a handle taken but not aborted")
        return st


def list_holders(fx):
    """[(adt, field)] through which the context owns its timer handles: Context.<field>, and — when that field is a crate-
    local wrapper type around the Vec<AbortHandle> — the wrapper's own field(s) down to the Vec"""
    out = []
    adt = "context::Context"
    for _ in range(4):
        a = fx.adts.get(adt)
        if a is None or len(a["variants"]) != 1:
            break
        nxt = None
        for fl in a["variants"][0]["fields"]:
            ty = fl["ty"]
            if ABORT_HANDLE in ty and "alloc::vec::Vec<" in ty:
                out.append((adt, fl["name"]))
                return out
            name = ty.split("<")[0]
            inner = fx.adts.get(name)
            if inner is not None and _owns_handles(fx, name, 0):
                out.append((adt, fl["name"]))
                nxt = name
        if nxt is None:
            break
        adt = nxt
    return out


def _owns_handles(fx, adt, depth):
    a = fx.adts.get(adt)
    if a is None or depth > 3 or len(a["variants"]) != 1:
        return False
    for fl in a["variants"][0]["fields"]:
        if ABORT_HANDLE in fl["ty"] and "alloc::vec::Vec<" in fl["ty"]:
            return True
        if _owns_handles(fx, fl["ty"].split("<")[0], depth + 1):
            return True
    return False


def touches_list(fx, f, b):
    """accesses of body b to the timer list: [(adt, field, bb, place)]"""
    out = []
    for adt, field in list_holders(fx):
        for bi, _w, name, place in field_accesses(fx, f, b, adt):
            if name == field:
                out.append((adt, field, bi, place))
    return out


def aborters(ctx, fx):
    """functions that abort every handle of Context.tasks: {def: fn}"""
    out = {}
    A = nfa.Alphabet(calls=[("abort", is_abort), ("drain", is_drain_handles), ("iternext", nfa.callee_ends("Iterator::next"))], adts={"core::option::Option": "Option"})
    for f in fx.d["fns"]:
        b = ctx.body(fx, f)
        if not any(is_drain_handles(t) for _, t in b.normal_calls()):
            continue
        if not any(is_abort(t) for _, t in b.normal_calls()):
            # the combinator form: `self.tasks.drain(..).for_each(|task| task.abort())` — Iterator::for_each visits every
            # element; the closure aborts the element it is given
            fe = [t for _, t in b.normal_calls() if (t.get("callee") or "").endswith("Iterator::for_each") and ABORT_HANDLE in " ".join(t.get("argtys", []))]
            good = False
            if len(fe) == 1 and touches_list(fx, f, b):
                src_ok = any(o.kind == "call" and is_drain_handles(b.call_at(o)) for o in b.origins(fe[0]["args"][0]))
                clo = None
                for a in fe[0].get("argtys", [])[1:]:
                    if a.startswith("{closure:"):
                        clo = fx.fn(a[len("{closure:"):-1])
                if src_ok and clo is not None:
                    cb = ctx.body(fx, clo)
                    ab = [x for _, x in cb.normal_calls() if is_abort(x)]
                    good = len(ab) == 1 and all(o.kind == "arg" and o.site == 2 for o in cb.origins(ab[0]["args"][0]))
            if good:
                drains = [t for _, t in b.normal_calls() if is_drain_handles(t)]
                out[f["def"]] = {"fn": f, "viols": [], "removes": any((t.get("callee") or "").endswith("::drain") for t in drains)}
            continue
        if not touches_list(fx, f, b):
            continue
        n = nfa.build(b, A)
        viols, ps = nfa.check(n, AbortAll())
        ctx.count_nfa(n.stats(), ps)
        drains = [t for _, t in b.normal_calls() if is_drain_handles(t)]
        removes = any((t.get("callee") or "").endswith("::drain") for t in drains)
        out[f["def"]] = {"fn": f, "viols": viols, "removes": removes}
    return out


def registrars(fx):
    """functions handing a future to SpawnFutures::spawn_future"""
    return sorted({f["def"] for f, _bi, _t in graph.all_calls(fx, nfa.trait_method(T_SPAWNF, "spawn_future"))})


def timer_apis(fx, regs):
    out = {}
    for f, bi, t in graph.all_calls(fx, lambda t: (t.get("callee") in regs)):
        out.setdefault(f["def"], []).append((bi, t))
    return out


def timer_coroutines(fx):
    """the futures that are timers: coroutines that sleep. When the sleeping body is a crate-private `async fn` that another
    coroutine awaits (`async move { let Err(e) = send_every(myself, msg, d).await; .. }`), the timer is that outer future —
    the rules look at it with the helper inlined"""
    out = []
    for f in fx.d["fns"]:
        if f["kind"] != "coroutine":
            continue
        b = Body(f)
        if any(nfa.trait_method(T_SPAWNF, "sleep")(t) for _, t in b.normal_calls()):
            out.append(f)
    res = []
    for f in out:
        work, seen = [f], set()
        while work:
            g = work.pop()
            if g["def"] in seen:
                continue
            seen.add(g["def"])
            parent = fx.fn(g.get("parent") or "") or {}
            outer = []
            if parent.get("is_async") and parent.get("kind") in ("fn", "assoc_fn") and parent.get("vis") != "pub" and len(seen) <= 3:
                outer = [h for h, _bi, t in graph.all_calls(fx, lambda t, _n=parent["def"]: (t.get("resolved") or t.get("callee")) == _n) if h["kind"] == "coroutine"]
            if outer:
                work.extend(outer)
            elif g["def"] not in {r["def"] for r in res}:
                res.append(g)
    return res


class Creation:
    """where a timer future comes into being: the function that builds the coroutine value — or, when the body is a named
    async fn, each function that calls it — together with the operands it captures"""

    def __init__(self, api, body, site, caps, local=None):
        self.api = api      # fn record of the creating function
        self.body = body    # its Body
        self.site = site    # source location
        self.caps = caps    # capture index of the coroutine -> operand in `body`
        self.local = local  # the local of `body` that receives the future (None if not a plain local)

    def reaches(self, callees):
        """is the created future handed (through moves, boxing, crate-local pass-through) to one of `callees`?"""
        from mir import sinks
        if self.local is None:
            return None
        for s in sinks(self.body, self.local):
            if s["k"] == "call" and ((s["t"].get("callee") in callees) or (s["t"].get("resolved") in callees)):
                return True
        return False


def creations(fx, co):
    out = []
    parent = fx.fn(co.get("parent") or "")
    if parent is None:
        return out
    pb = Body(parent)
    if parent["kind"] == "closure":
        # the future is made by a closure that an API function hands to a private helper which calls it and registers the
        # result (`self.spawn_self_sending(move |myself| async move { .. })`): seen from the API function with the helper
        # and the closure inlined, the future is created there, from its parameters and the weak sender the helper made
        import inline
        root = fx.fn(parent.get("root") or "")
        if root is not None and root["kind"] in ("fn", "assoc_fn"):
            regs_ = set(registrars(fx))

            def helpers_but_registrar(g, t_):
                return inline.not_public(g, t_) and g["def"] not in regs_
            rec = inline.inlined(fx, root, helpers_but_registrar)
            if parent["def"] in rec["inlined_from"]:
                rb = Body(rec)
                for _bi, _si, st in agg_sites(rb, ak="coroutine"):
                    if st["r"]["def"] == co["def"]:
                        out.append(Creation(root, rb, st.get("l"), dict(enumerate(st["r"]["ops"])), st["p"][0] if len(st["p"]) == 1 else None))
                if out:
                    return out
    for _bi, _si, st in agg_sites(pb, ak="coroutine"):
        if st["r"]["def"] != co["def"]:
            continue
        ops = st["r"]["ops"]
        if parent.get("is_async") and parent["kind"] in ("fn", "assoc_fn"):
            # async fn: the coroutine captures the parameters; the future is created where the fn is called
            argidx = {}
            ok = True
            for i, o in enumerate(ops):
                os_ = pb.origins(o) if o.get("k") in ("move", "copy") else set()
                if len(os_) == 1 and next(iter(os_)).kind == "arg" and not next(iter(os_)).proj:
                    argidx[i] = next(iter(os_)).site
                else:
                    ok = False
            if ok:
                for g, bi, t in graph.all_calls(fx, lambda t: (t.get("resolved") or t.get("callee")) == parent["def"] or t.get("callee") == parent["def"]):
                    gb = Body(g)
                    out.append(Creation(g, gb, t["l"], {i: t["args"][k - 1] for i, k in argidx.items() if k - 1 < len(t["args"])}, t["dest"][0] if len(t["dest"]) == 1 else None))
                continue
        out.append(Creation(parent, pb, st.get("l"), dict(enumerate(ops)), st["p"][0] if len(st["p"]) == 1 else None))
    return out


def creation_instances(fx, co, depth=2):
    """each way a timer future comes into being, followed up through crate-private synchronous helpers that create it on
    behalf of a public API (`interval_with` -> `send_on_schedule(.., Schedule::Repeatedly)` -> async block):
    [(api fn record, Creation, {capture index: enum variant / bool constant it is bound to})]"""
    out = []
    for cr in creations(fx, co):
        frames = [(cr.api, cr.body, dict(cr.caps))]
        # climb: while the creating function is private and only called from crate-local functions
        work = [(cr.api, cr.body, dict(cr.caps), 0)]
        while work:
            api, body, caps, d = work.pop()
            consts = {}
            arg_caps = {}
            for i, o in caps.items():
                v = _const_of(body, o)
                if v is not None:
                    consts[i] = v
                os_ = body.origins(o) if isinstance(o, dict) and o.get("k") in ("move", "copy") else set()
                if len(os_) == 1 and next(iter(os_)).kind == "arg" and not next(iter(os_)).proj:
                    arg_caps[i] = next(iter(os_)).site
            callers = [(g, t) for g, _bi, t in graph.all_calls(fx, lambda t, _n=api["def"]: (t.get("resolved") or t.get("callee")) == _n)] if (api.get("vis") != "pub" and d < depth and arg_caps) else []
            if callers:
                for g, t in callers:
                    gb = Body(g)
                    caps2 = dict(caps)
                    for i, k in arg_caps.items():
                        if k - 1 < len(t["args"]):
                            caps2[i] = t["args"][k - 1]
                    # captures bound to constants stay bound; the others are re-expressed in the caller
                    work.append((g, gb, {i: (o if i in arg_caps else caps[i]) for i, o in caps2.items()}, d + 1))
                    out_consts = dict(consts)
                continue
            out.append((api, cr, consts))
    return out


def _const_of(body, o):
    """the enum variant (fieldless literal) or bool constant an operand is bound to, if it is one"""
    if not isinstance(o, dict):
        return None
    if o.get("k") == "const" and str(o.get("v")) in ("true", "false"):
        return str(o.get("v"))
    if o.get("k") in ("move", "copy"):
        vs = set()
        for x in body.origins(o, through_calls=False):
            if x.kind == "agg" and not x.proj:
                st = body.blocks[x.site[0]]["s"][x.site[1]]
                if st["r"].get("ak") == "adt" and st["r"].get("variant") and not st["r"].get("ops"):
                    vs.add(st["r"]["variant"])
                    continue
            vs.add(None)
        if len(vs) == 1 and None not in vs:
            return next(iter(vs))
    return None


def sleeping_fns(fx):
    """crate `async fn`s whose future can be parked in a sleep: their body awaits `SpawnFutures::sleep`, or the future of
    another such function (`send_every(myself, msg, d)` awaited by a timer's async block)"""
    if getattr(fx, "_sleeping_fns", None) is not None:
        return fx._sleeping_fns
    out = set()
    changed = True
    while changed:
        changed = False
        for d, co in fx.coroutines.items():
            f = fx.fn(d) or {}
            p = fx.fn(f.get("parent") or "") or {}
            if not (p.get("is_async") and p.get("kind") in ("fn", "assoc_fn")) or p["def"] in out:
                continue
            if any(is_sleeping_suspension(fx, co, s_, out) for s_ in co.get("suspensions", [])):
                out.add(p["def"])
                changed = True
    fx._sleeping_fns = out
    return out


def is_sleeping_suspension(fx, co, s, sleeping=None):
    """at this suspension point the coroutine is (or may be) waiting for a sleep: a saved local that is live here is the
    runtime's sleep future, or the future of a crate function that sleeps"""
    if sleeping is None:
        sleeping = sleeping_fns(fx)
    for i in s["live"]:
        ty = co["saved"][i]
        if "SpawnFutures::sleep" in ty:
            return True
        if any(("impl{%s::{opaque#" % p) in ty for p in sleeping):
            return True
    return False


def held_while_sleeping(fx, s):
    """the keep-alive atoms a coroutine holds at suspension point `s` *beside* the sleeping helper it is parked in: what that
    helper's future owns is judged at the helper's own suspension points (it may hold an upgraded sender while a send is
    pending, which is not while it sleeps)"""
    import own, re
    sl = sleeping_fns(fx)
    out = []
    for c_, p_, a in own.keepalive_atoms(s["atoms"]):
        keep = False
        for pth in a.get("paths", []):
            segs = [x for x in pth.split("/") if x]
            m = re.match(r"\[([^\]]+)\]", segs[1]) if len(segs) > 1 else None
            inner = fx.fn(m.group(1)) if m else None
            if not (inner is not None and inner["kind"] == "coroutine" and inner.get("parent") in sl):
                keep = True
        if keep:
            out.append((c_, p_, a))
    return out
