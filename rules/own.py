"""A2 — vocabulary of the keep-alive rules over the ownership closures computed by hfacts."""
import re

STRONG_KINDS = ["addr::Addr", "addr::OwningAddr", "addr::sender::Sender", "addr::caller::Caller"]
WEAK_KINDS = ["addr::weak_addr::WeakAddr", "addr::weak_sender::WeakSender", "addr::weak_caller::WeakCaller"]

MAILBOX_RE = re.compile(r"^futures_channel::mpsc::(Unbounded)?Sender<environment::payload::Payload<(.*)>>$")
RECEIVER_RE = re.compile(r"^futures_channel::mpsc::(Unbounded)?Receiver<environment::payload::Payload<(.*)>>$")
STRONG_RE = re.compile(r"^alloc::sync::Arc<dyn channel::(Force)?TxFn<(.*?)>(, alloc::alloc::Global)?>$")
WEAKCH_RE = re.compile(r"^alloc::sync::Weak<dyn channel::(Force)?TxFn<(.*?)>(, alloc::alloc::Global)?>$")


def classify(atom):
    """-> (class, param) with class in mailbox|strong|weakch|receiver|None; param: the actor type argument"""
    t = atom["ty"]
    if atom["cat"] == "atom":
        m = MAILBOX_RE.match(t)
        if m:
            return "mailbox", m.group(2)
        m = RECEIVER_RE.match(t)
        if m:
            return "receiver", m.group(2)
        m = WEAKCH_RE.match(t)
        if m:
            return ("weakch_force" if m.group(1) else "weakch_tx"), m.group(2)
    if atom["cat"] == "arc":
        m = STRONG_RE.match(t)
        if m:
            return ("strong_force" if m.group(1) else "strong_tx"), m.group(2)
    return None, None


def keepalive_atoms(atoms):
    """atoms that keep some actor's mailbox open / its channel upgradeable"""
    out = []
    for a in atoms:
        c, p = classify(a)
        if c in ("mailbox", "strong_tx", "strong_force"):
            out.append((c, p, a))
    return out


def existential(param):
    return param.startswith("?")


def via_children(atom):
    return all("/Context.children" in p for p in atom["paths"])
