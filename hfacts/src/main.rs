//! hfacts — fact extractor for the hannibal static checks.
//!
//! A rustc_driver wrapper (RUSTC_WORKSPACE_WRAPPER) that, for workspace members whose crate name is in
//! $HFACTS_CRATES (default "hannibal"), writes one JSON fact file to $HFACTS_OUT/<crate>.json:
//!   * every MIR body twice: `pre` (mir_promoted, before borrowck/coroutine lowering) and, for
//!     non-coroutines, `post` (optimized_mir at -Zmir-opt-level=0: drops elaborated),
//!   * ADTs, impls, statics, the unsafe census,
//!   * the dyn table (which concrete types are erased into which `dyn`),
//!   * the ownership closure owns*(T) of every local ADT / closure / coroutine (per suspension point),
//!   * coroutine layouts.
//! Nothing is decided here; the rules live in /verif/rules.
#![feature(rustc_private)]
extern crate rustc_abi;
extern crate rustc_driver;
extern crate rustc_hir;
extern crate rustc_interface;
extern crate rustc_middle;
extern crate rustc_session;
extern crate rustc_span;

use rustc_driver::Compilation;
use rustc_hir::def::DefKind;
use rustc_interface::interface::Compiler;
use rustc_middle::mir::{
    self, AggregateKind, BorrowKind, CastKind, Operand, Place, ProjectionElem, Rvalue,
    StatementKind, TerminatorKind, UnwindAction,
};
use rustc_middle::ty::{self, GenericArgsRef, Ty, TyCtxt};
use rustc_span::def_id::{DefId, LOCAL_CRATE};
use std::collections::{BTreeMap, BTreeSet};

// ------------------------------------------------------------------------------------------------
// minimal JSON
#[derive(Clone)]
enum J {
    Null,
    B(bool),
    I(i64),
    S(String),
    A(Vec<J>),
    O(Vec<(&'static str, J)>),
    M(BTreeMap<String, J>),
}
fn s<T: Into<String>>(x: T) -> J {
    J::S(x.into())
}
impl J {
    fn write(&self, o: &mut String) {
        match self {
            J::Null => o.push_str("null"),
            J::B(b) => o.push_str(if *b { "true" } else { "false" }),
            J::I(i) => o.push_str(&i.to_string()),
            J::S(x) => esc(x, o),
            J::A(v) => {
                o.push('[');
                for (i, x) in v.iter().enumerate() {
                    if i > 0 {
                        o.push(',');
                    }
                    x.write(o);
                }
                o.push(']');
            }
            J::O(v) => {
                o.push('{');
                for (i, (k, x)) in v.iter().enumerate() {
                    if i > 0 {
                        o.push(',');
                    }
                    esc(k, o);
                    o.push(':');
                    x.write(o);
                }
                o.push('}');
            }
            J::M(v) => {
                o.push('{');
                for (i, (k, x)) in v.iter().enumerate() {
                    if i > 0 {
                        o.push(',');
                    }
                    esc(k, o);
                    o.push(':');
                    x.write(o);
                }
                o.push('}');
            }
        }
    }
}
fn esc(x: &str, o: &mut String) {
    o.push('"');
    for c in x.chars() {
        match c {
            '"' => o.push_str("\\\""),
            '\\' => o.push_str("\\\\"),
            '\n' => o.push_str("\\n"),
            '\t' => o.push_str("\\t"),
            c if (c as u32) < 0x20 => {}
            c => o.push(c),
        }
    }
    o.push('"');
}
fn opt_bb(b: Option<mir::BasicBlock>) -> J {
    match b {
        Some(b) => J::I(b.as_usize() as i64),
        None => J::Null,
    }
}
fn unwind_bb(u: &UnwindAction) -> J {
    match u {
        UnwindAction::Cleanup(b) => J::I(b.as_usize() as i64),
        _ => J::Null,
    }
}

// ------------------------------------------------------------------------------------------------
struct Cx<'tcx> {
    tcx: TyCtxt<'tcx>,
}

impl<'tcx> Cx<'tcx> {
    fn loc(&self, sp: rustc_span::Span) -> String {
        let sm = self.tcx.sess.source_map();
        // attribute macro-expanded code to the outermost call site in the crate
        let sp = sp.source_callsite();
        let lo = sm.lookup_char_pos(sp.lo());
        format!("{}:{}", lo.file.name.prefer_local_unconditionally(), lo.line)
    }
    /// Stable, parseable rendering of a type: full def paths, closures/coroutines by def path (no
    /// source positions), regions erased.
    /// like `tys`, but a closure / coroutine also shows what it captures (two instantiations of one closure differ)
    fn tys_full(&self, t: Ty<'tcx>) -> String {
        match t.kind() {
            ty::Closure(_, args) => format!("{}|{}", self.tys(t), args.as_closure().upvar_tys().iter().map(|u| self.tys(u)).collect::<Vec<_>>().join(",")),
            ty::Coroutine(_, args) => format!("{}|{}", self.tys(t), args.as_coroutine().upvar_tys().iter().map(|u| self.tys(u)).collect::<Vec<_>>().join(",")),
            _ => self.tys(t),
        }
    }
    fn tys(&self, t: Ty<'tcx>) -> String {
        let mut o = String::new();
        self.ty_into(t, &mut o, 0);
        o
    }
    fn args_into(&self, a: &[ty::GenericArg<'tcx>], o: &mut String, depth: usize) {
        let tys: Vec<String> = a
            .iter()
            .filter_map(|g| {
                if let Some(t) = g.as_type() {
                    let mut x = String::new();
                    self.ty_into(t, &mut x, depth + 1);
                    Some(x)
                } else if let Some(c) = g.as_const() {
                    Some(format!("{}", c))
                } else {
                    None
                }
            })
            .collect();
        if !tys.is_empty() {
            o.push('<');
            o.push_str(&tys.join(", "));
            o.push('>');
        }
    }
    fn ty_into(&self, t: Ty<'tcx>, o: &mut String, depth: usize) {
        let tcx = self.tcx;
        if depth > 24 {
            o.push_str("...");
            return;
        }
        match t.kind() {
            ty::Adt(def, args) => {
                o.push_str(&self.path(def.did()));
                self.args_into(args.as_slice(), o, depth);
            }
            ty::Closure(d, args) => {
                o.push_str("{closure:");
                o.push_str(&tcx.def_path_str(*d));
                o.push('}');
                let _ = args;
            }
            ty::Coroutine(d, _) => {
                o.push_str("{coroutine:");
                o.push_str(&tcx.def_path_str(*d));
                o.push('}');
            }
            ty::CoroutineClosure(d, _) => {
                o.push_str("{coroutine_closure:");
                o.push_str(&tcx.def_path_str(*d));
                o.push('}');
            }
            ty::CoroutineWitness(d, _) => {
                o.push_str("{witness:");
                o.push_str(&tcx.def_path_str(*d));
                o.push('}');
            }
            ty::FnDef(d, args) => {
                o.push_str("fn{");
                o.push_str(&self.path(*d));
                self.args_into(args.as_slice(), o, depth);
                o.push('}');
            }
            ty::Ref(_, inner, m) => {
                o.push_str(if m.is_mut() { "&mut " } else { "&" });
                self.ty_into(*inner, o, depth + 1);
            }
            ty::RawPtr(inner, m) => {
                o.push_str(if m.is_mut() { "*mut " } else { "*const " });
                self.ty_into(*inner, o, depth + 1);
            }
            ty::Tuple(ts) => {
                o.push('(');
                for (i, x) in ts.iter().enumerate() {
                    if i > 0 {
                        o.push_str(", ");
                    }
                    self.ty_into(x, o, depth + 1);
                }
                if ts.len() == 1 {
                    o.push(',');
                }
                o.push(')');
            }
            ty::Array(e, n) => {
                o.push('[');
                self.ty_into(*e, o, depth + 1);
                o.push_str(&format!("; {}]", n));
            }
            ty::Slice(e) => {
                o.push('[');
                self.ty_into(*e, o, depth + 1);
                o.push(']');
            }
            ty::Dynamic(preds, ..) => {
                o.push_str("dyn ");
                let mut parts: Vec<String> = vec![];
                for p in preds.iter() {
                    match p.skip_binder() {
                        ty::ExistentialPredicate::Trait(tr) => {
                            let mut x = self.path(tr.def_id);
                            self.args_into(tr.args.as_slice(), &mut x, depth);
                            parts.insert(0, x);
                        }
                        ty::ExistentialPredicate::Projection(pr) => {
                            let mut x = format!("[{}=", tcx.opt_item_name(pr.def_id).map(|n| n.to_string()).unwrap_or_else(|| "?".into()));
                            if let Some(tt) = pr.term.as_type() {
                                self.ty_into(tt, &mut x, depth + 1);
                            }
                            x.push(']');
                            parts.push(x);
                        }
                        ty::ExistentialPredicate::AutoTrait(d) => parts.push(self.path(d)),
                    }
                }
                o.push_str(&parts.join(" + "));
            }
            ty::Alias(ty::AliasTy { kind: ty::Opaque { def_id }, .. }) => {
                o.push_str("impl{");
                o.push_str(&tcx.def_path_str(*def_id));
                o.push('}');
            }
            ty::Alias(al) => {
                if let ty::Projection { def_id } = al.kind {
                    let mut it = al.args.iter();
                    o.push('<');
                    if let Some(st) = it.next().and_then(|g| g.as_type()) {
                        self.ty_into(st, o, depth + 1);
                    }
                    o.push_str(" as ");
                    o.push_str(&self.path(tcx.parent(def_id)));
                    let rest: Vec<ty::GenericArg<'tcx>> = it.collect();
                    self.args_into(&rest, o, depth);
                    o.push_str(">::");
                    match tcx.opt_item_name(def_id) {
                        Some(n) => o.push_str(n.as_str()),
                        None => {
                            o.push_str("{");
                            o.push_str(&tcx.def_path_str(def_id));
                            o.push_str("}");
                        }
                    }
                } else {
                    o.push_str(&format!("{}", tcx.erase_and_anonymize_regions(t)));
                }
            }
            ty::FnPtr(..) => o.push_str(&format!("{}", tcx.erase_and_anonymize_regions(t))),
            _ => o.push_str(&format!("{}", tcx.erase_and_anonymize_regions(t))),
        }
    }
    /// local items: crate-relative pretty path (with impl generics); foreign items: canonical
    /// `crate::def::path` independent of re-exports
    fn path(&self, d: DefId) -> String {
        if d.is_local() {
            self.tcx.def_path_str(d)
        } else {
            self.canon(d)
        }
    }
    fn canon(&self, d: DefId) -> String {
        format!("{}{}", self.tcx.crate_name(d.krate), self.tcx.def_path(d).to_string_no_crate_verbose())
    }
    fn gargs(&self, a: GenericArgsRef<'tcx>) -> J {
        J::A(a.iter()
            .map(|g| match g.as_type() {
                Some(t) => s(self.tys(t)),
                None => s(format!("{:?}", g)),
            })
            .collect())
    }
    fn place(&self, p: &Place<'tcx>) -> J {
        let mut v = vec![J::I(p.local.as_usize() as i64)];
        for e in p.projection.iter() {
            v.push(match e {
                ProjectionElem::Deref => s("*"),
                ProjectionElem::Field(f, _) => s(format!("f{}", f.as_usize())),
                ProjectionElem::Downcast(name, v) => s(format!(
                    "d{}:{}",
                    v.as_usize(),
                    name.map(|n| n.to_string()).unwrap_or_default()
                )),
                ProjectionElem::Index(_) | ProjectionElem::ConstantIndex { .. } | ProjectionElem::Subslice { .. } => s("[]"),
                _ => s("?"),
            });
        }
        J::A(v)
    }
    fn operand(&self, body: &mir::Body<'tcx>, o: &Operand<'tcx>) -> J {
        match o {
            Operand::Copy(p) => J::O(vec![("k", s("copy")), ("p", self.place(p))]),
            Operand::Move(p) => J::O(vec![("k", s("move")), ("p", self.place(p))]),
            Operand::Constant(c) => {
                let t = c.const_.ty();
                let mut v = vec![("k", s("const")), ("ty", s(self.tys(t)))];
                if let Some(d) = c.check_static_ptr(self.tcx) {
                    v.push(("static", s(self.path(d))));
                }
                match t.kind() {
                    ty::FnDef(d, a) => {
                        v.push(("fn", s(self.path(*d))));
                        v.push(("gargs", self.gargs(a)));
                    }
                    ty::Bool | ty::Int(_) | ty::Uint(_) | ty::Char => {
                        v.push(("v", s(format!("{}", c.const_))));
                    }
                    _ => {}
                }
                J::O(v)
            }
            #[allow(unreachable_patterns)]
            _ => {
                let _ = body;
                J::O(vec![("k", s("other"))])
            }
        }
    }

    fn rvalue(&self, body: &mir::Body<'tcx>, r: &Rvalue<'tcx>) -> J {
        let tcx = self.tcx;
        match r {
            Rvalue::Use(o, ..) => J::O(vec![("k", s("use")), ("o", self.operand(body, o))]),
            Rvalue::Ref(_, bk, p) => J::O(vec![
                ("k", s("ref")),
                ("m", s(match bk { BorrowKind::Mut { .. } => "mut", BorrowKind::Shared => "shared", _ => "fake" })),
                ("p", self.place(p)),
            ]),
            Rvalue::RawPtr(_, p) => J::O(vec![("k", s("rawptr")), ("p", self.place(p))]),
            Rvalue::CopyForDeref(p) => J::O(vec![("k", s("copyderef")), ("p", self.place(p))]),
            Rvalue::Discriminant(p) => {
                let t = p.ty(&body.local_decls, tcx).ty;
                let mut v = vec![("k", s("discr")), ("p", self.place(p)), ("ty", s(self.tys(t)))];
                if let ty::Adt(def, _) = t.kind() {
                    v.push(("adt", s(self.path(def.did()))));
                    let mut m = BTreeMap::new();
                    for (vi, d) in def.discriminants(tcx) {
                        m.insert(format!("{}", d.val), s(def.variant(vi).name.to_string()));
                    }
                    v.push(("variants", J::M(m)));
                }
                J::O(v)
            }
            Rvalue::Cast(ck, o, to) => {
                let from = o.ty(&body.local_decls, tcx);
                let ckn = match ck {
                    CastKind::PointerCoercion(pc, _) => format!("ptr:{:?}", pc),
                    other => format!("{:?}", other),
                };
                J::O(vec![
                    ("k", s("cast")),
                    ("ck", s(ckn)),
                    ("o", self.operand(body, o)),
                    ("from", s(self.tys(from))),
                    ("to", s(self.tys(*to))),
                ])
            }
            Rvalue::UnaryOp(op, o) => J::O(vec![("k", s("un")), ("op", s(format!("{:?}", op))), ("o", self.operand(body, o))]),
            Rvalue::BinaryOp(op, ab) => J::O(vec![
                ("k", s("bin")),
                ("op", s(format!("{:?}", op))),
                ("a", self.operand(body, &ab.0)),
                ("b", self.operand(body, &ab.1)),
            ]),
            Rvalue::Repeat(o, _) => J::O(vec![("k", s("repeat")), ("o", self.operand(body, o))]),
            Rvalue::Aggregate(kind, ops) => {
                let opsj = J::A(ops.iter().map(|o| self.operand(body, o)).collect());
                let mut v = vec![("k", s("agg"))];
                match &**kind {
                    AggregateKind::Array(_) => v.push(("ak", s("array"))),
                    AggregateKind::Tuple => v.push(("ak", s("tuple"))),
                    AggregateKind::Adt(d, vi, a, _, _) => {
                        v.push(("ak", s("adt")));
                        v.push(("def", s(self.path(*d))));
                        let adt = tcx.adt_def(*d);
                        let var = adt.variant(*vi);
                        v.push(("variant", s(var.name.to_string())));
                        v.push(("fields", J::A(var.fields.iter().map(|f| s(f.name.to_string())).collect())));
                        v.push(("gargs", self.gargs(a)));
                    }
                    AggregateKind::Closure(d, a) => {
                        v.push(("ak", s("closure")));
                        v.push(("def", s(self.path(*d))));
                        v.push(("gargs", self.gargs(a)));
                    }
                    AggregateKind::Coroutine(d, a) => {
                        v.push(("ak", s("coroutine")));
                        v.push(("def", s(self.path(*d))));
                        v.push(("gargs", self.gargs(a)));
                    }
                    AggregateKind::CoroutineClosure(d, a) => {
                        v.push(("ak", s("coroutine_closure")));
                        v.push(("def", s(self.path(*d))));
                        v.push(("gargs", self.gargs(a)));
                    }
                    AggregateKind::RawPtr(..) => v.push(("ak", s("rawptr"))),
                }
                v.push(("ops", opsj));
                J::O(v)
            }
            other => J::O(vec![("k", s("other")), ("dbg", s(format!("{:?}", other)))]),
        }
    }

    fn callee(&self, owner: DefId, body: &mir::Body<'tcx>, func: &Operand<'tcx>, v: &mut Vec<(&'static str, J)>) {
        let tcx = self.tcx;
        let fty = func.ty(&body.local_decls, tcx);
        match fty.kind() {
            ty::FnDef(d, a) => {
                v.push(("callee", s(self.path(*d))));
                v.push(("gargs", self.gargs(a)));
                v.push(("callee_local", J::B(d.is_local())));
                if let Some(tr) = tcx.trait_of_assoc(*d) {
                    v.push(("trait", s(self.path(tr))));
                    if let Some(t) = a.types().next() {
                        v.push(("self_ty", s(self.tys(t))));
                    }
                } else if let Some(imp) = tcx.impl_of_assoc(*d) {
                    let st = tcx.type_of(imp).instantiate(tcx, a).skip_norm_wip();
                    v.push(("self_ty", s(self.tys(st))));
                }
                // resolve through impls where the generic arguments allow it
                let a = tcx.erase_and_anonymize_regions(*a);
                let env = ty::TypingEnv::post_analysis(tcx, owner);
                let def_ok = matches!(tcx.def_kind(*d), DefKind::Fn | DefKind::AssocFn | DefKind::Closure | DefKind::Ctor(..));
                if def_ok {
                    if let Ok(Some(inst)) = ty::Instance::try_resolve(tcx, env, *d, a) {
                        let rd = inst.def_id();
                        if rd != *d {
                            v.push(("resolved", s(self.path(rd))));
                            v.push(("resolved_local", J::B(rd.is_local())));
                        }
                        let kind = match inst.def {
                            ty::InstanceKind::Item(_) => "item",
                            ty::InstanceKind::Virtual(..) => "virtual",
                            ty::InstanceKind::ClosureOnceShim { .. } => "closure_once_shim",
                            ty::InstanceKind::FnPtrShim(..) => "fnptr_shim",
                            ty::InstanceKind::DropGlue(..) => "drop_glue",
                            ty::InstanceKind::CloneShim(..) => "clone_shim",
                            _ => "other",
                        };
                        v.push(("inst", s(kind)));
                    }
                }
            }
            _ => {
                v.push(("callee", J::Null));
                v.push(("fnty", s(self.tys(fty))));
                if let Operand::Copy(p) | Operand::Move(p) = func {
                    v.push(("fnplace", self.place(p)));
                }
            }
        }
    }

    fn body(&self, owner: DefId, body: &mir::Body<'tcx>) -> J {
        let tcx = self.tcx;
        let mut blocks = vec![];
        for (_bb, data) in body.basic_blocks.iter_enumerated() {
            let mut stmts = vec![];
            for st in &data.statements {
                match &st.kind {
                    StatementKind::Assign(b) => {
                        stmts.push(J::O(vec![
                            ("k", s("assign")),
                            ("p", self.place(&b.0)),
                            ("r", self.rvalue(body, &b.1)),
                            ("l", s(self.loc(st.source_info.span))),
                        ]));
                    }
                    StatementKind::SetDiscriminant { place, variant_index } => {
                        stmts.push(J::O(vec![
                            ("k", s("setdiscr")),
                            ("p", self.place(place)),
                            ("v", J::I(variant_index.as_usize() as i64)),
                        ]));
                    }
                    _ => {}
                }
            }
            let t = data.terminator();
            let mut v: Vec<(&'static str, J)> = vec![];
            match &t.kind {
                TerminatorKind::Call { func, args, destination, target, unwind, fn_span, .. } => {
                    v.push(("k", s("call")));
                    self.callee(owner, body, func, &mut v);
                    v.push(("args", J::A(args.iter().map(|a| self.operand(body, &a.node)).collect())));
                    v.push(("argtys", J::A(args.iter().map(|a| s(self.tys(a.node.ty(&body.local_decls, tcx)))).collect())));
                    v.push(("dest", self.place(destination)));
                    v.push(("destty", s(self.tys(destination.ty(&body.local_decls, tcx).ty))));
                    v.push(("target", opt_bb(*target)));
                    v.push(("unwind", unwind_bb(unwind)));
                    v.push(("exp", J::B(fn_span.from_expansion())));
                }
                TerminatorKind::TailCall { func, args, .. } => {
                    v.push(("k", s("tailcall")));
                    self.callee(owner, body, func, &mut v);
                    v.push(("args", J::A(args.iter().map(|a| self.operand(body, &a.node)).collect())));
                }
                TerminatorKind::SwitchInt { discr, targets } => {
                    v.push(("k", s("switch")));
                    v.push(("o", self.operand(body, discr)));
                    v.push(("oty", s(self.tys(discr.ty(&body.local_decls, tcx)))));
                    v.push(("targets", J::A(targets.iter().map(|(val, b)| J::A(vec![s(format!("{}", val)), J::I(b.as_usize() as i64)])).collect())));
                    v.push(("otherwise", J::I(targets.otherwise().as_usize() as i64)));
                }
                TerminatorKind::Yield { value, resume, resume_arg, drop } => {
                    v.push(("k", s("yield")));
                    v.push(("v", self.operand(body, value)));
                    v.push(("resume", J::I(resume.as_usize() as i64)));
                    v.push(("resume_arg", self.place(resume_arg)));
                    v.push(("drop", opt_bb(*drop)));
                }
                TerminatorKind::Drop { place, target, unwind, .. } => {
                    v.push(("k", s("drop")));
                    v.push(("p", self.place(place)));
                    v.push(("ty", s(self.tys(place.ty(&body.local_decls, tcx).ty))));
                    v.push(("target", J::I(target.as_usize() as i64)));
                    v.push(("unwind", unwind_bb(unwind)));
                }
                TerminatorKind::Goto { target } => {
                    v.push(("k", s("goto")));
                    v.push(("target", J::I(target.as_usize() as i64)));
                }
                TerminatorKind::FalseEdge { real_target, imaginary_target } => {
                    v.push(("k", s("goto")));
                    v.push(("target", J::I(real_target.as_usize() as i64)));
                    v.push(("imaginary", J::I(imaginary_target.as_usize() as i64)));
                }
                TerminatorKind::FalseUnwind { real_target, unwind } => {
                    v.push(("k", s("goto")));
                    v.push(("target", J::I(real_target.as_usize() as i64)));
                    v.push(("unwind", unwind_bb(unwind)));
                }
                TerminatorKind::Assert { target, unwind, .. } => {
                    v.push(("k", s("goto")));
                    v.push(("assert", J::B(true)));
                    v.push(("target", J::I(target.as_usize() as i64)));
                    v.push(("unwind", unwind_bb(unwind)));
                }
                TerminatorKind::Return => v.push(("k", s("return"))),
                TerminatorKind::CoroutineDrop => v.push(("k", s("codrop"))),
                TerminatorKind::UnwindResume => v.push(("k", s("resume"))),
                TerminatorKind::UnwindTerminate(_) => v.push(("k", s("terminate"))),
                TerminatorKind::Unreachable => v.push(("k", s("unreachable"))),
                other => {
                    v.push(("k", s("other")));
                    v.push(("dbg", s(format!("{:?}", other))));
                }
            }
            v.push(("l", s(self.loc(t.source_info.span))));
            blocks.push(J::O(vec![("c", J::B(data.is_cleanup)), ("s", J::A(stmts)), ("t", J::O(v))]));
        }
        let mut names: BTreeMap<usize, String> = BTreeMap::new();
        let mut upvar_names: BTreeMap<usize, String> = BTreeMap::new();
        for vdi in &body.var_debug_info {
            if let mir::VarDebugInfoContents::Place(p) = &vdi.value {
                if p.projection.is_empty() {
                    names.entry(p.local.as_usize()).or_insert(vdi.name.to_string());
                } else if p.local.as_usize() == 1 {
                    // upvar: _1.fN or (*_1).fN
                    for e in p.projection.iter() {
                        if let ProjectionElem::Field(f, _) = e {
                            upvar_names.entry(f.as_usize()).or_insert(vdi.name.to_string());
                            break;
                        }
                    }
                }
            }
        }
        let locals = J::A(body
            .local_decls
            .iter_enumerated()
            .map(|(l, d)| {
                let mut v = vec![("ty", s(self.tys(d.ty)))];
                if let Some(n) = names.get(&l.as_usize()) {
                    v.push(("name", s(n.clone())));
                }
                J::O(v)
            })
            .collect());
        J::O(vec![
            ("arg_count", J::I(body.arg_count as i64)),
            ("locals", locals),
            ("upvar_names", J::M(upvar_names.into_iter().map(|(k, v)| (k.to_string(), s(v))).collect())),
            ("blocks", J::A(blocks)),
        ])
    }
}

// ------------------------------------------------------------------------------------------------
// dyn table + ownership walk

/// strip smart-pointer layers to find (pointee-from, pointee-to) of an unsizing coercion
fn unsize_pointees<'tcx>(tcx: TyCtxt<'tcx>, from: Ty<'tcx>, to: Ty<'tcx>) -> Option<(Ty<'tcx>, Ty<'tcx>)> {
    match (from.kind(), to.kind()) {
        (ty::Ref(_, a, _), ty::Ref(_, b, _)) => Some((*a, *b)),
        (ty::RawPtr(a, _), ty::RawPtr(b, _)) => Some((*a, *b)),
        (ty::Adt(da, aa), ty::Adt(db, ab)) if da.did() == db.did() => {
            // Box<T>/Arc<T>/Pin<Box<T>>: first differing type argument
            for (x, y) in aa.types().zip(ab.types()) {
                if x != y {
                    if matches!(y.kind(), ty::Dynamic(..)) || matches!(y.kind(), ty::Slice(..)) {
                        return Some((x, y));
                    }
                    return unsize_pointees(tcx, x, y);
                }
            }
            None
        }
        _ => None,
    }
}

/// foreign types the walk does not look into: they are the vocabulary of the keep-alive rules
const ATOM_ADTS: &[&str] = &[
    "futures_channel::mpsc::Sender",
    "futures_channel::mpsc::UnboundedSender",
    "futures_channel::mpsc::Receiver",
    "futures_channel::mpsc::UnboundedReceiver",
    "futures_channel::oneshot::Sender",
    "futures_channel::oneshot::Receiver",
    "alloc::sync::Weak",
    "alloc::rc::Weak",
    "futures_util::abortable::AbortHandle",
    "futures_util::abortable::AbortRegistration",
    "core::any::TypeId",
    "core::time::Duration",
    "tokio::runtime::task::join::JoinHandle",
    "async_std::task::join_handle::JoinHandle",
    "async_task::task::Task",
    "futures_timer::native::delay::Delay",
    "tokio::time::sleep::Sleep",
    "async_io::Timer",
];

type PKey = (u32, String);
struct DynEntry<'tcx> {
    pattern: Ty<'tcx>,
    src: Ty<'tcx>,
}

struct Subst<'a, 'tcx> {
    tcx: TyCtxt<'tcx>,
    map: &'a BTreeMap<PKey, Ty<'tcx>>,
}
impl<'a, 'tcx> ty::TypeFolder<TyCtxt<'tcx>> for Subst<'a, 'tcx> {
    fn cx(&self) -> TyCtxt<'tcx> {
        self.tcx
    }
    fn fold_ty(&mut self, t: Ty<'tcx>) -> Ty<'tcx> {
        use ty::TypeSuperFoldable;
        if let ty::Param(p) = t.kind() {
            let k = (p.index, p.name.to_string());
            match self.map.get(&k) {
                Some(x) => *x,
                // a parameter of the erased type that the dyn type does not mention: existential
                None => Ty::new_param(self.tcx, p.index, rustc_span::Symbol::intern(&format!("?{}", p.name))),
            }
        } else {
            t.super_fold_with(self)
        }
    }
}

fn unify_args<'tcx>(cx: &Cx<'tcx>, a: &[ty::GenericArg<'tcx>], b: &[ty::GenericArg<'tcx>], map: &mut BTreeMap<PKey, Ty<'tcx>>) -> bool {
    let at: Vec<Ty<'tcx>> = a.iter().filter_map(|g| g.as_type()).collect();
    let bt: Vec<Ty<'tcx>> = b.iter().filter_map(|g| g.as_type()).collect();
    at.len() == bt.len() && at.iter().zip(bt.iter()).all(|(x, y)| unify(cx, *x, *y, map))
}

/// one-way matching of a dyn-table pattern against a concrete dyn type, regions ignored
fn unify<'tcx>(cx: &Cx<'tcx>, pat: Ty<'tcx>, tgt: Ty<'tcx>, map: &mut BTreeMap<PKey, Ty<'tcx>>) -> bool {
    match (pat.kind(), tgt.kind()) {
        (ty::Param(p), _) => {
            let k = (p.index, p.name.to_string());
            if let Some(prev) = map.get(&k) {
                cx.tys(*prev) == cx.tys(tgt)
            } else {
                map.insert(k, tgt);
                true
            }
        }
        (ty::Adt(d1, a1), ty::Adt(d2, a2)) => d1.did() == d2.did() && unify_args(cx, a1.as_slice(), a2.as_slice(), map),
        (ty::Ref(_, a, m1), ty::Ref(_, b, m2)) => m1 == m2 && unify(cx, *a, *b, map),
        (ty::RawPtr(a, m1), ty::RawPtr(b, m2)) => m1 == m2 && unify(cx, *a, *b, map),
        (ty::Tuple(a), ty::Tuple(b)) => a.len() == b.len() && a.iter().zip(b.iter()).all(|(x, y)| unify(cx, x, y, map)),
        (ty::Array(a, _), ty::Array(b, _)) | (ty::Slice(a), ty::Slice(b)) => unify(cx, *a, *b, map),
        (ty::Closure(d1, a1), ty::Closure(d2, a2)) | (ty::Coroutine(d1, a1), ty::Coroutine(d2, a2)) => {
            d1 == d2 && unify_args(cx, a1.as_slice(), a2.as_slice(), map)
        }
        (ty::Alias(a1), ty::Alias(a2)) => {
            format!("{:?}", a1.kind) == format!("{:?}", a2.kind) && unify_args(cx, a1.args.as_slice(), a2.args.as_slice(), map)
        }
        (ty::Dynamic(p1, ..), ty::Dynamic(p2, ..)) => {
            if p1.len() != p2.len() {
                return false;
            }
            for (x, y) in p1.iter().zip(p2.iter()) {
                let ok = match (x.skip_binder(), y.skip_binder()) {
                    (ty::ExistentialPredicate::Trait(t1), ty::ExistentialPredicate::Trait(t2)) => {
                        t1.def_id == t2.def_id && unify_args(cx, t1.args.as_slice(), t2.args.as_slice(), map)
                    }
                    (ty::ExistentialPredicate::Projection(q1), ty::ExistentialPredicate::Projection(q2)) => {
                        q1.def_id == q2.def_id
                            && unify_args(cx, q1.args.as_slice(), q2.args.as_slice(), map)
                            && match (q1.term.as_type(), q2.term.as_type()) {
                                (Some(a), Some(b)) => unify(cx, a, b, map),
                                _ => true,
                            }
                    }
                    (ty::ExistentialPredicate::AutoTrait(a), ty::ExistentialPredicate::AutoTrait(b)) => a == b,
                    _ => false,
                };
                if !ok {
                    return false;
                }
            }
            true
        }
        _ => cx.tys(pat) == cx.tys(tgt),
    }
}

struct Own<'a, 'tcx> {
    cx: &'a Cx<'tcx>,
    dyn_table: &'a Vec<DynEntry<'tcx>>,
    seen: BTreeSet<String>,
    atoms: BTreeSet<(String, String, String)>, // (category, atom type, path)
}
impl<'a, 'tcx> Own<'a, 'tcx> {
    fn new(cx: &'a Cx<'tcx>, dyn_table: &'a Vec<DynEntry<'tcx>>) -> Self {
        Own { cx, dyn_table, seen: BTreeSet::new(), atoms: BTreeSet::new() }
    }
    fn atom(&mut self, cat: &str, t: String, path: &str) {
        self.atoms.insert((cat.to_string(), t, path.to_string()));
    }
    fn lookup(&self, t: Ty<'tcx>) -> Vec<Ty<'tcx>> {
        use ty::TypeFoldable;
        let mut out = vec![];
        let mut seen = BTreeSet::new();
        for e in self.dyn_table.iter() {
            let mut map = BTreeMap::new();
            if unify(self.cx, e.pattern, t, &mut map) {
                let r = e.src.fold_with(&mut Subst { tcx: self.cx.tcx, map: &map });
                if seen.insert(self.cx.tys_full(r)) {
                    out.push(r);
                }
            }
        }
        out
    }
    fn walk(&mut self, t: Ty<'tcx>, path: &str, depth: usize) {
        let tcx = self.cx.tcx;
        let key = self.cx.tys(t);
        if depth > 80 {
            self.atom("depth", key, path);
            return;
        }
        match t.kind() {
            ty::Adt(def, args) => {
                let p = self.cx.canon(def.did());
                if ATOM_ADTS.iter().any(|a| p == *a) {
                    self.atom("atom", key, path);
                    return;
                }
                if p == "alloc::sync::Arc" || p == "alloc::rc::Rc" {
                    self.atom("arc", key.clone(), path);
                }
                if def.is_phantom_data() {
                    // (inside std's own types PhantomData<T> marks logical ownership of a T behind a raw pointer: Box, Vec, Arc)
                    if let Some(a) = args.types().next() {
                        self.walk(a, path, depth + 1);
                    }
                    return;
                }
                if def.is_manually_drop() {
                    self.atom("manually_drop", key.clone(), path);
                }
                if !self.seen.insert(key.clone()) {
                    return;
                }
                let local = def.did().is_local();
                let short = tcx.item_name(def.did()).to_string();
                for v in def.variants() {
                    for f in &v.fields {
                        let fty = f.ty(tcx, args);
                        if local {
                            // a PhantomData<T> field of one of the crate's own types holds no T at run time: nothing behind
                            // it is kept alive by the value (a marker for a type parameter, not a raw-pointer owner)
                            if let ty::Adt(fd, _) = fty.kind() {
                                if fd.is_phantom_data() {
                                    continue;
                                }
                            }
                            self.walk(fty, &format!("{path}/{short}.{}", f.name), depth + 1);
                        } else {
                            self.walk(fty, path, depth + 1);
                        }
                    }
                }
            }
            ty::Closure(d, args) => {
                // the printed closure type carries no generic arguments: key the visit by its captures too
                let ck = format!("{}|{}", key, args.as_closure().upvar_tys().iter().map(|u| self.cx.tys(u)).collect::<Vec<_>>().join(","));
                if !self.seen.insert(ck) {
                    return;
                }
                let name = self.cx.path(*d);
                for (i, u) in args.as_closure().upvar_tys().iter().enumerate() {
                    self.walk(u, &format!("{path}/[{name}].cap{i}"), depth + 1);
                }
            }
            ty::Coroutine(d, args) => {
                let ck = format!("{}|{}", key, args.as_coroutine().upvar_tys().iter().map(|u| self.cx.tys(u)).collect::<Vec<_>>().join(","));
                if !self.seen.insert(ck) {
                    return;
                }
                let name = self.cx.path(*d);
                for (i, u) in args.as_coroutine().upvar_tys().iter().enumerate() {
                    self.walk(u, &format!("{path}/[{name}].cap{i}"), depth + 1);
                }
                // everything it may hold across any await
                if let Some(layout) = tcx.mir_coroutine_witnesses(*d) {
                    for (i, f) in layout.field_tys.iter_enumerated() {
                        let fty = ty::EarlyBinder::bind(f.ty).instantiate(tcx, args).skip_norm_wip();
                        self.walk(fty, &format!("{path}/[{name}].saved{}", i.as_usize()), depth + 1);
                    }
                }
            }
            ty::CoroutineClosure(..) => self.atom("other", key, path),
            ty::Tuple(ts) => {
                for u in ts.iter() {
                    self.walk(u, path, depth + 1);
                }
            }
            ty::Array(e, _) | ty::Slice(e) => self.walk(*e, path, depth + 1),
            ty::Pat(inner, _) => self.walk(*inner, path, depth + 1),
            ty::Dynamic(..) => {
                let srcs = self.lookup(t);
                if srcs.is_empty() {
                    self.atom("opaque_dyn", key, path);
                } else {
                    if !self.seen.insert(format!("dyn@{}", key)) {
                        return;
                    }
                    for src in srcs {
                        self.walk(src, &format!("{path}/<{key}>"), depth + 1);
                    }
                }
            }
            ty::Param(_) => self.atom("param", key, path),
            ty::Alias(al) if matches!(al.kind, ty::Opaque { .. }) => {
                // `impl Trait` in return position (a closure built by a helper function): what is owned is the hidden type
                if !self.seen.insert(format!("opaque@{}@{:?}", key, al.args)) {
                    return;
                }
                if let ty::Opaque { def_id } = al.kind {
                    let hidden = tcx.type_of(def_id).instantiate(tcx, al.args).skip_norm_wip();
                    self.walk(hidden, path, depth + 1);
                }
            }
            ty::Alias(..) => self.atom("alias", key, path),
            ty::RawPtr(..) | ty::Ref(..) | ty::FnPtr(..) | ty::FnDef(..) | ty::Bool | ty::Int(_) | ty::Uint(_) | ty::Char | ty::Float(_) | ty::Str | ty::Never | ty::Foreign(_) => {}
            _ => self.atom("other", key, path),
        }
    }
    fn atoms_json(&self) -> J {
        let mut best: BTreeMap<(String, String), Vec<String>> = BTreeMap::new();
        for (c, a, p) in &self.atoms {
            best.entry((c.clone(), a.clone())).or_default().push(p.clone());
        }
        J::A(best
            .into_iter()
            .map(|((c, a), mut ps)| {
                ps.sort_by_key(|p| p.len());
                ps.truncate(8);
                J::O(vec![("cat", s(c)), ("ty", s(a)), ("paths", J::A(ps.into_iter().map(s).collect()))])
            })
            .collect())
    }
}

// ------------------------------------------------------------------------------------------------
struct Cb;

fn wanted(tcx: TyCtxt<'_>) -> bool {
    let name = tcx.crate_name(LOCAL_CRATE).to_string();
    let want = std::env::var("HFACTS_CRATES").unwrap_or_else(|_| "hannibal".to_string());
    want.split(',').any(|w| w == name)
}

fn is_body_kind(k: DefKind) -> bool {
    matches!(k, DefKind::Fn | DefKind::AssocFn | DefKind::Closure)
}

fn extract<'tcx>(tcx: TyCtxt<'tcx>) {
    let cx = Cx { tcx };
    let out_dir = match std::env::var("HFACTS_OUT") {
        Ok(o) => o,
        Err(_) => return,
    };
    // 1. clone the pre-analysis bodies before borrowck steals them
    let mut pre: Vec<(DefId, mir::Body<'tcx>)> = vec![];
    for ldid in tcx.hir_body_owners() {
        let did = ldid.to_def_id();
        if !is_body_kind(tcx.def_kind(did)) {
            continue;
        }
        let (steal, _p) = tcx.mir_promoted(ldid);
        pre.push((did, steal.borrow().clone()));
    }
    // 2. run the analysis so that post-analysis queries are valid; errors are reported by rustc itself
    tcx.ensure_ok().analysis(());
    if tcx.dcx().has_errors().is_some() {
        return;
    }

    // 3. functions
    let mut fns = vec![];
    // dyn table inputs
    let mut table: Vec<DynEntry<'tcx>> = vec![];
    let mut table_sites: BTreeMap<String, Vec<J>> = BTreeMap::new();
    let mut generic_unsize: Vec<(DefId, ty::ParamTy, Ty<'tcx>, String)> = vec![]; // (fn, param, dyn type, loc)
    // erased values that are not a bare parameter but mention parameters of the enclosing function that the dyn type does
    // not (a closure capturing a `R: Stream`): (root fn, erased type, dyn type)
    let mut generic_unsize_ty: Vec<(DefId, Ty<'tcx>, Ty<'tcx>)> = vec![];
    for (did, body) in &pre {
        let did = *did;
        let kind = tcx.def_kind(did);
        let is_co = tcx.coroutine_kind(did).is_some();
        let mut v: Vec<(&'static str, J)> = vec![
            ("def", s(cx.path(did))),
            ("kind", s(match kind { DefKind::Fn => "fn", DefKind::AssocFn => "assoc_fn", DefKind::Closure if is_co => "coroutine", _ => "closure" })),
            ("loc", s(cx.loc(tcx.def_span(did)))),
        ];
        if let Some(p) = tcx.opt_parent(did) {
            v.push(("parent", s(cx.path(p))));
        }
        let root = tcx.typeck_root_def_id(did);
        v.push(("root", s(cx.path(root))));
        if matches!(kind, DefKind::Fn | DefKind::AssocFn) {
            v.push(("vis", s(if tcx.visibility(did).is_public() { "pub" } else { "restricted" })));
            v.push(("is_async", J::B(tcx.asyncness(did).is_async())));
            let sig = tcx.fn_sig(did).instantiate_identity().skip_norm_wip().skip_binder();
            v.push(("inputs", J::A(sig.inputs().iter().map(|t| s(cx.tys(*t))).collect())));
            v.push(("output", s(cx.tys(sig.output()))));
            if let Some(imp) = tcx.impl_of_assoc(did) {
                v.push(("impl_self", s(cx.tys(tcx.type_of(imp).instantiate_identity().skip_norm_wip()))));
                if let Some(tr) = tcx.impl_opt_trait_ref(imp) {
                    v.push(("impl_trait", s(format!("{:?}", tr.instantiate_identity().skip_norm_wip()))));
                    v.push(("impl_trait_def", s(cx.path(tr.skip_binder().def_id))));
                }
            }
            if let Some(tr) = tcx.trait_of_assoc(did) {
                v.push(("trait_item_of", s(cx.path(tr))));
            }
        } else {
            let t = tcx.type_of(did).instantiate_identity().skip_norm_wip();
            v.push(("self_ty", s(cx.tys(t))));
            let upv: Vec<Ty<'tcx>> = match t.kind() {
                ty::Closure(_, a) => a.as_closure().upvar_tys().iter().collect(),
                ty::Coroutine(_, a) => a.as_coroutine().upvar_tys().iter().collect(),
                _ => vec![],
            };
            v.push(("upvars", J::A(upvar_js(&cx, &upv))));
        }
        let generics = tcx.generics_of(did);
        let mut gn = vec![];
        let mut g = Some(generics);
        let mut all = vec![];
        while let Some(gg) = g {
            all.push(gg);
            g = gg.parent.map(|p| tcx.generics_of(p));
        }
        for gg in all.iter().rev() {
            for p in &gg.own_params {
                gn.push(s(p.name.to_string()));
            }
        }
        v.push(("generics", J::A(gn)));
        // the trait bounds in force for this item (its own and those of the impl / trait it sits in): "Ty: path::Trait"
        {
            let mut bs: Vec<J> = vec![];
            let root = tcx.typeck_root_def_id(did);
            let preds = tcx.predicates_of(root).instantiate_identity(tcx);
            for p in preds.predicates.iter() {
                let p = p.skip_norm_wip();
                if let Some(tp) = p.as_trait_clause() {
                    let tr = tp.skip_binder();
                    bs.push(s(format!("{}: {}", cx.tys(tr.self_ty()), cx.path(tr.def_id()))));
                }
            }
            v.push(("bounds", J::A(bs)));
        }
        v.push(("pre", cx.body(did, body)));
        // unsize casts (dyn table)
        for (_bb, data) in body.basic_blocks.iter_enumerated() {
            for st in &data.statements {
                if let StatementKind::Assign(b) = &st.kind {
                    if let Rvalue::Cast(CastKind::PointerCoercion(ty::adjustment::PointerCoercion::Unsize, _), op, to) = &b.1 {
                        let from = op.ty(&body.local_decls, tcx);
                        if let Some((pf, pt)) = unsize_pointees(tcx, from, *to) {
                            let mut pf = tcx.erase_and_anonymize_regions(pf);
                            let pt = tcx.erase_and_anonymize_regions(pt);
                            // a value of an `impl Trait` return type: the entry is for the hidden type
                            for _ in 0..4 {
                                if let ty::Alias(al) = pf.kind() {
                                    if let ty::Opaque { def_id } = al.kind {
                                        pf = tcx.erase_and_anonymize_regions(tcx.type_of(def_id).instantiate(tcx, al.args).skip_norm_wip());
                                        continue;
                                    }
                                }
                                break;
                            }
                            if matches!(pt.kind(), ty::Dynamic(..)) && !matches!(pf.kind(), ty::Dynamic(..)) {
                                let k = cx.tys(pt);
                                let loc = cx.loc(st.source_info.span);
                                if let ty::Param(p) = pf.kind() {
                                    generic_unsize.push((did, *p, pt, loc.clone()));
                                    table_sites.entry(k).or_default().push(J::O(vec![
                                        ("src", s(cx.tys(pf))),
                                        ("param_of", s(cx.path(did))),
                                        ("loc", s(loc)),
                                    ]));
                                } else {
                                    let params_of = |x: Ty<'tcx>| -> BTreeSet<u32> {
                                        x.walk().filter_map(|g| g.as_type()).filter_map(|u| if let ty::Param(p) = u.kind() { Some(p.index) } else { None }).collect()
                                    };
                                    let mut src_params = params_of(pf);
                                    if let ty::Closure(_, a) = pf.kind() {
                                        for u in a.as_closure().upvar_tys().iter() { src_params.extend(params_of(u)); }
                                    }
                                    if let ty::Coroutine(_, a) = pf.kind() {
                                        for u in a.as_coroutine().upvar_tys().iter() { src_params.extend(params_of(u)); }
                                    }
                                    let dyn_params = params_of(pt);
                                    if src_params.iter().any(|i| !dyn_params.contains(i)) {
                                        generic_unsize_ty.push((tcx.typeck_root_def_id(did), pf, pt));
                                    }
                                    table.push(DynEntry { pattern: pt, src: pf });
                                    table_sites.entry(k).or_default().push(J::O(vec![
                                        ("src", s(cx.tys(pf))),
                                        ("in", s(cx.path(did))),
                                        ("loc", s(loc)),
                                    ]));
                                }
                            }
                        }
                    }
                }
            }
        }
        // `rx.boxed()` / `fut.boxed()` (futures_util): the unsizing happens inside the foreign function; what is erased is
        // the receiver type, into the `dyn` of the returned `Pin<Box<dyn ..>>`
        for (_bb, data) in body.basic_blocks.iter_enumerated() {
            if let TerminatorKind::Call { func, destination, .. } = &data.terminator().kind {
                if let ty::FnDef(cd, ga) = func.ty(&body.local_decls, tcx).kind() {
                    let name = cx.path(*cd);
                    if name.starts_with("futures_util::") && (name.ends_with("Ext::boxed") || name.ends_with("Ext::boxed_local")) && ga.len() >= 1 {
                        if let Some(selfty) = ga[0].as_type() {
                            let dest_ty = destination.ty(&body.local_decls, tcx).ty;
                            let mut cur = dest_ty;
                            let mut dynty = None;
                            for _ in 0..4 {
                                match cur.kind() {
                                    ty::Dynamic(..) => { dynty = Some(cur); break; }
                                    ty::Adt(_, aa) => { if let Some(n) = aa.types().next() { cur = n; } else { break; } }
                                    _ => break,
                                }
                            }
                            if let Some(pt) = dynty {
                                let pf = tcx.erase_and_anonymize_regions(selfty);
                                let pt = tcx.erase_and_anonymize_regions(pt);
                                if !matches!(pf.kind(), ty::Param(_) | ty::Dynamic(..)) {
                                    let k = cx.tys(pt);
                                    let loc = cx.loc(data.terminator().source_info.span);
                                    table.push(DynEntry { pattern: pt, src: pf });
                                    table_sites.entry(k).or_default().push(J::O(vec![
                                        ("src", s(cx.tys(pf))),
                                        ("in", s(cx.path(did))),
                                        ("loc", s(loc)),
                                    ]));
                                }
                            }
                        }
                    }
                }
            }
        }
        if !is_co {
            let post = tcx.optimized_mir(did);
            v.push(("post", cx.body(did, post)));
        }
        fns.push(J::O(v));
    }
    // complete the dyn table through generic parameters: the erased value is a type parameter of a
    // crate-local function (Payload::task::<F>, ActorHandle::new::<F>, ...): take the instantiations
    // of that parameter at the call sites in the crate, with the dyn type instantiated alike
    for (did, body) in &pre {
        for (_bb, data) in body.basic_blocks.iter_enumerated() {
            if let TerminatorKind::Call { func, .. } = &data.terminator().kind {
                if let ty::FnDef(cd, ga) = func.ty(&body.local_decls, tcx).kind() {
                    for (g, srcty, dynty) in &generic_unsize_ty {
                        if g == cd {
                            let ga = tcx.erase_and_anonymize_regions(*ga);
                            let src = ty::EarlyBinder::bind(*srcty).instantiate(tcx, ga).skip_norm_wip();
                            let src = tcx.erase_and_anonymize_regions(src);
                            let pat = ty::EarlyBinder::bind(*dynty).instantiate(tcx, ga).skip_norm_wip();
                            let pat = tcx.erase_and_anonymize_regions(pat);
                            if cx.tys_full(src) != cx.tys_full(*srcty) {
                                table_sites.entry(cx.tys(pat)).or_default().push(J::O(vec![
                                    ("src", s(cx.tys_full(src))),
                                    ("in", s(cx.path(*did))),
                                    ("via_generic_fn", s(cx.path(*g))),
                                    ("loc", s(cx.loc(data.terminator().source_info.span))),
                                ]));
                                table.push(DynEntry { pattern: pat, src });
                            }
                        }
                    }
                    for (g, p, dynty, _loc) in &generic_unsize {
                        if g == cd {
                            if let Some(t) = ga.get(p.index as usize).and_then(|a| a.as_type()) {
                                if !matches!(t.kind(), ty::Param(_)) {
                                    let ga = tcx.erase_and_anonymize_regions(*ga);
                                    let t = tcx.erase_and_anonymize_regions(t);
                                    let pat = ty::EarlyBinder::bind(*dynty).instantiate(tcx, ga).skip_norm_wip();
                                    let pat = tcx.erase_and_anonymize_regions(pat);
                                    table_sites.entry(cx.tys(pat)).or_default().push(J::O(vec![
                                        ("src", s(cx.tys(t))),
                                        ("in", s(cx.path(*did))),
                                        ("via_param_of", s(cx.path(*g))),
                                        ("loc", s(cx.loc(data.terminator().source_info.span))),
                                    ]));
                                    table.push(DynEntry { pattern: pat, src: t });
                                }
                            }
                        }
                    }
                }
            }
        }
    }
    {
        let mut seen = BTreeSet::new();
        table.retain(|e| seen.insert((cx.tys(e.pattern), cx.tys_full(e.src))));
    }
    let mut dyn_map: BTreeMap<String, Vec<J>> = BTreeMap::new();
    for e in &table {
        let (kind, def) = match e.src.kind() {
            ty::Closure(d, _) => ("closure", cx.path(*d)),
            ty::Coroutine(d, _) => ("coroutine", cx.path(*d)),
            ty::Adt(d, _) => ("adt", cx.path(d.did())),
            _ => ("other", String::new()),
        };
        dyn_map.entry(cx.tys(e.pattern)).or_default().push(J::O(vec![("ty", s(cx.tys(e.src))), ("kind", s(kind)), ("def", s(def)), ("full", s(cx.tys_full(e.src)))]));
    }
    let dyn_json = J::M(dyn_map
        .into_iter()
        .map(|(k, v)| {
            let sites = table_sites.get(&k).cloned().unwrap_or_default();
            (k, J::O(vec![("sources", J::A(v)), ("sites", J::A(sites))]))
        })
        .collect());

    // 4. ADTs, impls, statics, traits
    let mut adts = vec![];
    let mut statics = vec![];
    let mut traits = vec![];
    let mut owns = vec![];
    for ldid in tcx.hir_crate_items(()).definitions() {
        let did = ldid.to_def_id();
        match tcx.def_kind(did) {
            DefKind::Struct | DefKind::Enum | DefKind::Union => {
                let def = tcx.adt_def(did);
                let t = tcx.type_of(did).instantiate_identity().skip_norm_wip();
                let variants = J::A(def
                    .variants()
                    .iter()
                    .map(|v| {
                        J::O(vec![
                            ("name", s(v.name.to_string())),
                            ("fields", J::A(v.fields.iter().map(|f| {
                                J::O(vec![
                                    ("name", s(f.name.to_string())),
                                    ("ty", s(cx.tys(tcx.type_of(f.did).instantiate_identity().skip_norm_wip()))),
                                    ("vis", s(if f.vis.is_public() { "pub" } else { "restricted" })),
                                ])
                            }).collect())),
                        ])
                    })
                    .collect());
                adts.push(J::O(vec![
                    ("def", s(cx.path(did))),
                    ("ty", s(cx.tys(t))),
                    ("vis", s(if tcx.visibility(did).is_public() { "pub" } else { "restricted" })),
                    ("loc", s(cx.loc(tcx.def_span(did)))),
                    ("variants", variants),
                ]));
                let mut o = Own::new(&cx, &table);
                o.walk(t, "", 0);
                owns.push(J::O(vec![("root", s(cx.tys(t))), ("kind", s("adt")), ("def", s(cx.path(did))), ("atoms", o.atoms_json())]));
            }
            DefKind::Static { .. } => {
                let t = tcx.type_of(did).instantiate_identity().skip_norm_wip();
                statics.push(J::O(vec![("def", s(cx.path(did))), ("ty", s(cx.tys(t))), ("loc", s(cx.loc(tcx.def_span(did))))]));
            }
            DefKind::Trait => {
                let impls: Vec<J> = tcx
                    .all_impls(did)
                    .filter(|i| i.is_local())
                    .map(|i| {
                        J::O(vec![
                            ("self", s(cx.tys(tcx.type_of(i).instantiate_identity().skip_norm_wip()))),
                            ("loc", s(cx.loc(tcx.def_span(i)))),
                        ])
                    })
                    .collect();
                traits.push(J::O(vec![
                    ("def", s(cx.path(did))),
                    ("vis", s(if tcx.visibility(did).is_public() { "pub" } else { "restricted" })),
                    ("local_impls", J::A(impls)),
                ]));
            }
            _ => {}
        }
    }
    // trait impls in the crate (all traits, including foreign ones like Clone/Drop/From)
    let mut impls = vec![];
    for ldid in tcx.hir_crate_items(()).definitions() {
        let did = ldid.to_def_id();
        if let DefKind::Impl { of_trait } = tcx.def_kind(did) {
            let mut v = vec![
                ("self", s(cx.tys(tcx.type_of(did).instantiate_identity().skip_norm_wip()))),
                ("loc", s(cx.loc(tcx.def_span(did)))),
                ("of_trait", J::B(of_trait)),
            ];
            if let Some(tr) = tcx.impl_opt_trait_ref(did) {
                v.push(("trait", s(cx.path(tr.skip_binder().def_id))));
                v.push(("trait_ref", s(format!("{:?}", tr.instantiate_identity().skip_norm_wip()))));
            }
            v.push(("items", J::A(tcx.associated_item_def_ids(did).iter().map(|d| s(cx.path(*d))).collect())));
            impls.push(J::O(v));
        }
    }

    // 5. closures and coroutines: ownership closure (whole type and per suspension point)
    let mut coroutines = vec![];
    for (did, _body) in &pre {
        let did = *did;
        if tcx.def_kind(did) != DefKind::Closure {
            continue;
        }
        let t = tcx.type_of(did).instantiate_identity().skip_norm_wip();
        let is_co = tcx.coroutine_kind(did).is_some();
        let mut o = Own::new(&cx, &table);
        o.walk(t, "", 0);
        owns.push(J::O(vec![
            ("root", s(cx.tys(t))),
            ("kind", s(if is_co { "coroutine" } else { "closure" })),
            ("def", s(cx.path(did))),
            ("atoms", o.atoms_json()),
        ]));
        if is_co {
            let args = match t.kind() {
                ty::Coroutine(_, a) => *a,
                _ => continue,
            };
            // upvars only
            let mut ou = Own::new(&cx, &table);
            for (i, u) in args.as_coroutine().upvar_tys().iter().enumerate() {
                ou.walk(u, &format!("cap{i}"), 1);
            }
            let mut cj = vec![("def", s(cx.path(did))), ("upvar_atoms", ou.atoms_json())];
            if let Some(layout) = tcx.mir_coroutine_witnesses(did) {
                cj.push(("saved", J::A(layout.field_tys.iter().map(|f| s(cx.tys(f.ty))).collect())));
                cj.push(("saved_names", J::A(layout.field_names.iter().map(|n| match n { Some(n) => s(n.to_string()), None => J::Null }).collect())));
                let mut susp = vec![];
                for (vi, fields) in layout.variant_fields.iter_enumerated() {
                    if vi.as_usize() < 3 {
                        continue; // unresumed / returned / panicked
                    }
                    let mut os = Own::new(&cx, &table);
                    let mut live = vec![];
                    for sl in fields.iter() {
                        let f = &layout.field_tys[*sl];
                        live.push(J::I(sl.as_usize() as i64));
                        os.walk(f.ty, &format!("saved{}:{}", sl.as_usize(), cx.tys(f.ty).chars().take(80).collect::<String>()), 1);
                    }
                    susp.push(J::O(vec![
                        ("variant", J::I(vi.as_usize() as i64)),
                        ("loc", s(cx.loc(layout.variant_source_info[vi].span))),
                        ("live", J::A(live)),
                        ("atoms", os.atoms_json()),
                    ]));
                }
                cj.push(("suspensions", J::A(susp)));
            }
            coroutines.push(J::O(cj));
        }
    }

    // 6. unsafe census
    let mut unsafe_count = 0i64;
    let mut unsafe_sites = vec![];
    for ldid in tcx.hir_crate_items(()).definitions() {
        let did = ldid.to_def_id();
        match tcx.def_kind(did) {
            DefKind::Fn | DefKind::AssocFn => {
                if tcx.fn_sig(did).skip_binder().safety().is_unsafe() {
                    unsafe_count += 1;
                    unsafe_sites.push(s(format!("unsafe fn {}", cx.path(did))));
                }
            }
            DefKind::Impl { of_trait: true } => {
                if tcx.impl_trait_header(did).safety.is_unsafe() && !tcx.def_span(did).from_expansion() {
                    unsafe_count += 1;
                    unsafe_sites.push(s(format!("unsafe impl at {}", cx.loc(tcx.def_span(did)))));
                }
            }
            _ => {}
        }
    }
    // unsafe blocks: THIR is gone by now; use HIR
    struct V<'a, 'tcx> {
        cx: &'a Cx<'tcx>,
        n: i64,
        sites: Vec<J>,
    }
    impl<'a, 'tcx> rustc_hir::intravisit::Visitor<'tcx> for V<'a, 'tcx> {
        type NestedFilter = rustc_middle::hir::nested_filter::All;
        fn maybe_tcx(&mut self) -> Self::MaybeTyCtxt {
            self.cx.tcx
        }
        fn visit_block(&mut self, b: &'tcx rustc_hir::Block<'tcx>) {
            if let rustc_hir::BlockCheckMode::UnsafeBlock(src) = b.rules {
                if matches!(src, rustc_hir::UnsafeSource::UserProvided) && !b.span.from_expansion() {
                    self.n += 1;
                    self.sites.push(s(format!("unsafe block at {}", self.cx.loc(b.span))));
                }
            }
            rustc_hir::intravisit::walk_block(self, b);
        }
    }
    let mut vis = V { cx: &cx, n: 0, sites: vec![] };
    tcx.hir_walk_toplevel_module(&mut vis);
    unsafe_count += vis.n;
    unsafe_sites.extend(vis.sites);
    // cargo passes `[lints.rust] unsafe_code = "forbid"` as a command-line lint option
    let forbid = tcx
        .sess
        .opts
        .lint_opts
        .iter()
        .filter(|(n, _)| n.replace('-', "_") == "unsafe_code")
        .map(|(_, l)| format!("{:?}", l))
        .last()
        .unwrap_or_else(|| "default".to_string());
    let root = J::O(vec![
        ("nonce", s(std::env::var("HFACTS_NONCE").unwrap_or_default())),
        ("crate", s(tcx.crate_name(LOCAL_CRATE).to_string())),
        ("unsafe", J::O(vec![("lint_level", s(forbid)), ("count", J::I(unsafe_count)), ("sites", J::A(unsafe_sites))])),
        ("adts", J::A(adts)),
        ("traits", J::A(traits)),
        ("impls", J::A(impls)),
        ("statics", J::A(statics)),
        ("dyn_table", dyn_json),
        ("owns", J::A(owns)),
        ("coroutines", J::A(coroutines)),
        ("fns", J::A(fns)),
    ]);
    let mut out = String::new();
    root.write(&mut out);
    out.push('\n');
    let name = tcx.crate_name(LOCAL_CRATE).to_string();
    let _ = std::fs::create_dir_all(&out_dir);
    let tmp = format!("{}/{}.json.tmp.{}", out_dir, name, std::process::id());
    if std::fs::write(&tmp, out).is_ok() {
        let _ = std::fs::rename(&tmp, format!("{}/{}.json", out_dir, name));
    }
}

fn upvar_js<'tcx>(cx: &Cx<'tcx>, upv: &[Ty<'tcx>]) -> Vec<J> {
    upv.iter().map(|t| s(cx.tys(*t))).collect()
}

impl rustc_driver::Callbacks for Cb {
    fn after_expansion<'tcx>(&mut self, _c: &Compiler, tcx: TyCtxt<'tcx>) -> Compilation {
        if wanted(tcx) {
            extract(tcx);
        }
        Compilation::Continue
    }
}

fn main() {
    let mut args: Vec<String> = std::env::args().collect();
    // RUSTC_WORKSPACE_WRAPPER: argv[1] is the path of the real rustc
    if args.len() > 1 {
        args.remove(1);
    }
    rustc_driver::run_compiler(&args, &mut Cb);
}
