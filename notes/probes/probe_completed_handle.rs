use hannibal::prelude::*;

#[derive(Default)]
struct A;
impl Actor for A {}

#[tokio::test]
async fn stopped_after_awaiting_same_handle_by_mut_ref() {
    let mut addr = A.spawn();
    addr.stop().unwrap();
    (&mut addr).await.unwrap();
    // the handle itself observed the termination
    assert!(addr.stopped());
    assert!(!addr.running());
}

#[tokio::test]
async fn clone_of_completed_handle_can_be_awaited() {
    let mut addr = A.spawn();
    addr.stop().unwrap();
    (&mut addr).await.unwrap();
    let late = addr.clone();
    late.await.unwrap();
    (&mut addr).await.unwrap();
}

#[tokio::test]
async fn weak_of_completed_handle_reports_stopped() {
    let mut addr = A.spawn();
    addr.stop().unwrap();
    (&mut addr).await.unwrap();
    let weak = addr.downgrade();
    assert!(weak.stopped());
}
