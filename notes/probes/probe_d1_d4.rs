// Probes for defects D1-D4 (properties C14, C15, C07, C08). Not part of the verification
// machinery: these are the "failing histories against the real code" that show the defects
// are genuine. Drop into a scratch copy of /repo as tests/probe.rs and run
//   cargo test --offline --test probe -- --nocapture --test-threads 1
//
// Observed on the pinned tree (981bde3) - all four tests FAIL:
//   D1 stopped()=false running()=true                         (actor terminated 200 ms earlier, nobody awaited it)
//   D2 weak.upgrade().is_some()=false ctx.stop() ok = Ok(false) (actor held only by a Caller)
//   D3 ticks in 525ms with 50ms interval after 2 restarts: 30   (3 interval tasks alive instead of 1)
//   D4 already_running on alive service = Some(false)
// Observed with notes/planned-fixes.diff applied - all four PASS:
//   D1 stopped()=true running()=false weak.stopped()=true
//   D2 weak.upgrade().is_some()=true weak_caller.upgrade=true ctx.stop() ok = Ok(true)
//   D3 ticks ... : 10
//   D4 alive = Some(true); un-awaited dead service = Some(false); from_registry respawns
// and the pinned suite still passes 41/41 (tokio), lib tests 41/41 (async-std), 35/35 (smol).
#![allow(clippy::unwrap_used)]
use hannibal::{prelude::*, RestartableActor, Service};
use std::sync::{Arc, atomic::{AtomicUsize, Ordering}};
use std::time::Duration;

#[derive(Default)]
struct Plain;
impl Actor for Plain {}
#[derive(Debug)]
struct Q;
impl Message for Q { type Response = u32; }
impl Handler<Q> for Plain { async fn handle(&mut self, _: &mut Context<Self>, _: Q) -> u32 { 7 } }
struct SelfStop;
impl Message for SelfStop { type Response = bool; }
impl Handler<SelfStop> for Plain { async fn handle(&mut self, ctx: &mut Context<Self>, _: SelfStop) -> bool { ctx.stop().is_ok() } }

#[tokio::test]
async fn d1_stopped_without_await() {
    let mut addr = Plain.spawn();
    let probe = addr.clone();
    let weak = addr.downgrade();
    assert!(!probe.stopped() && probe.running() && !weak.stopped());
    addr.stop().unwrap();
    drop(addr);
    tokio::time::sleep(Duration::from_millis(200)).await;
    assert!(probe.call(Q).await.is_err(), "actor should be terminated");
    println!("D1 stopped()={} running()={} weak.stopped()={}", probe.stopped(), probe.running(), weak.stopped());
    assert!(probe.stopped() && !probe.running() && weak.stopped());
}

#[tokio::test]
async fn d2_caller_only() {
    let addr = Plain.spawn();
    let weak = addr.downgrade();
    let wc = addr.weak_caller::<Q>();
    let caller = addr.caller::<SelfStop>();
    drop(addr);
    tokio::time::sleep(Duration::from_millis(50)).await;
    let up = weak.upgrade().is_some();
    let up2 = wc.upgrade().is_some();
    let ok = caller.call(SelfStop).await;
    println!("D2 weak.upgrade().is_some()={up} weak_caller.upgrade={up2} ctx.stop() ok = {ok:?}");
    assert!(up && up2);
    assert_eq!(ok, Ok(true));
    drop(caller);
    tokio::time::sleep(Duration::from_millis(50)).await;
    assert!(weak.upgrade().is_none() && wc.upgrade().is_none());
}

struct Ticker(Arc<AtomicUsize>);
impl Actor for Ticker {
    async fn started(&mut self, ctx: &mut Context<Self>) -> DynResult<()> {
        ctx.interval((), Duration::from_millis(50));
        Ok(())
    }
}
impl RestartableActor for Ticker {}
impl Handler<()> for Ticker { async fn handle(&mut self, _: &mut Context<Self>, _: ()) { self.0.fetch_add(1, Ordering::SeqCst); } }
#[tokio::test]
async fn d3_restart_timers() {
    let n = Arc::new(AtomicUsize::new(0));
    let mut addr = Ticker(n.clone()).spawn();
    addr.restart().unwrap();
    addr.restart().unwrap();
    addr.ping().await.unwrap();
    n.store(0, Ordering::SeqCst);
    tokio::time::sleep(Duration::from_millis(525)).await;
    let ticks = n.load(Ordering::SeqCst);
    println!("D3 ticks in 525ms with 50ms interval after 2 restarts: {ticks}");
    assert!(ticks >= 8 && ticks <= 11, "got {ticks}");
}

#[derive(Default)]
struct Svc;
impl Actor for Svc {}
impl Service for Svc {}
#[tokio::test]
async fn d4_already_running() {
    assert_eq!(Svc::already_running().await, None);
    let mut a = Svc::from_registry().await;
    a.ping().await.unwrap();
    let r = Svc::already_running().await;
    println!("D4 already_running on alive service = {r:?}");
    assert_eq!(r, Some(true));
    a.stop().unwrap();
    drop(a);
    tokio::time::sleep(Duration::from_millis(100)).await;
    // nobody awaited the service: D1 + D4 together
    let r = Svc::already_running().await;
    println!("D4 already_running on un-awaited dead service = {r:?}");
    assert_eq!(r, Some(false));
    assert!(Svc::try_from_registry().is_none());
    let b = Svc::from_registry().await;
    assert!(b.ping().await.is_ok(), "fresh instance must have been spawned");
}
