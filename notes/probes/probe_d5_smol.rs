// Probe for defect D5 (property C18). Not part of the verification machinery: it is the
// "failing history against the real code" that shows the defect is genuine.
//
// Run in a scratch copy of /repo as an example with
//   cargo run --offline --no-default-features --features smol_runtime --example probe_smol
// (add an [[example]] entry with required-features = ["runtime"]).
//
// Observed on the pinned tree (981bde3):
//   smol_runtime : builder on_stream().spawn(): call -> Err(Canceled(Canceled))   <-- actor was cancelled
//                  spawn_on_stream():           call -> Ok(7)
//   async_runtime: both Ok(7)
//   tokio_runtime: both Ok(7)
// With `P::spawn_actor(event_loop).detach();` in StreamActorBuilder::spawn all three print Ok(7).
use hannibal::prelude::*;
#[derive(Default)]
struct S;
impl Actor for S {}
impl StreamHandler<i32> for S {
    async fn handle(&mut self, _: &mut Context<Self>, _: i32) {}
}
struct Q;
impl Message for Q {
    type Response = u32;
}
impl Handler<Q> for S {
    async fn handle(&mut self, _: &mut Context<Self>, _: Q) -> u32 {
        7
    }
}
fn main() {
    hannibal::runtime::block_on(async {
        let a = hannibal::build(S)
            .on_stream(futures::stream::pending::<i32>())
            .spawn();
        println!("D5 builder on_stream().spawn(): call -> {:?}", a.call(Q).await);
        let b = S.spawn_on_stream(futures::stream::pending::<i32>()).unwrap();
        println!("D5 spawn_on_stream(): call -> {:?}", b.call(Q).await);
    });
}
