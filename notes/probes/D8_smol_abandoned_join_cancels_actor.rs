use hannibal::prelude::*;
#[derive(Debug, Default, PartialEq)]
struct Counter { sum: i32 }
impl Actor for Counter {}
#[message(response = i32)]
struct Get;
impl Handler<Get> for Counter { async fn handle(&mut self, _ctx: &mut Context<Self>, _: Get) -> i32 { self.sum } }

#[test]
fn abandoned_join_does_not_affect_the_actor() {
    hannibal::runtime::block_on(async {
        let mut owning = Counter::default().spawn_owning();
        assert_eq!(owning.call(Get).await.unwrap(), 0);
        {
            let mut join = owning.join();
            // poll the join once (the actor is running: pending), then give up on it
            let polled = futures::poll!(&mut join);
            assert!(polled.is_pending());
        }
        hannibal::runtime::sleep(std::time::Duration::from_millis(100)).await;
        assert_eq!(owning.call(Get).await.ok(), Some(0), "the actor must be unaffected by a join that was given up");
    });
}
