//! probe: join requested before detach, on whatever runtime feature is enabled (uses hannibal::runtime::block_on)
use hannibal::prelude::*;

#[derive(Debug, Default, PartialEq)]
struct Counter { sum: i32, stopped: bool }
impl Actor for Counter {
    async fn stopped(&mut self, _ctx: &mut Context<Self>) { self.stopped = true; }
}
#[message]
struct Add(i32);
#[message(response = i32)]
struct Get;
impl Handler<Add> for Counter { async fn handle(&mut self, _ctx: &mut Context<Self>, msg: Add) { self.sum += msg.0; } }
impl Handler<Get> for Counter { async fn handle(&mut self, _ctx: &mut Context<Self>, _: Get) -> i32 { self.sum } }

#[test]
fn join_requested_before_detach_yields_final_state() {
    hannibal::runtime::block_on(async {
        let mut owning = Counter::default().spawn_owning();
        owning.send(Add(1)).await.unwrap();
        let join = owning.join();
        let mut addr = owning.detach();
        addr.send(Add(2)).await.unwrap();
        assert_eq!(addr.call(Get).await.unwrap(), 3);
        addr.stop().unwrap();
        (&mut addr).await.unwrap();
        let actor = join.await;
        assert_eq!(actor, Some(Counter { sum: 3, stopped: true }), "the actor terminated gracefully and was never handed out");
    });
}
