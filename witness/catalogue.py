"""C19 catalogue: one ill-typed program per (rule, entry point) with the expected rustc error code, each paired with a
well-typed twin that differs only in the marked line. PRELUDE is shared by all programs."""

PRELUDE = r'''#![allow(unused, clippy::all)]
use hannibal::prelude::*;
use hannibal::{Actor, Addr, Broker, Caller, Context, Handler, Message, OwningAddr, RestartableActor, Sender, StreamHandler, WeakAddr, WeakCaller, WeakSender};
use std::time::Duration;

struct A1;
impl Actor for A1 {}
#[derive(Clone)] struct Ping;   // fire-and-forget, handled by A1
impl Message for Ping { type Response = (); }
#[derive(Clone)] struct Ask;    // request with a response, handled by A1
impl Message for Ask { type Response = u32; }
#[derive(Clone)] struct Other;  // fire-and-forget, NOT handled by A1
impl Message for Other { type Response = (); }
impl Handler<Ping> for A1 { async fn handle(&mut self, _: &mut Context<Self>, _: Ping) {} }
impl Handler<Ask> for A1 { async fn handle(&mut self, _: &mut Context<Self>, _: Ask) -> u32 { 1 } }

#[derive(Default)] struct R1;   // restartable, Default
impl Actor for R1 {}
impl RestartableActor for R1 {}
impl Handler<Ping> for R1 { async fn handle(&mut self, _: &mut Context<Self>, _: Ping) {} }
struct U1;                       // handles the unit message (can be a plain child)
impl Actor for U1 {}
impl Handler<()> for U1 { async fn handle(&mut self, _: &mut Context<Self>, _: ()) {} }
struct NoDef;                    // restartable, not Default
impl Actor for NoDef {}
impl RestartableActor for NoDef {}
struct S1;                       // stream handler for i32
impl Actor for S1 {}
impl StreamHandler<i32> for S1 { async fn handle(&mut self, _: &mut Context<Self>, _: i32) {} }
fn ints() -> futures::stream::Iter<std::vec::IntoIter<i32>> { futures::stream::iter(vec![1, 2, 3]) }
fn main() {}
'''

# (id, rule, entry point, expected error codes, signature+opening, failing line, twin line, closing)
W = []


def w(id_, rule, entry, codes, head, fail, twin, tail="}", skip_features=()):
    W.append(dict(id=id_, rule=rule, entry=entry, codes=codes if isinstance(codes, (list, tuple)) else [codes], head=head, fail=fail, twin=twin, tail=tail, skip_features=skip_features))


H = "message needs a handler"
w("h01", H, "Addr::send", "E0277", "async fn w(a: Addr<A1>) {", "let _ = a.send(Other).await;", "let _ = a.send(Ping).await;")
w("h02", H, "Addr::call", "E0277", "async fn w(a: Addr<A1>) {", "let _ = a.call(Other).await;", "let _ = a.call(Ask).await;")
w("h03", H, "OwningAddr::send", "E0277", "async fn w(a: OwningAddr<A1>) {", "let _ = a.send(Other).await;", "let _ = a.send(Ping).await;")
w("h04", H, "OwningAddr::call", "E0277", "async fn w(a: OwningAddr<A1>) {", "let _ = a.call(Other).await;", "let _ = a.call(Ask).await;")
w("h05", H, "Addr::sender", "E0277", "fn w(a: Addr<A1>) {", "let _ = a.sender::<Other>();", "let _ = a.sender::<Ping>();")
w("h06", H, "Addr::caller", "E0277", "fn w(a: Addr<A1>) {", "let _ = a.caller::<Other>();", "let _ = a.caller::<Ask>();")
w("h07", H, "Addr::weak_sender", "E0277", "fn w(a: Addr<A1>) {", "let _ = a.weak_sender::<Other>();", "let _ = a.weak_sender::<Ping>();")
w("h08", H, "Addr::weak_caller", "E0277", "fn w(a: Addr<A1>) {", "let _ = a.weak_caller::<Other>();", "let _ = a.weak_caller::<Ask>();")
w("h09", H, "Sender::from(Addr)", "E0277", "fn w(a: Addr<A1>) {", "let _: Sender<Other> = Sender::from(a);", "let _: Sender<Ping> = Sender::from(a);")
w("h10", H, "Caller::from(Addr)", "E0277", "fn w(a: Addr<A1>) {", "let _: Caller<Other> = Caller::from(a);", "let _: Caller<Ask> = Caller::from(a);")
w("h11", H, "WeakSender::from(Addr)", "E0277", "fn w(a: Addr<A1>) {", "let _: WeakSender<Other> = WeakSender::from(a);", "let _: WeakSender<Ping> = WeakSender::from(a);")
w("h12", H, "WeakCaller::from(Addr)", "E0277", "fn w(a: Addr<A1>) {", "let _: WeakCaller<Other> = WeakCaller::from(a);", "let _: WeakCaller<Ask> = WeakCaller::from(a);")
w("h13", H, "Context::weak_sender", "E0277", "fn w(ctx: &Context<A1>) {", "let _ = ctx.weak_sender::<Other>();", "let _ = ctx.weak_sender::<Ping>();")
w("h14", H, "Context::weak_caller", "E0277", "fn w(ctx: &Context<A1>) {", "let _ = ctx.weak_caller::<Other, ()>();", "let _ = ctx.weak_caller::<Ask, u32>();")
w("h15", H, "Context::interval", "E0277", "fn w(ctx: &mut Context<A1>) {", "ctx.interval(Other, Duration::from_secs(1));", "ctx.interval(Ping, Duration::from_secs(1));")
w("h16", H, "Context::subscribe", "E0277", "async fn w(ctx: &mut Context<A1>) {", "let _ = ctx.subscribe::<Other>().await;", "let _ = ctx.subscribe::<Ping>().await;")
w("h17", H, "Context::register_child", "E0277", "fn w(ctx: &mut Context<A1>, child: Addr<A1>) {", "ctx.register_child::<Other>(child);", "ctx.register_child::<Ping>(child);")
w("h18", H, "Context::add_child(Addr)", "E0277", "fn w(ctx: &mut Context<A1>, a1: Addr<A1>, u1: Addr<U1>) {", "ctx.add_child(a1);", "ctx.add_child(u1);")
w("h19", H, "Context::add_child(OwningAddr)", "E0277", "fn w(ctx: &mut Context<A1>, a1: OwningAddr<A1>, u1: Addr<U1>) {", "ctx.add_child(a1);", "ctx.add_child(u1);")
w("h20", H, "Context::add_child(Sender)", "E0277", "fn w(ctx: &mut Context<A1>, s1: Sender<Ping>, u1: Sender<()>) {", "ctx.add_child(s1);", "ctx.add_child(u1);")

U = "fire-and-forget needs Response = ()"
w("u01", U, "Addr::send", "E0271", "async fn w(a: Addr<A1>) {", "let _ = a.send(Ask).await;", "let _ = a.send(Ping).await;")
w("u02", U, "OwningAddr::send", "E0271", "async fn w(a: OwningAddr<A1>) {", "let _ = a.send(Ask).await;", "let _ = a.send(Ping).await;")
w("u03", U, "Addr::sender", "E0271", "fn w(a: Addr<A1>) {", "let _ = a.sender::<Ask>();", "let _ = a.sender::<Ping>();")
w("u04", U, "Addr::weak_sender", "E0271", "fn w(a: Addr<A1>) {", "let _ = a.weak_sender::<Ask>();", "let _ = a.weak_sender::<Ping>();")
w("u05", U, "type Sender<M>", "E0271", "", "fn w(_: Sender<Ask>) {", "fn w(_: Sender<Ping>) {")
w("u06", U, "type WeakSender<M> (upgrade)", ["E0599", "E0271"], "fn w(s: WeakSender<Ask>) {", "let _ = s.upgrade();", "let _ = 0;")
w("u07", U, "type Broker<M>", "E0271", "", "fn w(_: Broker<Ask>) {", "fn w(_: Broker<Ping>) {")
w("u08", U, "Context::interval", "E0271", "fn w(ctx: &mut Context<A1>) {", "ctx.interval(Ask, Duration::from_secs(1));", "ctx.interval(Ping, Duration::from_secs(1));")
w("u09", U, "Context::interval_with", "E0271", "fn w(ctx: &mut Context<A1>) {", "ctx.interval_with(|| Ask, Duration::from_secs(1));", "ctx.interval_with(|| Ping, Duration::from_secs(1));")
w("u10", U, "Context::delayed_send", "E0271", "fn w(ctx: &mut Context<A1>) {", "ctx.delayed_send(|| Ask, Duration::from_secs(1));", "ctx.delayed_send(|| Ping, Duration::from_secs(1));")
w("u11", U, "Context::register_child", "E0271", "fn w(ctx: &mut Context<A1>, child: Addr<A1>) {", "ctx.register_child::<Ask>(child);", "ctx.register_child::<Ping>(child);")
w("u12", U, "Context::send_to_children", "E0271", "fn w(ctx: &mut Context<A1>) {", "ctx.send_to_children(Ask);", "ctx.send_to_children(Ping);")
w("u13", U, "Context::subscribe", "E0271", "async fn w(ctx: &mut Context<A1>) {", "let _ = ctx.subscribe::<Ask>().await;", "let _ = ctx.subscribe::<Ping>().await;")
w("u14", U, "Context::publish", "E0271", "async fn w(ctx: &Context<A1>) {", "let _ = ctx.publish(Ask).await;", "let _ = ctx.publish(Ping).await;", skip_features=("smol_runtime",))  # cfg(any(tokio_runtime, async_runtime))
w("u15", U, "Broker::publish", "E0271", "async fn w() {", "let _ = Broker::publish(Ask).await;", "let _ = Broker::publish(Ping).await;")

R = "restart only for restartable actors"
w("r01", R, "Addr::restart", "E0599", "fn w(mut a: Addr<A1>, mut r: Addr<R1>) {", "let _ = a.restart();", "let _ = r.restart();")
w("r02", R, "Context::restart", "E0599", "fn w(a: &Context<A1>, r: &Context<R1>) {", "let _ = a.restart();", "let _ = r.restart();")
w("r03", R, "builder recreate_from_default", "E0599", "fn w() {", "let _ = hannibal::build(A1).unbounded().recreate_from_default();", "let _ = hannibal::build(R1).unbounded().recreate_from_default();")

S = "stream only on a non-restartable builder"
w("s01", S, "unbounded().with_stream", "E0599", "fn w() {", "let _ = hannibal::build(S1).unbounded().with_stream(ints());", "let _ = hannibal::build(S1).unbounded().non_restartable().with_stream(ints());")
w("s02", S, "bounded(n).with_stream", "E0599", "fn w() {", "let _ = hannibal::build(S1).bounded(1).with_stream(ints());", "let _ = hannibal::build(S1).bounded(1).non_restartable().with_stream(ints());")
w("s03", S, "recreate_from_default().with_stream", "E0599", "#[derive(Default)] struct RS; impl Actor for RS {} impl RestartableActor for RS {} impl StreamHandler<i32> for RS { async fn handle(&mut self, _: &mut Context<Self>, _: i32) {} }\nfn w() {", "let _ = hannibal::build(RS).unbounded().recreate_from_default().with_stream(ints());", "let _ = hannibal::build(RS).unbounded().recreate_from_default().non_restartable().with_stream(ints());")
w("s04", S, "on_stream item needs StreamHandler", "E0277", "fn w() {", "let _ = hannibal::build(A1).on_stream(ints());", "let _ = hannibal::build(S1).on_stream(ints());")
w("s05", S, "bounded_on_stream item needs StreamHandler", "E0277", "fn w() {", "let _ = hannibal::build(A1).bounded_on_stream(1, ints());", "let _ = hannibal::build(S1).bounded_on_stream(1, ints());")
w("s06", S, "spawn_on_stream item needs StreamHandler", ["E0599", "E0277"], "fn w() {", "let _ = A1.spawn_on_stream(ints());", "let _ = S1.spawn_on_stream(ints());")
w("s07", S, "with_stream item type", ["E0277", "E0271"], "fn w() {", "let _ = hannibal::build(S1).unbounded().non_restartable().with_stream(futures::stream::iter(vec![\"x\"]));", "let _ = hannibal::build(S1).unbounded().non_restartable().with_stream(ints());")

D = "recreate-from-default needs Default"
w("d01", D, "builder recreate_from_default", "E0599", "fn w() {", "let _ = hannibal::build(NoDef).unbounded().recreate_from_default();", "let _ = hannibal::build(R1).unbounded().recreate_from_default();")
w("d02", D, "spawn_default", ["E0599", "E0277"], "use hannibal::spawner::DefaultSpawnable;\nfn w() {", "let _ = NoDef::spawn_default();", "let _ = R1::spawn_default();")
w("d03", D, "Service needs Default", "E0277", "", "impl hannibal::Service for NoDef {}", "impl hannibal::Service for R1 {}", tail="")

B = "no bypass through erased / weak handles"
w("b01", B, "Sender<M>::send(other)", "E0308", "fn w(s: Sender<Ping>) {", "let _ = s.send(Other);", "let _ = s.send(Ping);")
w("b02", B, "Caller<M>::call(other)", "E0308", "async fn w(c: Caller<Ask>) {", "let _ = c.call(Other).await;", "let _ = c.call(Ask).await;")
w("b03", B, "WeakSender<M>::try_send(other)", "E0308", "async fn w(s: WeakSender<Ping>) {", "let _ = s.try_send(Other).await;", "let _ = s.try_send(Ping).await;")
w("b04", B, "WeakCaller<M>::try_call(other)", "E0308", "async fn w(c: WeakCaller<Ask>) {", "let _ = c.try_call(Other).await;", "let _ = c.try_call(Ask).await;")
w("b05", B, "Sender<M1> as Sender<M2>", "E0308", "fn w(s: Sender<Ping>) {", "let _: Sender<Other> = s;", "let _: Sender<Ping> = s;")
w("b06", B, "WeakSender::upgrade keeps M", "E0308", "fn w(s: WeakSender<Ping>) {", "let _: Option<Sender<Other>> = s.upgrade();", "let _: Option<Sender<Ping>> = s.upgrade();")
w("b07", B, "payload type not nameable", ["E0603", "E0433", "E0432"], "", "use hannibal::environment::Payload;", "use hannibal::Addr as _Addr2;", tail="")
w("b08", B, "Sender::force_send is crate-private", "E0624", "fn w(s: Sender<Ping>) {", "let _ = s.force_send(Ping);", "let _ = s.send(Ping);")
w("b09", B, "Addr::force_send is crate-private", "E0624", "async fn w(a: Addr<A1>) {", "let _ = a.force_send(Ping);", "let _ = a.send(Ping).await;")
w("b10", B, "channel layer not nameable", ["E0603", "E0433", "E0432"], "", "use hannibal::channel::Channel;", "use hannibal::Context as _Ctx2;", tail="")
w("b11", B, "Caller downgrade keeps M", "E0308", "fn w(c: Caller<Ask>) {", "let _: WeakCaller<Other> = c.downgrade();", "let _: WeakCaller<Ask> = c.downgrade();")
w("b12", B, "child table not reachable from outside", "E0616", "fn w(ctx: &mut Context<A1>) {", "let _ = ctx.children.len();", "let _ = 0;")
