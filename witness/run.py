#!/usr/bin/env python3
"""Generates the witness package from catalogue.py into /verif/.cache/witness, runs one
`cargo check --bins --keep-going --message-format=json` against the current /repo tree and judges every program by
rustc's diagnostics.  Prints a JSON result on stdout.  usage: run.py [--repo DIR] [--warm]"""
import json, os, shutil, subprocess, sys

V = os.path.dirname(os.path.dirname(os.path.abspath(__file__)))
sys.path.insert(0, os.path.join(V, "witness"))
import catalogue

MARK = "//~ ERROR"


def main():
    repo = "/repo"
    if "--repo" in sys.argv:
        repo = sys.argv[sys.argv.index("--repo") + 1]
    feat = None
    if "--features" in sys.argv:
        feat = sys.argv[sys.argv.index("--features") + 1]
    import hashlib
    pkg = os.path.join(V, ".cache", "witness", "pkg-" + hashlib.md5((repo + "|" + str(feat)).encode()).hexdigest()[:8])
    src = os.path.join(pkg, "src", "bin")
    shutil.rmtree(os.path.join(pkg, "src"), ignore_errors=True)
    os.makedirs(src, exist_ok=True)
    with open(os.path.join(pkg, "Cargo.toml"), "w") as f:
        f.write('[package]\nname = "hannibal-witness"\nversion = "0.0.0"\nedition = "2024"\n\n[workspace]\n\n[dependencies]\nhannibal = { path = "%s"%s }\nfutures = "0.3"\n' % (repo, (', default-features = false, features = ["%s"]' % feat) if feat else ""))
    shutil.copy(os.path.join(repo, "Cargo.lock"), os.path.join(pkg, "Cargo.lock"))
    progs = {}
    for w in catalogue.W:
        if feat and feat in w.get("skip_features", ()):
            continue
        for kind in ("fail", "twin"):
            name = "%s_%s" % (w["id"], kind)
            line = w["fail"] if kind == "fail" else w["twin"]
            body = catalogue.PRELUDE + "\n" + (w["head"] + "\n" if w["head"] else "")
            marked_line = body.count("\n") + 1
            body += line + ("  " + MARK if kind == "fail" else "") + "\n" + (w["tail"] + "\n" if w["tail"] else "")
            if w["head"] == "" and w["tail"] == "}":
                pass
            with open(os.path.join(src, name + ".rs"), "w") as f:
                f.write(body)
            progs[name] = dict(w=w, kind=kind, line=marked_line)
    # no incremental state (112 binaries x every scratch tree would pile up), and scratch trees (controls) build into a
    # target directory of their own whose workspace-member artifacts are dropped before each run: only the compiled
    # dependencies are kept
    scratch = os.path.realpath(repo) != "/repo"
    tdir = os.path.join(V, ".cache", "witness", "target-scratch" if scratch else "target")
    env = dict(os.environ, CARGO_NET_OFFLINE="true", CARGO_TARGET_DIR=tdir, CARGO_INCREMENTAL="0")
    os.makedirs(tdir, exist_ok=True)
    import fcntl, glob
    lock = open(os.path.join(tdir, ".witness-lock"), "w")
    fcntl.flock(lock, fcntl.LOCK_EX)
    if scratch:
        for pat in ("debug/deps/*hannibal*", "debug/.fingerprint/hannibal*", "debug/incremental", "debug/deps/*_fail-*", "debug/deps/*_twin-*", "debug/.fingerprint/hannibal-witness-*"):
            for x in glob.glob(os.path.join(tdir, pat)):
                if os.path.isdir(x):
                    shutil.rmtree(x, ignore_errors=True)
                else:
                    try:
                        os.unlink(x)
                    except OSError:
                        pass
    p = subprocess.run(["cargo", "check", "--offline", "--bins", "--keep-going", "--message-format=json"], cwd=pkg, env=env, capture_output=True, text=True)
    errors = {}
    lib_broken = False
    for ln in p.stdout.splitlines():
        try:
            m = json.loads(ln)
        except ValueError:
            continue
        if m.get("reason") != "compiler-message":
            continue
        msg = m["message"]
        if msg.get("level") != "error":
            continue
        tgt = m["target"]["name"]
        if m["target"]["kind"] != ["bin"]:
            lib_broken = True
            continue
        spans = [s for s in msg.get("spans", []) if s.get("is_primary")]
        if not spans:
            continue
        errors.setdefault(tgt, []).append(dict(code=(msg.get("code") or {}).get("code"), line=spans[0]["line_start"], text=msg["message"][:160]))
    if "--warm" in sys.argv:
        print("witness package warmed (%d programs)" % len(progs))
        return 0
    out = dict(programs=len(progs), results=[], lib_broken=lib_broken, cargo_rc=p.returncode, stderr_tail=p.stderr[-600:] if lib_broken or not progs else "")
    for name, pr in sorted(progs.items()):
        errs = errors.get(name, [])
        w = pr["w"]
        if pr["kind"] == "fail":
            on_line = [e for e in errs if e["line"] == pr["line"]]
            good = [e for e in on_line if e["code"] in w["codes"]]
            stray = [e for e in errs if e["line"] != pr["line"]]
            ok = bool(good) and not stray
            verdict = "rejected-as-expected" if ok else ("COMPILES" if not errs else "wrong-diagnostic")
        else:
            ok = not errs
            verdict = "compiles" if ok else "TWIN-BROKEN"
        out["results"].append(dict(id=name, rule=w["rule"], entry=w["entry"], expected=w["codes"] if pr["kind"] == "fail" else [], ok=ok, verdict=verdict, errors=errs[:3]))
    print(json.dumps(out))
    return 0


if __name__ == "__main__":
    sys.exit(main())
