#!/usr/bin/env bash
exec python3 "$(dirname "$0")/run.py" "$@"
